(* C11/Compose.v -- the token-aware policy composed with C10 (replica placement).
   In C11 the replica list of the query's token is an input of the model.  Here that input is tied to
   C10's model of the lookup the real Pick performs (tokenRingReplicas.replicasFor on the keyspace's replica
   map, tokenRing.GetHostForToken on the ring built from the hosts' tokens): [pick_lookup] is the query
   information of a Pick expressed with C10.Model, and C10's theorems (the map built by simpleStrategy /
   networkTopology.replicaMap holds Cassandra's natural endpoints, each host once) turn C11_ta_offers into:
   the up replicas as CASSANDRA places them, nearest tier first, in Cassandra's order, come first. *)
From Coq Require Import Permutation.
From GocqlV Require C10.Model C10.Spec C10.Proofs1 C10.Proofs6 C10.Props.
From GocqlV Require Import Lib.Base C11.Model C11.Spec C11.Proofs1 C11.Proofs2 C11.Proofs3 C11.Proofs4 C11.Proofs5 C11.Proofs6.

Section Compose.
  Context {T : Type} (ltb : T -> T -> bool).
  (* the HostInfo behind C10's host number h (C10 models host pointers as integers) *)
  Variable hostof : Z -> host.
  Hypothesis hostof_id : forall h, hid (hostof h) = h.

  (* what tokenAwareHostPolicy.Pick finds for token t: m the replica map of the query's keyspace, r the ring *)
  Definition pick_lookup (m : list (T * list Z)) (r : list (T * Z)) (t : T) (order : list host) : qinfo :=
    QKey (option_map (fun e => map hostof (snd e)) (C10.Model.replicas_for ltb m t))
         (option_map (fun e => hostof (fst e)) (C10.Model.get_host_for_token ltb r t))
         order.

  Lemma hosts_eqb_refl l : hosts_eqb l l = true.
  Proof.
    unfold hosts_eqb. rewrite Nat.eqb_refl. simpl. induction l as [|h l IH]; simpl; [reflexivity|].
    rewrite IH, andb_true_r. unfold host_eqb. rewrite !Z.eqb_refl. reflexivity.
  Qed.

  Lemma map_hid_hostof l : map hid (map hostof l) = l.
  Proof. rewrite map_map. rewrite <- (map_id l) at 2. apply map_ext. exact hostof_id. Qed.

  (* the composition, for any replica map entry that names no host twice *)
  Lemma compose_generic c ls s outs up n m r t tok reps :
    run c (sys_init c) ls = Some (s, outs) -> ctr_in_range (s_pol s) -> c_ta c = true -> c_shuffle c = false ->
    C10.Model.replicas_for ltb m t = Some (tok, reps) -> NoDup reps ->
    let rs := map hostof reps in
    let k := c_kind c in
    let near := ups up (in_tier (host_tier k) 0 rs) in
    let far := if c_nlrf c then concat (map (fun i => ups up (in_tier (host_tier k) i rs)) (seq 1 (max_tier k))) else [] in
    let offered := spec_ta up (host_tier k) (max_tier k) (c_nlrf c) rs (plists (s_pol s)) (Z.to_nat (pctr (s_pol s) + 2)) in
    step c s (LPick n (pick_lookup m r t rs))
      = Some (mkSys (s_pol s) (s_up s) ((n, ITA (ta_pick k (c_nlrf c) rs)) :: s_iters s), None)
    /\ (exists st', yields (ta_step (c_nlrf c) up) (ta_pick k (c_nlrf c) rs, s_pol s) offered st'
                    /\ forall up', ta_step (c_nlrf c) up' st' = (Nil, st'))
    /\ exists rest, offered = near ++ far ++ rest
         /\ tier_sorted (host_tier k) far /\ tier_sorted (host_tier k) rest
         /\ (forall h, In h rest -> ~ In (hid h) (map hid (near ++ far)))
         /\ only_up up offered /\ no_host_twice offered /\ complete up (concat (plists (s_pol s))) offered.
  Proof.
    intros Hrun Hr Hta Hsh Hlk Hnd. cbn zeta.
    destruct (ta_reachable_offers c ls s outs up (map hostof reps) Hrun Hr) as [Hy [Hu [Hn [Hc _]]]].
    split.
    - cbn [step]. unfold pick_lookup. rewrite Hlk. cbn [option_map snd pick_ok]. rewrite Hsh, hosts_eqb_refl, Hta.
      cbn [ta_replicas]. reflexivity.
    - split; [exact Hy|].
      destruct (reachable_pol_inv c ls s outs Hrun) as [Hinv Hk].
      assert (Hcons : tiers_consistent (host_tier (c_kind c)) (plists (s_pol s))) by (rewrite <- Hk; eapply pol_inv_consistent; exact Hinv).
      destruct (spec_ta_order up (host_tier (c_kind c)) (max_tier (c_kind c)) (c_nlrf c) (map hostof reps) (plists (s_pol s))
                              (Z.to_nat (pctr (s_pol s) + 2)) Hcons)
        as [nearP [farP [rest [E [_ [_ [S1 [S2 [S3 S4]]]]]]]]].
      destruct S4 as [-> ->]; [rewrite map_hid_hostof; exact Hnd|].
      exists rest. repeat split; assumption.
  Qed.
End Compose.

(* ---- SimpleStrategy --------------------------------------------------------------------------------------
   In any reachable state of a token-aware policy (no shuffling), for any ring in token order and any token:
   the Pick that looks the token up in simpleStrategy.replicaMap's map creates the token-aware generator over
   Cassandra's natural endpoints (SimpleStrategy.calculateNaturalEndpoints, C10/Spec.v) in Cassandra's order,
   and that generator offers: the up ones of them in the nearest tier, in that order; then (with fallback)
   the up ones of farther tiers, nearer first; then every other up host by tier; nothing twice. *)
Lemma simple_cassandra_replicas_first (T : Type) (ltb : T -> T -> bool) (hostof : Z -> host) c ls s outs up n rf r t :
  (forall h, hid (hostof h) = h) -> C10.Proofs1.strict_total ltb -> C10.Proofs1.sorted_toks ltb r -> r <> [] ->
  run c (sys_init c) ls = Some (s, outs) -> ctr_in_range (s_pol s) -> c_ta c = true -> c_shuffle c = false ->
  let cassandra := C10.Spec.simple_natural_endpoints ltb rf r t in
  let rs := map hostof cassandra in
  let k := c_kind c in
  let near := ups up (in_tier (host_tier k) 0 rs) in
  let far := if c_nlrf c then concat (map (fun i => ups up (in_tier (host_tier k) i rs)) (seq 1 (max_tier k))) else [] in
  let offered := spec_ta up (host_tier k) (max_tier k) (c_nlrf c) rs (plists (s_pol s)) (Z.to_nat (pctr (s_pol s) + 2)) in
  step c s (LPick n (pick_lookup ltb hostof (C10.Model.simple_replica_map rf r) r t rs))
    = Some (mkSys (s_pol s) (s_up s) ((n, ITA (ta_pick k (c_nlrf c) rs)) :: s_iters s), None)
  /\ (exists st', yields (ta_step (c_nlrf c) up) (ta_pick k (c_nlrf c) rs, s_pol s) offered st'
                  /\ forall up', ta_step (c_nlrf c) up' st' = (Nil, st'))
  /\ exists rest, offered = near ++ far ++ rest
       /\ tier_sorted (host_tier k) far /\ tier_sorted (host_tier k) rest
       /\ (forall h, In h rest -> ~ In (hid h) (map hid (near ++ far)))
       /\ only_up up offered /\ no_host_twice offered /\ complete up (concat (plists (s_pol s))) offered.
Proof.
  intros Hid O Hs Hne Hrun Hr Hta Hsh. cbn zeta.
  destruct (C10.Props.C10_simple_eq_cassandra T ltb rf r t O Hs Hne) as [tok Hlk].
  assert (Hnd : NoDup (C10.Spec.simple_natural_endpoints ltb rf r t)).
  { rewrite C10.Proofs6.replicas_for_nth in Hlk.
    destruct (C10.Props.C10_simple_entries T rf r _ tok _ Hlk) as [H _]. exact H. }
  exact (compose_generic ltb hostof Hid c ls s outs up n _ r t tok _ Hrun Hr Hta Hsh Hlk Hnd).
Qed.

(* ---- NetworkTopologyStrategy ------------------------------------------------------------------------------
   The same with networkTopology.replicaMap's map m (which never panics: C10_nts_never_panics), whenever the
   map has an entry for the token (it has none only when no ring token lies in a data centre with replicas;
   Pick then walks the primary owner alone): the replicas are NetworkTopologyStrategy's natural endpoints. *)
Lemma nts_cassandra_replicas_first (T : Type) (ltb : T -> T -> bool) (hostof : Z -> host) (info : Z -> C10.Model.hinfo)
      (dcs : C10.Model.amap Z) (hosts : list Z) c ls s outs up n r m t tok reps :
  (forall h, hid (hostof h) = h) -> C10.Proofs1.strict_total ltb ->
  Forall (fun e => 0 <= snd e) dcs -> NoDup (map fst dcs) ->
  C10.Proofs1.sorted_toks ltb r -> (forall h, In h hosts <-> In h (map snd r)) ->
  C10.Model.nts_replica_map info dcs hosts r = C10.Model.Ok m ->
  C10.Model.replicas_for ltb m t = Some (tok, reps) ->
  run c (sys_init c) ls = Some (s, outs) -> ctr_in_range (s_pol s) -> c_ta c = true -> c_shuffle c = false ->
  let rs := map hostof reps in
  let k := c_kind c in
  let near := ups up (in_tier (host_tier k) 0 rs) in
  let far := if c_nlrf c then concat (map (fun i => ups up (in_tier (host_tier k) i rs)) (seq 1 (max_tier k))) else [] in
  let offered := spec_ta up (host_tier k) (max_tier k) (c_nlrf c) rs (plists (s_pol s)) (Z.to_nat (pctr (s_pol s) + 2)) in
  reps = C10.Spec.nts_natural_endpoints ltb (C10.Model.dc_of info) (C10.Model.rack_of info) dcs r t
  /\ step c s (LPick n (pick_lookup ltb hostof m r t rs))
    = Some (mkSys (s_pol s) (s_up s) ((n, ITA (ta_pick k (c_nlrf c) rs)) :: s_iters s), None)
  /\ (exists st', yields (ta_step (c_nlrf c) up) (ta_pick k (c_nlrf c) rs, s_pol s) offered st'
                  /\ forall up', ta_step (c_nlrf c) up' st' = (Nil, st'))
  /\ exists rest, offered = near ++ far ++ rest
       /\ tier_sorted (host_tier k) far /\ tier_sorted (host_tier k) rest
       /\ (forall h, In h rest -> ~ In (hid h) (map hid (near ++ far)))
       /\ only_up up offered /\ no_host_twice offered /\ complete up (concat (plists (s_pol s))) offered.
Proof.
  intros Hid O H1 H2 Hs Hh Hm Hlk Hrun Hr Hta Hsh. cbn zeta.
  pose proof (C10.Props.C10_nts_eq_cassandra T ltb info dcs hosts r m t O H1 H2 Hs Hh Hm) as Heq.
  rewrite Hlk in Heq. simpl in Heq.
  assert (Hnd : NoDup reps).
  { assert (Hin : In (tok, reps) m) by (rewrite C10.Proofs6.replicas_for_nth in Hlk; eapply nth_error_In; exact Hlk).
    assert (Hr' : forall x, In x r -> In (snd x) hosts) by (intros x Hx; apply Hh; apply in_map; exact Hx).
    destruct (C10.Props.C10_nts_entries T info dcs hosts r m (tok, reps) H1 H2 Hr' Hm Hin) as [H _]. exact H. }
  split; [exact Heq|].
  exact (compose_generic ltb hostof Hid c ls s outs up n m r t tok reps Hrun Hr Hta Hsh Hlk Hnd).
Qed.
