(* C11/Model.v -- executable model of the host selection policies of policies.go:
     cowHostList.add / remove                      (policies.go:62-116)
     roundRobinHostPolicy, dcAwareRR, rackAwareRR  (AddHost/RemoveHost/HostUp/HostDown/Pick, tier functions)
     roundRobbin                                   (policies.go:883-915, the layered generator)
     tokenAwareHostPolicy.Pick                     (the three-phase generator)
   and a labelled transition system over them (policy operations, host state changes, Pick, and
   single calls of the returned NextHost functions, interleaved in any order).
   Definitions only; proofs live in Proofs*.v.

   Conventions.  A host is a record: [hid] stands for the *HostInfo pointer (what the `used` map of the
   token-aware generator is keyed by), [haddr] for ConnectAddress() (what cowHostList compares),
   [hdc]/[hrack] for DataCenter()/Rack() (strings, coded as integers: only equality is used).
   Whether a host is up (HostInfo.IsUp: state == NodeUp) is not part of the record: it is read at
   every call through the oracle [up : Z -> bool] on [hid], supplied by the environment.
   Not modelled: the token ring / replica map computation (C09/C10: the replica list and the primary
   owner of the query's token are inputs of [ta_pick]), HostPoolHostPolicy (third-party hostpool). *)
From GocqlV Require Import Lib.Base.

(* NodeUp (host_source.go:53, `NodeUp nodeState = iota`).  Typed in here so that the files the correspondence
   shards load do not depend on the generated Gen/Consts.vo (which concurrent runs rebuild);
   Props.C11_node_up_is_source_constant proves it equal to the generated K.NodeUp on every run. *)
Definition node_up : Z := 0.

Record host := mkHost { hid : Z; haddr : Z; hdc : Z; hrack : Z }.

Definition host_eqb (a b : host) : bool :=
  (hid a =? hid b) && (haddr a =? haddr b) && (hdc a =? hdc b) && (hrack a =? hrack b).

(* ---- cowHostList ------------------------------------------------------------------------------ *)
(* HostInfo.Equal: h == host || h.ConnectAddress().Equal(host.ConnectAddress()) *)
Definition host_equal (a b : host) : bool := (hid a =? hid b) || (haddr a =? haddr b).

(* add: walk the list, return false at the first Equal entry, else append *)
Definition cow_add (h : host) (l : list host) : list host * bool :=
  if existsb (host_equal h) l then (l, false) else (l ++ [h], true).

(* remove(ip): keep the entries whose address differs; if none matched return false; else store
   newL[:size-1:size-1].  (With exactly one match - the only reachable case, see Proofs1.cow_remove_length -
   the reslice is the identity; with several matches Go would pad with nil entries, which the model
   does not represent.) *)
Definition cow_remove (ip : Z) (l : list host) : list host * bool :=
  if existsb (fun x => haddr x =? ip) l
  then (firstn (length l - 1) (filter (fun x => negb (haddr x =? ip)) l), true)
  else (l, false).

(* ---- the three round-robin based policies ---------------------------------------------------- *)
Inductive pkind :=
| PRR                          (* RoundRobinHostPolicy() *)
| PDC (local_dc : Z)           (* DCAwareRoundRobinPolicy(localDC) *)
| PRack (local_dc local_rack : Z)    (* RackAwareRoundRobinPolicy(localDC, localRack) *)
| PByDC (m : nat).                   (* a HostTierer with m+1 tiers built from the same parts (cowHostList per tier,
                                        roundRobbin over all of them): tier = min(data centre number, m); the code of
                                        roundRobbin and of tokenAwareHostPolicy.Pick is generic in the number of tiers *)

(* which list a host goes to: 0 for roundRobin; IsLocal ? local : remote for dcAwareRR; HostTier for rackAwareRR *)
Definition host_tier (k : pkind) (h : host) : nat :=
  match k with
  | PRR => 0
  | PDC d => if hdc h =? d then 0 else 1
  | PRack d r => if hdc h =? d then (if hrack h =? r then 0 else 1) else 2
  | PByDC m => Nat.min (Z.to_nat (hdc h)) m
  end.

Definition ntiers (k : pkind) : nat := match k with PRR => 1 | PDC _ => 2 | PRack _ _ => 3 | PByDC m => S m end.

Record policy := mkPolicy { pk : pkind; plists : list (list host); pctr : Z }.   (* pctr: lastUsedHostIdx, uint64 *)

Definition policy_init (k : pkind) : policy := mkPolicy k (repeat [] (ntiers k)) 0.

Definition pol_add (p : policy) (h : host) : policy :=
  let t := host_tier (pk p) h in
  mkPolicy (pk p) (upd (plists p) t (fst (cow_add h (nth t (plists p) [])))) (pctr p).

Definition pol_remove (p : policy) (h : host) : policy :=
  let t := host_tier (pk p) h in
  mkPolicy (pk p) (upd (plists p) t (fst (cow_remove (haddr h) (nth t (plists p) [])))) (pctr p).

Inductive op := OAdd (h : host) | ORemove (h : host) | OUp (h : host) | ODown (h : host).

(* HostUp = AddHost, HostDown = RemoveHost in all three policies (and the token-aware policy forwards
   all four to its fallback) *)
Definition pol_op (p : policy) (o : op) : policy :=
  match o with
  | OAdd h | OUp h => pol_add p h
  | ORemove h | ODown h => pol_remove p h
  end.

(* ---- roundRobbin(shift, layers...) ------------------------------------------------------------- *)
Inductive outcome := Offer (h : host) | Nil | Panic | OutOfFuel.

(* closure state: the layers from currentLayer on, and currentlyObserved *)
Record rr_iter := mkRR { ri_shift : Z; ri_layers : list (list host); ri_co : nat }.

Inductive scan_res := SFound (h : host) (co : nat) | SEnd | SPanic.

(* Go's % on int (truncated), after the int64 addition wrapped *)
Definition rr_index (shift : Z) (co : nat) (size : nat) : Z :=
  Z.rem (signed 64 (shift + Z.of_nat co)) (Z.of_nat size).

(* the inner loop; [rem] = currentLayerSize - currentlyObserved, so rem = 0 <-> the
   `currentlyObserved > currentLayerSize` exit after the increment *)
Fixpoint rr_scan (up : Z -> bool) (shift : Z) (layer : list host) (co rem : nat) : scan_res :=
  match rem with
  | O => SEnd
  | S rem' =>
      let co' := S co in
      let idx := rr_index shift co' (length layer) in
      if idx <? 0 then SPanic                                 (* index out of range [-n] *)
      else match nth_error layer (Z.to_nat idx) with
           | None => SPanic
           | Some h => if up (hid h) then SFound h co' else rr_scan up shift layer co' rem'
           end
  end.

(* the outer loop over layers *)
Fixpoint rr_layers (up : Z -> bool) (shift : Z) (layers : list (list host)) (co : nat)
  : outcome * (list (list host) * nat) :=
  match layers with
  | [] => (Nil, ([], 0%nat))                                    (* currentLayer == len(hosts) *)
  | l :: rest =>
      match rr_scan up shift l co (length l - co) with
      | SFound h co' => (Offer h, (l :: rest, co'))
      | SEnd => rr_layers up shift rest 0                       (* currentLayer++; currentlyObserved = 0 *)
      | SPanic => (Panic, (l :: rest, S co))
      end
  end.

Definition rr_next (up : Z -> bool) (it : rr_iter) : outcome * rr_iter :=
  let '(o, (ls, co)) := rr_layers up (ri_shift it) (ri_layers it) (ri_co it) in
  (o, mkRR (ri_shift it) ls co).

(* Pick of the three policies: nextStartOffset := atomic.AddUint64(&lastUsedHostIdx, 1);
   roundRobbin(int(nextStartOffset), lists...) *)
Definition rr_pick (p : policy) : rr_iter * policy :=
  let c := wrap 64 (pctr p + 1) in
  (mkRR (signed 64 c) (plists p) 0, mkPolicy (pk p) (plists p) c).

(* ---- tokenAwareHostPolicy.Pick ---------------------------------------------------------------- *)
(* (as repaired: the second loop walks every tier, both replica loops skip a replica already offered,
   and a ring without tokens makes Pick return the fallback's generator) *)
(* maxTier: MaxHostTier() of a HostTierer (rackAwareRR: 2), otherwise 1 *)
Definition max_tier (k : pkind) : nat := match k with PRack _ _ => 2 | PByDC m => m | _ => 1 end.

(* remote[i] = append(remote[i], h) *)
Definition app_at (remote : list (list host)) (i : nat) (h : host) : list (list host) :=
  upd remote i (nth i remote [] ++ [h]).

Definition zmem (x : Z) (l : list Z) : bool := existsb (Z.eqb x) l.

Inductive p1_res :=
| P1Found (h : host) (rest : list host) (remote : list (list host))
| P1Done (remote : list (list host)).

(* first loop: for i < len(replicas).  The tier of a replica is HostTier(h) for a HostTierer fallback,
   else IsLocal(h) ? 0 : 1 - both are [host_tier]. *)
Fixpoint ta_phase1 (k : pkind) (nlrf : bool) (up : Z -> bool) (used : list Z) (reps : list host)
                   (remote : list (list host)) : p1_res :=
  match reps with
  | [] => P1Done remote
  | h :: rest =>
      match host_tier k h with
      | O => if up (hid h) && negb (zmem (hid h) used) then P1Found h rest remote
             else ta_phase1 k nlrf up used rest remote
      | S t => ta_phase1 k nlrf up used rest (if nlrf then app_at remote t h else remote)
      end
  end.

Inductive p2_res := P2Found (h : host) (rem : list (list host)) | P2Done (rem : list (list host)).

(* second loop: for j < len(remote) { if k >= len(remote[j]) { j++; k = 0; continue }; h := remote[j][k]; k++; ... }
   The state (remote, j, k) is represented by rem = remote[j][k:] :: remote[j+1:] (rem = [] when
   j = len(remote)).  [p2_inner] walks the current tier; [next_tier] is the loop run on the tiers behind it. *)
Fixpoint p2_inner (up : Z -> bool) (used : list Z) (rest : list (list host)) (next_tier : p2_res)
                  (cur : list host) : p2_res :=
  match cur with
  | [] => next_tier                                                  (* k >= len(remote[j]): j++, k = 0 *)
  | h :: cur' => if up (hid h) && negb (zmem (hid h) used) then P2Found h (cur' :: rest)
                 else p2_inner up used rest next_tier cur'
  end.

Fixpoint ta_phase2 (up : Z -> bool) (used : list Z) (rem : list (list host)) : p2_res :=
  match rem with
  | [] => P2Done []
  | cur :: rest => p2_inner up used rest (ta_phase2 up used rest) cur
  end.

(* third loop: for fallbackHost := fallbackIter(); fallbackHost != nil; ... { if !used[...] {...} } *)
Fixpoint ta_phase3 (up : Z -> bool) (used : list Z) (fb : rr_iter) (fuel : nat) : outcome * rr_iter * list Z :=
  match fuel with
  | O => (OutOfFuel, fb, used)
  | S f =>
      match rr_next up fb with
      | (Offer h, fb') => if zmem (hid h) used then ta_phase3 up used fb' f else (Offer h, fb', hid h :: used)
      | (o, fb') => (o, fb', used)
      end
  end.

Definition rr_size (it : rr_iter) : nat := length (concat (ri_layers it)).

(* closure state of the token-aware generator: replicas[i:], remote (phase 1) / the phase-2 remainder,
   the `used` set (keys: host pointers), the lazily created fallback generator *)
Record ta_iter := mkTA { ti_reps : list host; ti_remote : list (list host);
                         ti_used : list Z; ti_fb : option rr_iter }.

(* one call of the returned function; the fallback policy is read (and its counter advanced) only
   when the fallback generator is created *)
Definition ta_next (nlrf : bool) (up : Z -> bool) (p : policy) (it : ta_iter) : outcome * ta_iter * policy :=
  match ta_phase1 (pk p) nlrf up (ti_used it) (ti_reps it) (ti_remote it) with
  | P1Found h rest remote => (Offer h, mkTA rest remote (hid h :: ti_used it) (ti_fb it), p)
  | P1Done remote =>
      match (if nlrf then ta_phase2 up (ti_used it) remote else P2Done remote) with
      | P2Found h rem => (Offer h, mkTA [] rem (hid h :: ti_used it) (ti_fb it), p)
      | P2Done rem =>
          let '(fb, p') := match ti_fb it with Some fb => (fb, p) | None => rr_pick p end in
          let '(o, fb', used') := ta_phase3 up (ti_used it) fb (S (rr_size fb)) in
          (o, mkTA [] rem used' (Some fb'), p')
      end
  end.

(* what Pick found for the query *)
Inductive qinfo :=
| QFallback                                   (* qry == nil, no routing key, no metadata / no token ring *)
| QKey (ht : option (list host))              (* replicasFor(token) of the keyspace's replica map, None = nil *)
       (primary : option host)                (* tokenRing.GetHostForToken(token), None = nil (ring without tokens) *)
       (order : list host).                   (* the order of ht after shuffleHosts (= ht without ShuffleReplicas) *)

(* the replica list the generator walks; None: no routing information, Pick returns the fallback's generator *)
Definition ta_replicas (ht : option (list host)) (primary : option host) (order : list host) : option (list host) :=
  match ht, primary with
  | Some _, _ => Some order
  | None, Some h => Some [h]
  | None, None => None
  end.

Definition ta_pick (k : pkind) (nlrf : bool) (reps : list host) : ta_iter :=
  mkTA reps (if nlrf then repeat [] (max_tier k) else []) [] None.

(* ---- the system: one policy, host states, any number of live generators ---------------------- *)
Record cfg := mkCfg { c_kind : pkind; c_ta : bool; c_shuffle : bool; c_nlrf : bool }.

Inductive iter := IRR (r : rr_iter) | ITA (t : ta_iter).

Record sys := mkSys { s_pol : policy; s_up : Z -> bool; s_iters : list (nat * iter) }.

Definition sys_init (c : cfg) : sys := mkSys (policy_init (c_kind c)) (fun _ => false) [].

Inductive label :=
| LOp (o : op)                        (* AddHost / RemoveHost / HostUp / HostDown *)
| LSetState (id : Z) (st : Z)         (* HostInfo.setState *)
| LSetCtr (v : Z)                     (* test shim only: overwrite lastUsedHostIdx *)
| LPick (it : nat) (q : qinfo)        (* Pick(qry): creates generator [it] *)
| LNext (it : nat).                   (* one call of generator [it] *)

Fixpoint find_iter (n : nat) (l : list (nat * iter)) : option iter :=
  match l with
  | [] => None
  | (m, i) :: l' => if (n =? m)%nat then Some i else find_iter n l'
  end.

Fixpoint count_id (x : Z) (l : list host) : nat :=
  match l with [] => 0 | h :: l' => (if hid h =? x then 1 else 0) + count_id x l' end.

Definition hosts_eqb (a b : list host) : bool :=
  (length a =? length b)%nat && forallb (fun p => host_eqb (fst p) (snd p)) (combine a b).

(* [order] is a rearrangement of [hs]: same length, every record of [order] occurs in [hs], and every
   pointer occurs equally often *)
Definition is_perm (order hs : list host) : bool :=
  (length order =? length hs)%nat
  && forallb (fun h => existsb (host_eqb h) hs) order
  && forallb (fun h => (count_id (hid h) order =? count_id (hid h) hs)%nat) hs.

Definition pick_ok (c : cfg) (q : qinfo) : bool :=
  match q with
  | QFallback => true
  | QKey None _ _ => true
  | QKey (Some hs) _ order => if c_shuffle c then is_perm order hs else hosts_eqb order hs
  end.

Definition set_up (up : Z -> bool) (id : Z) (b : bool) : Z -> bool := fun x => if x =? id then b else up x.

(* None: the label is not enabled (unknown generator, ill-formed replica order) *)
Definition step (c : cfg) (s : sys) (l : label) : option (sys * option outcome) :=
  match l with
  | LOp o => Some (mkSys (pol_op (s_pol s) o) (s_up s) (s_iters s), None)
  | LSetState id st => Some (mkSys (s_pol s) (set_up (s_up s) id (st =? node_up)) (s_iters s), None)
  | LSetCtr v => Some (mkSys (mkPolicy (pk (s_pol s)) (plists (s_pol s)) (wrap 64 v)) (s_up s) (s_iters s), None)
  | LPick n q =>
      if pick_ok c q then
        match q, c_ta c with
        | QKey ht primary order, true =>
            match ta_replicas ht primary order with
            | Some reps =>
                Some (mkSys (s_pol s) (s_up s) ((n, ITA (ta_pick (c_kind c) (c_nlrf c) reps)) :: s_iters s), None)
            | None =>
                let '(r, p') := rr_pick (s_pol s) in
                Some (mkSys p' (s_up s) ((n, IRR r) :: s_iters s), None)
            end
        | _, _ =>
            let '(r, p') := rr_pick (s_pol s) in
            Some (mkSys p' (s_up s) ((n, IRR r) :: s_iters s), None)
        end
      else None
  | LNext n =>
      match find_iter n (s_iters s) with
      | None => None
      | Some (IRR r) =>
          let '(o, r') := rr_next (s_up s) r in
          Some (mkSys (s_pol s) (s_up s) ((n, IRR r') :: s_iters s), Some o)
      | Some (ITA t) =>
          let '(o, t', p') := ta_next (c_nlrf c) (s_up s) (s_pol s) t in
          Some (mkSys p' (s_up s) ((n, ITA t') :: s_iters s), Some o)
      end
  end.

(* run a label list, collecting the outputs of the LNext labels (with their generator) *)
Fixpoint run (c : cfg) (s : sys) (ls : list label) : option (sys * list (nat * outcome)) :=
  match ls with
  | [] => Some (s, [])
  | l :: ls' =>
      match step c s l with
      | None => None
      | Some (s', o) =>
          match run c s' ls' with
          | None => None
          | Some (s'', outs) =>
              Some (s'', match l, o with LNext n, Some x => (n, x) :: outs | _, _ => outs end)
          end
      end
  end.
