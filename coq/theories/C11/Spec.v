(* C11/Spec.v -- what the property demands of the sequence of hosts a selection policy offers for one
   query, written from the property statement and the documentation of the policies
   (RoundRobinHostPolicy: "each host is tried sequentially for each query"; DCAwareRoundRobinPolicy:
   "prioritize and return hosts which are in the local datacentre before returning hosts in all other
   datercentres"; RackAwareRoundRobinPolicy: "hosts which are in the local rack, before hosts in the
   local datacenter but a different rack, before hosts in all other datercentres";
   TokenAwareHostPolicy / NonLocalReplicasFallback: "first select replicas by partition key in local DC,
   then replicas by partition key in remote DCs and fall back to other nodes in local DC";
   ShuffleReplicas) -- not from the generator code.

   The only thing shared with the model is the vocabulary: the [host] record, and the distance class
   of a host [tier : host -> nat] passed as a parameter. *)
From GocqlV Require Import Lib.Base C11.Model.

(* The sequence a generator offers: the hosts returned by successive calls up to the first nil.
   [yields next st hs st']: starting in state st, the calls return exactly the hosts hs, then nil,
   leaving the generator in st'.  (A finite list followed by nil: "the sequence is finite".) *)
Inductive yields {St : Type} (next : St -> outcome * St) : St -> list host -> St -> Prop :=
| yields_nil st st' : next st = (Nil, st') -> yields next st [] st'
| yields_cons st h st1 hs st' :
    next st = (Offer h, st1) -> yields next st1 hs st' -> yields next st (h :: hs) st'.

Section Spec.
  Variable up : Z -> bool.               (* which hosts are up (by identity) *)

  Definition ups (l : list host) : list host := filter (fun h => up (hid h)) l.

  (* rotate a list left by n (n taken modulo the length) *)
  Definition rotl {A} (n : nat) (l : list A) : list A :=
    skipn (n mod length l) l ++ firstn (n mod length l) l.

  (* --- the demands, one predicate each ------------------------------------------------------ *)
  Definition only_up (s : list host) : Prop := forall h, In h s -> up (hid h) = true.
  Definition no_host_twice (s : list host) : Prop := NoDup (map hid s).
  (* every known host that is up is offered (hosts are identified by [hid]) *)
  Definition complete (known s : list host) : Prop :=
    forall h, In h known -> up (hid h) = true -> In (hid h) (map hid s).
  (* nearer tiers come before farther ones *)
  Definition tier_sorted (tier : host -> nat) (s : list host) : Prop :=
    forall i j a b, (i < j)%nat -> nth_error s i = Some a -> nth_error s j = Some b -> (tier a <= tier b)%nat.

  (* --- the tiered list the round-robin based policies must offer ---------------------------- *)
  (* tiers: the known hosts, nearest tier first; start: the rotation of this pick *)
  Definition spec_rr (tiers : list (list host)) (start : nat) : list host :=
    concat (map (fun l => ups (rotl start l)) tiers).

  (* --- the list a token-aware policy must offer ----------------------------------------------- *)
  Definition in_tier (tier : host -> nat) (t : nat) (l : list host) : list host :=
    filter (fun h => (tier h =? t)%nat) l.

  Definition hmem (h : host) (l : list host) : bool := existsb (fun x => hid x =? hid h) l.

  (* keep only the first occurrence of every host (hosts already in [seen] count as occurred) *)
  Fixpoint first_occurrences (seen : list Z) (l : list host) : list host :=
    match l with
    | [] => []
    | h :: t => if existsb (Z.eqb (hid h)) seen then first_occurrences seen t
                else h :: first_occurrences (hid h :: seen) t
    end.

  (* replicas: the replicas of the query's token in the order they are to be tried (primary first, or
     shuffled); maxt: the farthest tier; nlrf: NonLocalReplicasFallback.
     The up replicas of the nearest tier, then (with fallback) the up replicas of the farther tiers,
     nearest first, then every up host by tier, rotated - each host where it occurs first. *)
  Definition spec_ta (tier : host -> nat) (maxt : nat) (nlrf : bool) (replicas : list host)
                     (tiers : list (list host)) (start : nat) : list host :=
    let near := ups (in_tier tier 0 replicas) in
    let far := if nlrf then concat (map (fun t => ups (in_tier tier t replicas)) (seq 1 maxt)) else [] in
    first_occurrences [] (near ++ far ++ spec_rr tiers start).
End Spec.
