(* C11/Proofs1.v -- list facts (rotation, update), the copy-on-write list invariant, and the invariant
   of the three round-robin based policies over any history of AddHost/RemoveHost/HostUp/HostDown. *)
From Coq Require Import Permutation.
From GocqlV Require Import Lib.Base C11.Model C11.Spec.

(* ---- generic list facts ------------------------------------------------------------------------- *)
Lemma nth_error_upd_eq {A} (l : list A) i v : (i < length l)%nat -> nth_error (upd l i v) i = Some v.
Proof. revert i; induction l as [|x l IH]; intros [|i] H; simpl in *; try lia; auto. apply IH; lia. Qed.

Lemma nth_error_upd_neq {A} (l : list A) i j v : i <> j -> nth_error (upd l i v) j = nth_error l j.
Proof.
  revert i j; induction l as [|x l IH]; intros [|i] [|j] H; simpl; auto; try congruence.
Qed.

Lemma nth_nth_error {A} (l : list A) i d x : nth_error l i = Some x -> nth i l d = x.
Proof. revert i; induction l as [|y l IH]; intros [|i] H; simpl in *; try discriminate; [congruence | auto]. Qed.

Lemma nth_error_nth' {A} (l : list A) i d : (i < length l)%nat -> nth_error l i = Some (nth i l d).
Proof. revert i; induction l as [|y l IH]; intros [|i] H; simpl in *; try lia; auto. apply IH; lia. Qed.

Lemma In_upd {A} (l : list A) i v x : In x (upd l i v) -> x = v \/ In x l.
Proof.
  revert i; induction l as [|y l IH]; intros [|i] H; simpl in *; try tauto.
  - destruct H as [H|H]; auto.
  - destruct H as [H|H]; auto. destruct (IH _ H) as [H'|H']; auto.
Qed.

Lemma skipn_nth_error {A} (l : list A) n x : nth_error l n = Some x -> skipn n l = x :: skipn (S n) l.
Proof. revert n; induction l as [|y l IH]; intros [|n] H; simpl in *; try discriminate; [congruence | auto]. Qed.

Lemma nth_error_skipn' {A} n (l : list A) i : nth_error (skipn n l) i = nth_error l (n + i).
Proof. revert l; induction n as [|n IH]; intros [|x l]; simpl; auto. destruct i; reflexivity. Qed.

Lemma nth_error_firstn' {A} n (l : list A) i : (i < n)%nat -> nth_error (firstn n l) i = nth_error l i.
Proof.
  revert l i; induction n as [|n IH]; intros [|x l] [|i] H; simpl; auto; try lia. apply IH; lia.
Qed.

Lemma NoDup_app_intro' {A} (a b : list A) :
  NoDup a -> NoDup b -> (forall x, In x a -> In x b -> False) -> NoDup (a ++ b).
Proof.
  induction a as [|x a IH]; simpl; intros Ha Hb Hd; [assumption|].
  inversion Ha; subst. constructor.
  - rewrite in_app_iff. intros [H|H]; [tauto | eapply Hd; eauto].
  - apply IH; auto. intros y Hy1 Hy2. eapply Hd; eauto.
Qed.

(* ---- rotation ----------------------------------------------------------------------------------- *)
Definition rot_at {A} (r : nat) (l : list A) : list A := skipn r l ++ firstn r l.

Lemma rot_at_length {A} r (l : list A) : length (rot_at r l) = length l.
Proof.
  unfold rot_at. rewrite app_length, skipn_length, firstn_length. lia.
Qed.

Lemma rot_at_perm {A} r (l : list A) : Permutation (rot_at r l) l.
Proof.
  unfold rot_at. rewrite Permutation_app_comm. rewrite firstn_skipn. reflexivity.
Qed.

Lemma nth_error_rot_at {A} (l : list A) r i :
  (r < length l)%nat -> (i < length l)%nat ->
  nth_error (rot_at r l) i = nth_error l ((r + i) mod length l).
Proof.
  intros Hr Hi. unfold rot_at.
  destruct (Nat.lt_ge_cases i (length l - r)) as [Hlt|Hge].
  - rewrite nth_error_app1 by (rewrite skipn_length; lia).
    rewrite nth_error_skipn'. rewrite Nat.mod_small by lia. reflexivity.
  - rewrite nth_error_app2 by (rewrite skipn_length; lia).
    rewrite skipn_length.
    replace ((r + i) mod length l)%nat with (i - (length l - r))%nat.
    + apply nth_error_firstn'. lia.
    + assert (E : (r + i = (i - (length l - r)) + 1 * length l)%nat) by lia.
      rewrite E. rewrite Nat.mod_add by lia. rewrite Nat.mod_small by lia. reflexivity.
Qed.

Lemma rotl_rot_at {A} n (l : list A) : rotl n l = rot_at (n mod length l) l.
Proof. reflexivity. Qed.

Lemma rotl_perm {A} n (l : list A) : Permutation (rotl n l) l.
Proof. apply rot_at_perm. Qed.

Lemma rotl_length {A} n (l : list A) : length (rotl n l) = length l.
Proof. apply rot_at_length. Qed.

Lemma In_rotl {A} n (l : list A) x : In x (rotl n l) <-> In x l.
Proof. split; apply Permutation_in; [apply rotl_perm | symmetry; apply rotl_perm]. Qed.

Lemma rotl_nil {A} n : rotl n (@nil A) = [].
Proof. unfold rotl. simpl. rewrite skipn_nil, firstn_nil. reflexivity. Qed.

(* ---- copy-on-write list ------------------------------------------------------------------------- *)
Definition cow_inv (l : list host) : Prop := NoDup (map haddr l) /\ NoDup (map hid l).

Lemma existsb_host_equal_false h l :
  existsb (host_equal h) l = false -> ~ In (hid h) (map hid l) /\ ~ In (haddr h) (map haddr l).
Proof.
  induction l as [|x l IH]; simpl; intros H; [tauto|].
  apply orb_false_iff in H. destruct H as [H1 H2]. unfold host_equal in H1.
  apply orb_false_iff in H1. destruct H1 as [Hi Ha]. apply IH in H2. destruct H2 as [H2 H3].
  split; intros [E|E]; try tauto; lia.
Qed.

Lemma NoDup_app_single {A} (l : list A) x : NoDup l -> ~ In x l -> NoDup (l ++ [x]).
Proof.
  intros Hn Hx. apply NoDup_rev in Hn. rewrite <- (rev_involutive (l ++ [x])).
  apply NoDup_rev. rewrite rev_app_distr. simpl. constructor; [rewrite <- in_rev; exact Hx | exact Hn].
Qed.

Lemma cow_add_inv h l : cow_inv l -> cow_inv (fst (cow_add h l)).
Proof.
  intros [Ha Hi]. unfold cow_add. destruct (existsb (host_equal h) l) eqn:E; simpl; [split; assumption|].
  apply existsb_host_equal_false in E. destruct E as [E1 E2].
  split; rewrite map_app; simpl; apply NoDup_app_single; assumption.
Qed.

Lemma NoDup_map_filter {A B} (f : A -> B) p (l : list A) : NoDup (map f l) -> NoDup (map f (filter p l)).
Proof.
  induction l as [|x l IH]; simpl; intros H; [constructor|]. inversion H as [|? ? Hx Hn]; subst.
  destruct (p x); simpl; auto. constructor; auto.
  intros Hin. apply Hx. apply in_map_iff in Hin. destruct Hin as [y [E Hy]]. apply filter_In in Hy.
  apply in_map_iff. exists y; tauto.
Qed.

Lemma NoDup_map_firstn {A B} (f : A -> B) n (l : list A) : NoDup (map f l) -> NoDup (map f (firstn n l)).
Proof.
  revert n; induction l as [|x l IH]; intros [|n] H; simpl; try constructor.
  - inversion H; subst. intros Hin. apply in_map_iff in Hin. destruct Hin as [y [E Hy]].
    apply In_firstn in Hy. match goal with Hx : ~ In _ _ |- _ => apply Hx end. apply in_map_iff. exists y; tauto.
  - inversion H; subst. apply IH; assumption.
Qed.

Lemma cow_remove_inv ip l : cow_inv l -> cow_inv (fst (cow_remove ip l)).
Proof.
  intros [Ha Hi]. unfold cow_remove. destruct (existsb _ l); simpl; [|split; assumption].
  split; apply NoDup_map_firstn; apply NoDup_map_filter; assumption.
Qed.

(* with unique addresses, exactly one entry matches, so the reslice newL[:size-1:size-1] is the identity *)
Lemma filter_addr_length ip l :
  NoDup (map haddr l) -> In ip (map haddr l) ->
  length (filter (fun x => negb (haddr x =? ip)) l) = (length l - 1)%nat.
Proof.
  induction l as [|x l IH]; simpl; intros Hn Hin; [tauto|]. inversion Hn as [|? ? Hx Hn']; subst.
  destruct (Z.eqb_spec (haddr x) ip) as [E|E]; simpl.
  - subst. rewrite Nat.sub_0_r.
    assert (F : filter (fun x0 => negb (haddr x0 =? haddr x)) l = l).
    { clear IH Hn Hin Hn'. induction l as [|y l IH]; simpl; auto. simpl in Hx.
      destruct (Z.eqb_spec (haddr y) (haddr x)); [exfalso; apply Hx; left; assumption|].
      simpl. f_equal. apply IH. tauto. }
    rewrite F. reflexivity.
  - destruct Hin as [Hin|Hin]; [congruence|]. rewrite IH by assumption.
    destruct l; simpl in *; [tauto | lia].
Qed.

Lemma existsb_addr ip l : existsb (fun x => haddr x =? ip) l = true <-> In ip (map haddr l).
Proof.
  rewrite existsb_exists, in_map_iff. split; intros [x [H1 H2]]; exists x.
  - split; [lia | assumption].
  - split; [tauto | lia].
Qed.

Lemma cow_remove_reslice_identity ip l :
  NoDup (map haddr l) ->
  fst (cow_remove ip l) = filter (fun x => negb (haddr x =? ip)) l.
Proof.
  intros Hn. unfold cow_remove. destruct (existsb _ l) eqn:E; simpl.
  - apply existsb_addr in E. rewrite <- (filter_addr_length ip l Hn E). apply firstn_all.
  - symmetry. clear Hn. induction l as [|x l IH]; simpl in *; auto.
    apply orb_false_iff in E. destruct E as [E1 E2]. rewrite E1. simpl. f_equal. apply IH. assumption.
Qed.

Lemma In_cow_add x h l : In x (fst (cow_add h l)) -> x = h \/ In x l.
Proof.
  unfold cow_add. destruct (existsb _ l); simpl; auto. rewrite in_app_iff. simpl. intuition.
Qed.

Lemma In_cow_remove x ip l : In x (fst (cow_remove ip l)) -> In x l.
Proof.
  unfold cow_remove. destruct (existsb _ l); simpl; auto. intros H. apply In_firstn in H.
  apply filter_In in H. tauto.
Qed.

(* what the operations are for: after add the host (or one Equal to it) is in the list; after remove
   no host with that address is *)
Lemma cow_add_present h l : existsb (host_equal h) (fst (cow_add h l)) = true.
Proof.
  unfold cow_add. destruct (existsb (host_equal h) l) eqn:E; simpl; [assumption|].
  rewrite existsb_app. simpl. unfold host_equal at 2. rewrite Z.eqb_refl. simpl. apply orb_true_r.
Qed.

Lemma cow_add_keeps x h l : In x l -> In x (fst (cow_add h l)).
Proof. unfold cow_add. destruct (existsb _ l); simpl; auto. intros; apply in_or_app; auto. Qed.

Lemma cow_remove_absent ip l : NoDup (map haddr l) -> ~ In ip (map haddr (fst (cow_remove ip l))).
Proof.
  intros Hn. rewrite cow_remove_reslice_identity by assumption. intros H.
  apply in_map_iff in H. destruct H as [x [E Hx]]. apply filter_In in Hx. destruct Hx as [_ Hx]. lia.
Qed.

Lemma cow_remove_keeps x ip l : NoDup (map haddr l) -> In x l -> haddr x <> ip -> In x (fst (cow_remove ip l)).
Proof.
  intros Hn Hx Hne. rewrite cow_remove_reslice_identity by assumption. apply filter_In. split; [assumption|lia].
Qed.

(* ---- the policies --------------------------------------------------------------------------------- *)
Lemma host_tier_lt k h : (host_tier k h < ntiers k)%nat.
Proof. destruct k; simpl; repeat match goal with |- context [if ?b then _ else _] => destruct b end; lia. Qed.

(* U: the host records the history mentions *)
Definition pol_inv (U : list host) (p : policy) : Prop :=
  length (plists p) = ntiers (pk p) /\
  forall t l, nth_error (plists p) t = Some l ->
    cow_inv l /\ (forall h, In h l -> host_tier (pk p) h = t /\ In h U).

Lemma pol_inv_init U k : pol_inv U (policy_init k).
Proof.
  split; [simpl; apply repeat_length|]. intros t l H. simpl in H.
  assert (l = []). { apply nth_error_In in H. apply repeat_spec in H. assumption. }
  subst. split; [split; constructor | intros h []].
Qed.

Lemma pol_upd_inv U p t l' :
  pol_inv U p -> (t < ntiers (pk p))%nat ->
  cow_inv l' -> (forall h, In h l' -> host_tier (pk p) h = t /\ In h U) ->
  pol_inv U (mkPolicy (pk p) (upd (plists p) t l') (pctr p)).
Proof.
  intros [Hlen Hall] Ht Hc Hin. split; simpl; [rewrite upd_length; assumption|].
  intros t' l Hn. destruct (Nat.eq_dec t t') as [->|Hne].
  - rewrite nth_error_upd_eq in Hn by lia. inversion Hn; subst. auto.
  - rewrite nth_error_upd_neq in Hn by assumption. apply Hall. assumption.
Qed.

Lemma pol_lists_nth U p t : pol_inv U p -> (t < ntiers (pk p))%nat ->
  nth_error (plists p) t = Some (nth t (plists p) []).
Proof. intros [Hlen _] Ht. apply nth_error_nth'. lia. Qed.

Definition op_host (o : op) : host := match o with OAdd h | ORemove h | OUp h | ODown h => h end.

Lemma pol_op_inv U p o : pol_inv U p -> In (op_host o) U -> pol_inv U (pol_op p o).
Proof.
  intros Hp HU. pose proof Hp as [Hlen Hall].
  assert (Hadd : forall h, In h U -> pol_inv U (pol_add p h)).
  { intros h Hh. unfold pol_add. pose proof (host_tier_lt (pk p) h) as Ht.
    pose proof (pol_lists_nth U p _ Hp Ht) as Hn. destruct (Hall _ _ Hn) as [Hc Hin].
    apply pol_upd_inv; auto; [apply cow_add_inv; assumption|].
    intros x Hx. apply In_cow_add in Hx. destruct Hx as [->|Hx]; auto. }
  assert (Hrem : forall h, pol_inv U (pol_remove p h)).
  { intros h. unfold pol_remove. pose proof (host_tier_lt (pk p) h) as Ht.
    pose proof (pol_lists_nth U p _ Hp Ht) as Hn. destruct (Hall _ _ Hn) as [Hc Hin].
    apply pol_upd_inv; auto; [apply cow_remove_inv; assumption|].
    intros x Hx. apply In_cow_remove in Hx. auto. }
  destruct o; simpl in *; auto.
Qed.

Lemma pol_ops_inv U p os : pol_inv U p -> (forall o, In o os -> In (op_host o) U) ->
  pol_inv U (fold_left pol_op os p).
Proof.
  revert p; induction os as [|o os IH]; intros p Hp HU; simpl; [assumption|].
  apply IH; [apply pol_op_inv; [assumption | apply HU; left; reflexivity] | intros o' Ho'; apply HU; right; assumption].
Qed.

(* one record per host pointer *)
Definition id_functional (U : list host) : Prop :=
  forall a b, In a U -> In b U -> hid a = hid b -> a = b.

Lemma In_concat_nth {A} (ls : list (list A)) x :
  In x (concat ls) -> exists t l, nth_error ls t = Some l /\ In x l.
Proof.
  intros H. apply in_concat in H. destruct H as [l [Hl Hx]]. apply In_nth_error in Hl.
  destruct Hl as [t Ht]. eauto.
Qed.

Lemma NoDup_concat_tiers {A B} (f : A -> B) (ls : list (list A)) :
  (forall t l, nth_error ls t = Some l -> NoDup (map f l)) ->
  (forall t t' l l' x y, nth_error ls t = Some l -> nth_error ls t' = Some l' -> In x l -> In y l' -> f x = f y -> t = t') ->
  NoDup (map f (concat ls)).
Proof.
  induction ls as [|l ls IH]; intros Hn Hd; simpl; [constructor|].
  rewrite map_app. apply NoDup_app_intro'.
  - apply (Hn 0%nat). reflexivity.
  - apply IH.
    + intros t l' H. apply (Hn (S t)). assumption.
    + intros t t' l1 l2 x y H1 H2 Hx Hy E. assert (S t = S t'); [|lia].
      eapply (Hd (S t) (S t')); eauto.
  - intros b Hb1 Hb2. apply in_map_iff in Hb1. destruct Hb1 as [x [Ex Hx]].
    apply in_map_iff in Hb2. destruct Hb2 as [y [Ey Hy]].
    apply In_concat_nth in Hy. destruct Hy as [t [l' [Ht Hy]]].
    assert (0 = S t)%nat; [|lia]. eapply (Hd 0%nat (S t) l l' x y); eauto. congruence.
Qed.

(* over any history: every tier list is duplicate free, hosts sit in the tier their data centre and rack
   say, and - when every pointer has one record - no host is in two tiers *)
Lemma pol_inv_nodup U p : pol_inv U p -> id_functional U -> NoDup (map hid (concat (plists p))).
Proof.
  intros [_ Hall] HU. apply NoDup_concat_tiers.
  - intros t l H. apply Hall in H. destruct H as [[_ H] _]. assumption.
  - intros t t' l l' x y H1 H2 Hx Hy E. destruct (Hall _ _ H1) as [_ A]. destruct (Hall _ _ H2) as [_ B].
    destruct (A _ Hx) as [A1 A2]. destruct (B _ Hy) as [B1 B2].
    assert (x = y) by (apply HU; assumption). subst. congruence.
Qed.

(* the list as a set: add inserts unless an Equal host is present; remove deletes by address *)
Lemma cow_set_semantics l : NoDup (map haddr l) -> forall h ip x,
  (In x (fst (cow_add h l)) <-> In x l \/ (x = h /\ existsb (host_equal h) l = false)) /\
  (In x (fst (cow_remove ip l)) <-> In x l /\ haddr x <> ip).
Proof.
  intros Hn h ip x. split.
  - unfold cow_add. destruct (existsb (host_equal h) l) eqn:E; simpl.
    + split; [auto | intros [H|[_ H]]; [assumption | discriminate]].
    + rewrite in_app_iff. simpl. split; [intros [H|[H|[]]]; auto | intros [H|[H _]]; auto].
  - rewrite cow_remove_reslice_identity by assumption. rewrite filter_In. split; intros [H1 H2]; split; auto; lia.
Qed.
