(* C11/Proofs6.v -- the tier-list invariant carried through the transition system, and the composed
   statements: what a Pick made in any reachable state offers. *)
From Coq Require Import Permutation.
From GocqlV Require Import Lib.Base C11.Model C11.Spec C11.Proofs1 C11.Proofs2 C11.Proofs3 C11.Proofs4 C11.Proofs5.

(* the host records a history mentions *)
Fixpoint hosts_of (ls : list label) : list host :=
  match ls with
  | [] => []
  | LOp o :: ls' => op_host o :: hosts_of ls'
  | _ :: ls' => hosts_of ls'
  end.

Lemma rr_pick_lists p : pk (snd (rr_pick p)) = pk p /\ plists (snd (rr_pick p)) = plists p.
Proof. unfold rr_pick. simpl. auto. Qed.

Lemma ta_next_lists nlrf up p it : 
  pk (snd (ta_next nlrf up p it)) = pk p /\ plists (snd (ta_next nlrf up p it)) = plists p.
Proof.
  unfold ta_next. destruct (ta_phase1 (pk p) nlrf up (ti_used it) (ti_reps it) (ti_remote it)) as [x rest remote|remote];
    [simpl; auto|].
  destruct (if nlrf then ta_phase2 up (ti_used it) remote else P2Done remote) as [x rem|rem]; [simpl; auto|].
  destruct (ti_fb it) as [fb|].
  - destruct (ta_phase3 up (ti_used it) fb (S (rr_size fb))) as [[o fb'] used']. simpl. auto.
  - pose proof (rr_pick_lists p) as H. destruct (rr_pick p) as [fb q]. simpl in H.
    destruct (ta_phase3 up (ti_used it) fb (S (rr_size fb))) as [[o fb'] used']. simpl. exact H.
Qed.

Lemma pol_inv_same_lists U p q : pk q = pk p -> plists q = plists p -> pol_inv U p -> pol_inv U q.
Proof. unfold pol_inv. intros -> ->. auto. Qed.

Lemma step_pol_inv U c s l s' o : pol_inv U (s_pol s) ->
  (forall x, l = LOp x -> In (op_host x) U) -> step c s l = Some (s', o) -> pol_inv U (s_pol s').
Proof.
  intros Hp HU. destruct l as [o'|id st|v|n q|n]; cbn [step].
  - intros H. inversion H; subst. cbn [s_pol]. apply pol_op_inv; auto.
  - intros H. inversion H; subst. exact Hp.
  - intros H. inversion H; subst. cbn [s_pol]. eapply pol_inv_same_lists; [| |exact Hp]; reflexivity.
  - destruct (pick_ok c q); [|discriminate].
    assert (Hrr : forall s1 o1, (let '(r, p') := rr_pick (s_pol s) in
                                 Some (mkSys p' (s_up s) ((n, IRR r) :: s_iters s), @None outcome)) = Some (s1, o1) ->
                  pol_inv U (s_pol s1)).
    { intros s1 o1. pose proof (rr_pick_lists (s_pol s)) as [H1 H2]. destruct (rr_pick (s_pol s)) as [r p'].
      intros H. inversion H; subst. cbn [s_pol]. eapply pol_inv_same_lists; eauto. }
    destruct q as [|ht primary order]; [apply Hrr|]. destruct (c_ta c); [|apply Hrr].
    destruct (ta_replicas ht primary order); [|apply Hrr].
    intros H. inversion H; subst. exact Hp.
  - destruct (find_iter n (s_iters s)) as [[r|t]|]; [| |discriminate].
    + destruct (rr_next (s_up s) r). intros H. inversion H; subst. exact Hp.
    + pose proof (ta_next_lists (c_nlrf c) (s_up s) (s_pol s) t) as [H1 H2].
      destruct (ta_next (c_nlrf c) (s_up s) (s_pol s) t) as [[o1 t'] p']. simpl in H1, H2.
      intros H. inversion H; subst. cbn [s_pol]. eapply pol_inv_same_lists; eauto.
Qed.

Lemma run_pol_inv U c : forall ls s s' outs, pol_inv U (s_pol s) ->
  (forall h, In h (hosts_of ls) -> In h U) -> run c s ls = Some (s', outs) -> pol_inv U (s_pol s').
Proof.
  induction ls as [|l ls IH]; intros s s' outs Hp HU H.
  - simpl in H. inversion H; subst. exact Hp.
  - cbn [run] in H. destruct (step c s l) as [[s1 o1]|] eqn:E; [|discriminate].
    destruct (run c s1 ls) as [[s2 outs2]|] eqn:E2; [|discriminate]. inversion H; subst.
    eapply IH; [| |exact E2].
    + eapply step_pol_inv; [exact Hp| |exact E]. intros x ->. apply HU. simpl. left. reflexivity.
    + intros h Hh. apply HU. destruct l; simpl; auto.
Qed.

Lemma run_kind c : forall ls s s' outs, run c s ls = Some (s', outs) -> pk (s_pol s') = pk (s_pol s).
Proof.
  induction ls as [|l ls IH]; intros s s' outs H.
  - simpl in H. inversion H; subst. reflexivity.
  - cbn [run] in H. destruct (step c s l) as [[s1 o1]|] eqn:E; [|discriminate].
    destruct (run c s1 ls) as [[s2 outs2]|] eqn:E2; [|discriminate]. inversion H; subst.
    rewrite (IH _ _ _ E2). clear -E. destruct l as [o'|id st|v|n q|n]; cbn [step] in E.
    + inversion E; subst. cbn [s_pol]. apply pol_op_size.
    + inversion E; subst. reflexivity.
    + inversion E; subst. reflexivity.
    + destruct (pick_ok c q); [|discriminate].
      assert (Hrr : forall s1 o1, (let '(r, p') := rr_pick (s_pol s) in
                                   Some (mkSys p' (s_up s) ((n, IRR r) :: s_iters s), @None outcome)) = Some (s1, o1) ->
                    pk (s_pol s1) = pk (s_pol s)).
      { intros s2 o2. pose proof (rr_pick_lists (s_pol s)) as [H1 H2]. destruct (rr_pick (s_pol s)) as [r p'].
        intros H. inversion H; subst. exact H1. }
      destruct q as [|ht primary order]; [eapply Hrr; eauto|]. destruct (c_ta c); [|eapply Hrr; eauto].
      destruct (ta_replicas ht primary order); [|eapply Hrr; eauto].
      inversion E; subst. reflexivity.
    + destruct (find_iter n (s_iters s)) as [[r|t]|]; [| |discriminate].
      * destruct (rr_next (s_up s) r). inversion E; subst. reflexivity.
      * pose proof (ta_next_lists (c_nlrf c) (s_up s) (s_pol s) t) as [H1 H2].
        destruct (ta_next (c_nlrf c) (s_up s) (s_pol s) t) as [[o2 t'] p']. simpl in H1. inversion E; subst. exact H1.
Qed.

(* the policy state reached by any history from a fresh policy *)
Lemma reachable_pol_inv c ls s outs :
  run c (sys_init c) ls = Some (s, outs) ->
  pol_inv (hosts_of ls) (s_pol s) /\ pk (s_pol s) = c_kind c.
Proof.
  intros H. split.
  - apply (run_pol_inv (hosts_of ls) c ls (sys_init c) s outs); [apply pol_inv_init | auto | exact H].
  - rewrite (run_kind _ _ _ _ _ H). reflexivity.
Qed.

Lemma pol_inv_consistent U p : pol_inv U p -> tiers_consistent (host_tier (pk p)) (plists p).
Proof. intros [_ H] t l h Hl Hh. destruct (H _ _ Hl) as [_ H2]. apply H2. assumption. Qed.

(* ---- composed: a Pick of a round-robin based policy in any reachable state --------------------------- *)
Lemma rr_reachable_offers c ls s outs up :
  run c (sys_init c) ls = Some (s, outs) -> id_functional (hosts_of ls) -> ctr_in_range (s_pol s) ->
  let p := s_pol s in
  let offered := spec_rr up (plists p) (Z.to_nat (pctr p + 2)) in
  yields (rr_next up) (fst (rr_pick p)) offered (mkRR (pctr p + 1) [] 0)
  /\ (forall up', rr_next up' (mkRR (pctr p + 1) [] 0) = (Nil, mkRR (pctr p + 1) [] 0))
  /\ only_up up offered /\ no_host_twice offered /\ complete up (concat (plists p)) offered
  /\ tier_sorted (host_tier (c_kind c)) offered.
Proof.
  intros Hrun Hid Hr. destruct (reachable_pol_inv _ _ _ _ Hrun) as [Hinv Hk]. cbn zeta.
  split; [apply rr_sequence_lemma; assumption|]. split; [intros up'; reflexivity|].
  split; [apply spec_rr_only_up|]. split; [apply spec_rr_no_host_twice; eapply pol_inv_nodup; eauto|].
  split; [apply spec_rr_complete|]. rewrite <- Hk. apply spec_rr_tier_sorted. eapply pol_inv_consistent; eauto.
Qed.

(* ---- composed: a Pick of a token-aware policy in any reachable state --------------------------------- *)
Lemma ta_reachable_offers c ls s outs up rs :
  run c (sys_init c) ls = Some (s, outs) -> ctr_in_range (s_pol s) ->
  let p := s_pol s in
  let k := c_kind c in
  let offered := spec_ta up (host_tier k) (max_tier k) (c_nlrf c) rs (plists p) (Z.to_nat (pctr p + 2)) in
  (exists st', yields (ta_step (c_nlrf c) up) (ta_pick k (c_nlrf c) rs, p) offered st'
               /\ forall up', ta_step (c_nlrf c) up' st' = (Nil, st'))
  /\ only_up up offered
  /\ no_host_twice offered
  /\ complete up (concat (plists p)) offered
  /\ complete up (in_tier (host_tier k) 0 rs) offered
  /\ (c_nlrf c = true -> complete up rs offered).
Proof.
  intros Hrun Hr. destruct (reachable_pol_inv _ _ _ _ Hrun) as [Hinv Hk]. cbn zeta.
  split.
  - destruct (ta_sequence_lemma (c_nlrf c) up (s_pol s) rs Hr) as [used [Hy Hst]].
    rewrite ta_seq_spec in Hy. rewrite Hk in Hy, Hst. eexists. split; [exact Hy | exact Hst].
  - split; [apply spec_ta_only_up|]. split; [apply spec_ta_no_host_twice|].
    pose proof (spec_ta_complete up (host_tier (c_kind c)) (max_tier (c_kind c)) (c_nlrf c) rs (plists (s_pol s))
                                 (Z.to_nat (pctr (s_pol s) + 2))) as [C1 [C2 C3]].
    split; [exact C1|]. split; [exact C2|]. intros Hn. apply C3; [assumption|]. intros h _. apply host_tier_le_max.
Qed.

(* ---- frame: a generator's closure state is touched only by its own calls ------------------------------ *)
Lemma generator_frame c s l s' o n :
  step c s l = Some (s', o) -> (forall q, l <> LPick n q) -> l <> LNext n ->
  find_iter n (s_iters s') = find_iter n (s_iters s).
Proof.
  intros H Hp Hn. destruct l as [o'|id st|v|m q|m]; cbn [step] in H.
  - inversion H; subst. reflexivity.
  - inversion H; subst. reflexivity.
  - inversion H; subst. reflexivity.
  - assert (Hm : (n =? m)%nat = false) by (apply Nat.eqb_neq; intros ->; apply (Hp q); reflexivity).
    destruct (pick_ok c q); [|discriminate].
    assert (Hrr : forall s1 o1, (let '(r, p') := rr_pick (s_pol s) in
                                 Some (mkSys p' (s_up s) ((m, IRR r) :: s_iters s), @None outcome)) = Some (s1, o1) ->
                  find_iter n (s_iters s1) = find_iter n (s_iters s)).
    { intros s1 o1. destruct (rr_pick (s_pol s)) as [r p']. intros H1. inversion H1; subst. cbn [s_iters find_iter]. rewrite Hm. reflexivity. }
    destruct q as [|ht primary order]; [eapply Hrr; eauto|]. destruct (c_ta c); [|eapply Hrr; eauto].
    destruct (ta_replicas ht primary order); [|eapply Hrr; eauto].
    inversion H; subst. cbn [s_iters find_iter]. rewrite Hm. reflexivity.
  - assert (Hm : (n =? m)%nat = false) by (apply Nat.eqb_neq; intros ->; apply Hn; reflexivity).
    destruct (find_iter m (s_iters s)) as [[r|t]|]; [| |discriminate].
    + destruct (rr_next (s_up s) r). inversion H; subst. cbn [s_iters find_iter]. rewrite Hm. reflexivity.
    + destruct (ta_next (c_nlrf c) (s_up s) (s_pol s) t) as [[o1 t'] p']. inversion H; subst.
      cbn [s_iters find_iter]. rewrite Hm. reflexivity.
Qed.
