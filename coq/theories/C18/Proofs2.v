(* C18/Proofs2.v -- lemmas behind C18/Props.v: negotiation, the connection as a transition system,
   the lz4 length prefix. *)
From GocqlV Require Import Lib.Base Lib.Bits Gen.Consts C18.Model C18.Spec C18.Proofs.

Arguments Z.mul : simpl never.
Arguments Z.add : simpl never.
Arguments Z.div : simpl never.
Arguments Z.modulo : simpl never.
Arguments Z.pow : simpl never.
Arguments Z.of_nat : simpl never.

(* ---- negotiation ----------------------------------------------------------------------------------- *)
Lemma first_match_some name l s : first_match name l = Some s -> s = name /\ In name l.
Proof.
  induction l as [|x l IH]; cbn [first_match]; [discriminate|].
  destruct (zlist_eqb x name) eqn:E.
  - intros H. inversion H; subst. apply zlist_eqb_eq in E. subst. split; [reflexivity | left; reflexivity].
  - intros H. destruct (IH H) as [H1 H2]. split; [assumption | right; assumption].
Qed.

Lemma first_match_none name l : first_match name l = None -> ~ In name l.
Proof.
  induction l as [|x l IH]; cbn [first_match]; [intros _ []|].
  destruct (zlist_eqb x name) eqn:E; [discriminate|].
  intros H [Hx | Hin]; [|exact (IH H Hin)].
  subst x. assert (zlist_eqb name name = true) by (apply zlist_eqb_eq; reflexivity). congruence.
Qed.

Definition advertised (sup : smap) : list (list Z) := lookup key_COMPRESSION sup.

(* the decision of startup(), completely *)
Lemma negotiate_lemma comp sup :
  match comp with
  | None => negotiate comp sup = (None, None)
  | Some c =>
      (In (c_name c) (advertised sup) -> negotiate comp sup = (Some (c_name c), Some c))
      /\ (~ In (c_name c) (advertised sup) -> negotiate comp sup = (None, None))
  end.
Proof.
  destruct comp as [c|]; [|reflexivity]. unfold negotiate, advertised.
  destruct (first_match (c_name c) (lookup key_COMPRESSION sup)) as [s|] eqn:E.
  - apply first_match_some in E. destruct E as [-> Hin]. split; [reflexivity | intros Hn; contradiction].
  - apply first_match_none in E. split; [intros Hin; contradiction | reflexivity].
Qed.

Lemma negotiate_cases comp sup opt comp' : negotiate comp sup = (opt, comp') ->
  (opt = None /\ comp' = None /\ forall c, comp = Some c -> ~ In (c_name c) (advertised sup))
  \/ (exists c, comp = Some c /\ comp' = Some c /\ opt = Some (c_name c) /\ In (c_name c) (advertised sup)).
Proof.
  intros H. pose proof (negotiate_lemma comp sup) as L. destruct comp as [c|].
  - destruct L as [L1 L2]. destruct (in_dec (list_eq_dec Z.eq_dec) (c_name c) (advertised sup)) as [Hin|Hn].
    + rewrite (L1 Hin) in H. inversion H; subst. right. exists c. auto.
    + rewrite (L2 Hn) in H. inversion H; subst. left. repeat split. intros c' Hc. inversion Hc; subst. exact Hn.
  - rewrite L in H. inversion H; subst. left. repeat split. intros c Hc. discriminate.
Qed.

(* ---- the connection ------------------------------------------------------------------------------------ *)
Lemma nth1_encode_frame version flags stream opcode wb : nth 1 (encode_frame version flags stream opcode wb) 0 = flags.
Proof. reflexivity. Qed.

(* a request that leaves with the compress bit set is not OPTIONS/STARTUP and the connection has a compressor *)
Lemma exec_compressed_inv comp version tr k pl stream body w :
  exec_frame comp version tr k pl stream body = Ok w -> compressed (nth 1 w 0) = true ->
  is_startup_or_options k = false /\ exists c, comp = Some c.
Proof.
  intros H Hc. rewrite exec_frame_build in H.
  rewrite build_spec in H by (first [apply exec_framer_wf | apply opcode_is_byte]).
  destruct (blen _ >? K.maxFrameSize); [discriminate|].
  pose proof (exec_header_compressed comp version tr k pl) as Hh.
  rewrite exec_framer_comp in H.
  destruct (compressed (header_flags (exec_framer comp version tr k pl) k)) eqn:E.
  - destruct (is_startup_or_options k); [discriminate|]. split; [reflexivity|].
    destruct comp as [c|]; [exists c; reflexivity | discriminate].
  - inversion H; subst w. rewrite nth1_encode_frame in Hc. congruence.
Qed.

Definition adv_in (ls : list label) (name : list Z) : Prop :=
  exists sup stream body, In (LSupported sup stream body) ls /\ In name (advertised sup).

Lemma adv_in_app_l pre post name : adv_in pre name -> adv_in (pre ++ post) name.
Proof. intros [sup [st [b [H1 H2]]]]. exists sup, st, b. split; [apply in_or_app; left; assumption | assumption]. Qed.

Definition negotiated_phase (p : phase) : bool :=
  match p with PAwaitReady | PAuth | PReady => true | _ => false end.

(* comp0: the compressor the connection was configured with; pre: the labels so far *)
Definition conn_inv (comp0 : option codec) (pre : list label) (s : conn) : Prop :=
  (k_comp s = None \/ k_comp s = comp0)
  /\ (negotiated_phase (k_phase s) = true -> forall c, k_comp s = Some c -> adv_in pre (c_name c)).

Definition emitted_ok (comp0 : option codec) (ls : list label) (e : emitted) : Prop :=
  forall w, e_frame e = Ok w -> compressed (nth 1 w 0) = true ->
    is_startup_or_options (e_kind e) = false /\ exists c, comp0 = Some c /\ adv_in ls (c_name c).

Opaque exec_frame negotiate.

Lemma emitted_exec comp0 pre l s tr k pl stream body :
  conn_inv comp0 pre s -> negotiated_phase (k_phase s) = true ->
  emitted_ok comp0 (pre ++ [l]) (mkEmitted k (exec_frame (k_comp s) (k_version s) tr k pl stream body) None).
Proof.
  intros [Hc Hadv] Hph w Hw Hbit. cbn [e_frame e_kind] in *.
  destruct (exec_compressed_inv _ _ _ _ _ _ _ _ Hw Hbit) as [Hk [c Hcomp]].
  split; [exact Hk|]. exists c. split.
  - destruct Hc as [Hc | Hc]; congruence.
  - apply adv_in_app_l. apply Hadv; assumption.
Qed.

Lemma step_inv comp0 pre s l s' out :
  conn_inv comp0 pre s -> step s l = Some (s', out) ->
  conn_inv comp0 (pre ++ [l]) s' /\ forall e, In e out -> emitted_ok comp0 (pre ++ [l]) e.
Proof.
  intros Hinv Hstep. pose proof Hinv as [Hc Hadv].
  assert (Hkeep : forall p, negotiated_phase (k_phase s) = true ->
                    conn_inv comp0 (pre ++ [l]) (with_phase s p)).
  { intros p Hp. split; [exact Hc|]. intros _ c Hcc. apply adv_in_app_l. apply Hadv; assumption. }
  assert (Hfail : conn_inv comp0 (pre ++ [l]) (with_phase s PFailed)).
  { split; [exact Hc|]. cbn. discriminate. }
  assert (Hsame : negotiated_phase (k_phase s) = true -> conn_inv comp0 (pre ++ [l]) s).
  { intros Hp. split; [exact Hc|]. intros _ c Hcc. apply adv_in_app_l. apply Hadv; assumption. }
  unfold step in Hstep.
  destruct (k_phase s) eqn:Hph; destruct l; try discriminate.
  - (* PInit, LSendOptions *)
    inversion Hstep; subst s' out; clear Hstep. split.
    + split; [exact Hc | cbn; discriminate].
    + intros e [<- | []] w Hw Hbit. cbn [e_frame e_kind] in *.
      destruct (exec_compressed_inv _ _ _ _ _ _ _ _ Hw Hbit) as [Hk _]. discriminate.
  - inversion Hstep; subst s' out; clear Hstep. split; [exact Hfail | intros e []].
  - (* PAwaitSupported, LSupported *)
    destruct (negotiate (k_comp s) sup) as [opt comp'] eqn:Hn.
    inversion Hstep; subst s' out; clear Hstep.
    destruct (negotiate_cases _ _ _ _ Hn) as [[-> [-> Hno]] | [c [Hcs [-> [-> Hin]]]]].
    + split.
      * split; [left; reflexivity|]. intros _ c Hcc. discriminate.
      * intros e [<- | []] w Hw Hbit. cbn [e_frame e_kind] in *.
        destruct (exec_compressed_inv _ _ _ _ _ _ _ _ Hw Hbit) as [Hk _]. discriminate.
    + split.
      * split; [right; destruct Hc as [Hc | Hc]; cbn [k_comp]; congruence|].
        intros _ c' Hcc. cbn [k_comp] in Hcc. inversion Hcc; subst c'.
        exists sup, stream, body. split; [apply in_or_app; right; left; reflexivity | exact Hin].
      * intros e [<- | []] w Hw Hbit. cbn [e_frame e_kind] in *.
        destruct (exec_compressed_inv _ _ _ _ _ _ _ _ Hw Hbit) as [Hk _]. discriminate.
  - inversion Hstep; subst s' out; clear Hstep. split; [exact Hfail | intros e []].
  - (* PAwaitReady, LReady *)
    inversion Hstep; subst s' out; clear Hstep. split; [apply Hkeep; reflexivity | intros e []].
  - (* PAwaitReady, LAuthenticate *)
    inversion Hstep; subst s' out; clear Hstep. split; [apply Hkeep; reflexivity|].
    intros e [<- | []]. apply emitted_exec; [exact Hinv | rewrite Hph; reflexivity].
  - inversion Hstep; subst s' out; clear Hstep. split; [exact Hfail | intros e []].
  - (* PAuth, LAuthChallenge *)
    inversion Hstep; subst s' out; clear Hstep. split; [apply Hsame; reflexivity|].
    intros e [<- | []]. apply emitted_exec; [exact Hinv | rewrite Hph; reflexivity].
  - (* PAuth, LAuthSuccess *)
    inversion Hstep; subst s' out; clear Hstep. split; [apply Hkeep; reflexivity | intros e []].
  - inversion Hstep; subst s' out; clear Hstep. split; [exact Hfail | intros e []].
  - inversion Hstep; subst s' out; clear Hstep. split; [exact Hfail | intros e []].
  - (* PReady, LExec *)
    inversion Hstep; subst s' out; clear Hstep. split; [apply Hsame; reflexivity|].
    intros e [<- | []]. apply emitted_exec; [exact Hinv | rewrite Hph; reflexivity].
Qed.

Lemma emitted_ok_mono comp0 pre post e : emitted_ok comp0 pre e -> emitted_ok comp0 (pre ++ post) e.
Proof.
  intros H w Hw Hb. destruct (H w Hw Hb) as [H1 [c [H2 H3]]]. split; [exact H1|].
  exists c. split; [exact H2 | apply adv_in_app_l; exact H3].
Qed.

Lemma run_inv comp0 : forall ls pre s s' out,
  conn_inv comp0 pre s -> run_conn s ls = Some (s', out) ->
  forall e, In e out -> emitted_ok comp0 (pre ++ ls) e.
Proof.
  induction ls as [|l ls IH]; intros pre s s' out Hinv Hrun e Hin.
  - cbn in Hrun. inversion Hrun; subst. destruct Hin.
  - cbn [run_conn] in Hrun. destruct (step s l) as [[s1 out1]|] eqn:Hstep; [|discriminate].
    destruct (run_conn s1 ls) as [[s2 out2]|] eqn:Hrest; [|discriminate].
    inversion Hrun; subst s' out; clear Hrun.
    destruct (step_inv comp0 pre s l s1 out1 Hinv Hstep) as [Hinv1 Hout1].
    replace (pre ++ l :: ls) with ((pre ++ [l]) ++ ls) by (rewrite <- app_assoc; reflexivity).
    apply in_app_or in Hin. destruct Hin as [Hin | Hin].
    + apply emitted_ok_mono. apply Hout1. exact Hin.
    + eapply IH; eassumption.
Qed.

Lemma conn_init_inv comp version : conn_inv comp [] (conn_init comp version).
Proof. split; [right; reflexivity | cbn; discriminate]. Qed.

(* compression is used only if the server advertised it: every schedule of the connection *)
Lemma only_if_advertised_lemma comp version ls s out :
  run_conn (conn_init comp version) ls = Some (s, out) ->
  forall e w, In e out -> e_frame e = Ok w -> compressed (nth 1 w 0) = true ->
    is_startup_or_options (e_kind e) = false
    /\ exists c sup stream body, comp = Some c /\ In (LSupported sup stream body) ls /\ In (c_name c) (advertised sup).
Proof.
  intros Hrun e w Hin Hw Hb.
  destruct (run_inv comp ls [] _ _ _ (conn_init_inv comp version) Hrun e Hin w Hw Hb) as [H1 [c [H2 [sup [st [b [H3 H4]]]]]]].
  split; [exact H1|]. exists c, sup, st, b. auto.
Qed.

(* the STARTUP option is one of the advertised algorithms, and it is the configured compressor's name *)
Lemma startup_option_lemma s sup stream body s' out :
  step s (LSupported sup stream body) = Some (s', out) ->
  exists fr opt, out = [mkEmitted RStartup fr opt] /\ allowed_choice (advertised sup) opt
    /\ (forall n, opt = Some n -> exists c, k_comp s = Some c /\ n = c_name c /\ k_comp s' = Some c)
    /\ (opt = None -> k_comp s' = None).
Proof.
  unfold step. destruct (k_phase s); try discriminate.
  destruct (negotiate (k_comp s) sup) as [opt comp'] eqn:Hn. intros H. inversion H; subst s' out; clear H.
  eexists. exists opt. split; [reflexivity|].
  destruct (negotiate_cases _ _ _ _ Hn) as [[-> [-> Hno]] | [c [Hcs [-> [-> Hin]]]]].
  - split; [exact I|]. split; [intros n Hn'; discriminate | reflexivity].
  - split; [exact Hin|]. split; [|discriminate].
    intros n Hn'. inversion Hn'; subst n. exists c. auto.
Qed.

(* ---- lz4: Cassandra's length prefix ---------------------------------------------------------------------------- *)
Transparent exec_frame negotiate.

Lemma lz4_encode_prefix rawenc data z :
  lz4_encode rawenc data = Some z ->
  exists blk, rawenc data = Some blk /\ z = be32 (blen data) ++ blk.
Proof.
  unfold lz4_encode. destruct (rawenc data) as [blk|]; [|discriminate].
  intros H. inversion H. exists blk. auto.
Qed.

(* gocql's encoding is Cassandra's: 4 bytes big-endian uncompressed length, then the block *)
Lemma lz4_prefix_law_lemma rawenc data z : size data < 2 ^ 32 ->
  lz4_encode rawenc data = Some z ->
  exists blk, rawenc data = Some blk /\ z = cass_lz4_compress blk data
              /\ be (firstn 4 z) = size data /\ skipn 4 z = blk.
Proof.
  intros Hsz H. destruct (lz4_encode_prefix _ _ _ H) as [blk [Hb ->]]. exists blk.
  split; [exact Hb|]. rewrite be32_spec. unfold cass_lz4_compress. change (blen data) with (size data).
  split; [reflexivity|]. unfold be_bytes4. cbn [app firstn skipn].
  split; [|reflexivity]. change [(size data / 2 ^ 24) mod 256; (size data / 2 ^ 16) mod 256; (size data / 2 ^ 8) mod 256; size data mod 256]
    with (be_bytes4 (size data)). apply be_bytes4_val. unfold size in *. lia.
Qed.

Lemma lz4_decode_prefixed rawdec n blk : 0 <= n < 2 ^ 32 ->
  lz4_decode rawdec (be32 n ++ blk) = if n =? 0 then Some [] else lz4_checked rawdec blk n.
Proof.
  intros Hn. unfold lz4_decode. rewrite be32_val_be32 by exact Hn.
  rewrite be32_spec. unfold be_bytes4. cbn [app length Nat.ltb Nat.leb skipn]. reflexivity.
Qed.

(* a zero prefix decodes to the empty body whatever follows *)
Lemma lz4_zero_prefix_lemma rawdec rest : lz4_decode rawdec ([0; 0; 0; 0] ++ rest) = Some [].
Proof. reflexivity. Qed.

(* the empty body survives without any assumption on the block codec *)
Lemma lz4_empty_lemma rawenc rawdec z : lz4_encode rawenc [] = Some z -> lz4_decode rawdec z = Some [].
Proof.
  intros H. destruct (lz4_encode_prefix _ _ _ H) as [blk [_ ->]]. reflexivity.
Qed.

(* the round-trip law of the wrapper from the round-trip law of the block codec *)
Definition raw_roundtrips (rawenc : bytes -> option bytes) (rawdec : bytes -> Z -> option bytes) (data : bytes) : Prop :=
  forall blk, rawenc data = Some blk -> rawdec blk (size data) = Some data.

Lemma lz4_roundtrip_lemma rawenc rawdec data : size data < 2 ^ 32 ->
  raw_roundtrips rawenc rawdec data -> roundtrips (lz4_codec rawenc rawdec) data.
Proof.
  intros Hsz Hraw z Hz. cbn [lz4_codec c_enc c_dec] in *.
  destruct (lz4_encode_prefix _ _ _ Hz) as [blk [Hb ->]].
  rewrite lz4_decode_prefixed by (unfold blen, size in *; lia).
  destruct (blen data =? 0) eqn:E.
  - apply Z.eqb_eq in E. unfold blen in E. destruct data; [reflexivity | cbn in E; lia].
  - unfold lz4_checked. change (blen data) with (size data). rewrite (Hraw blk Hb).
    change (blen data) with (size data). rewrite Z.eqb_refl. reflexivity.
Qed.

(* Cassandra reads what gocql writes, gocql reads what Cassandra writes *)
Lemma cass_reads_gocql_lemma rawenc exact data z blk : size data < 2 ^ 32 ->
  lz4_encode rawenc data = Some z -> rawenc data = Some blk ->
  cass_lz4_decompress exact z = exact blk (size data).
Proof.
  intros Hsz Hz Hb. destruct (lz4_prefix_law_lemma _ _ _ Hsz Hz) as [blk' [Hb' [Hz' [Hbe Hsk]]]].
  assert (E : blk' = blk) by congruence. rewrite E in *. unfold cass_lz4_decompress.
  rewrite Hbe, Hsk. subst z. reflexivity.
Qed.

Lemma gocql_reads_cass_lemma rawdec blk data : size data < 2 ^ 32 ->
  lz4_decode rawdec (cass_lz4_compress blk data) = if size data =? 0 then Some [] else lz4_checked rawdec blk (size data).
Proof.
  intros Hsz. unfold cass_lz4_compress. rewrite <- be32_spec. apply lz4_decode_prefixed. unfold size in *. lia.
Qed.

(* the buffer Encode hands to CompressBlock is never smaller than CompressBlockBound(len(data)) *)
Lemma lz4_dst_bound_lemma n : 0 <= n -> lz4_bound (n + 4) - 4 >= lz4_bound n.
Proof. intros H. unfold lz4_bound. lia. Qed.

(* too short to carry a prefix: an error *)
Lemma lz4_short_lemma rawdec data : (length data < 4)%nat -> lz4_decode rawdec data = None.
Proof. intros H. unfold lz4_decode. replace (length data <? 4)%nat with true by (symmetry; apply Nat.ltb_lt; exact H). reflexivity. Qed.

(* whatever Decode returns is what the block decoder returned, of exactly the declared length (or empty for a
   zero prefix) *)
Lemma lz4_decode_some rawdec data out : lz4_decode rawdec data = Some out ->
  (4 <= length data)%nat /\ ((be (firstn 4 data) = 0 /\ out = [])
     \/ (rawdec (skipn 4 data) (be (firstn 4 data)) = Some out /\ size out = be (firstn 4 data))).
Proof.
  unfold lz4_decode. destruct (length data <? 4)%nat eqn:E; [discriminate|].
  apply Nat.ltb_ge in E. intros H. split; [exact E|].
  destruct data as [|a [|b [|c [|d rest]]]]; cbn in E; try lia.
  rewrite be32_val_spec in H. cbn [firstn skipn].
  destruct (be [a; b; c; d] =? 0) eqn:E0.
  - left. apply Z.eqb_eq in E0. inversion H. auto.
  - right. unfold lz4_checked in H. cbn [skipn] in H. destruct (rawdec rest (be [a; b; c; d])) as [o|]; [|discriminate].
    destruct (blen o =? be [a; b; c; d]) eqn:E1; [|discriminate]. inversion H; subst o.
    apply Z.eqb_eq in E1. split; [reflexivity | exact E1].
Qed.

(* an accepted body has the length its prefix declares: Decode checks it *)
Lemma lz4_declared_length_lemma rawdec data out :
  lz4_decode rawdec data = Some out -> be (firstn 4 data) = size out.
Proof.
  intros H. destruct (lz4_decode_some _ _ _ H) as [_ [[H0 ->] | [_ Hs]]].
  - rewrite H0. reflexivity.
  - symmetry. exact Hs.
Qed.

(* Decode is Cassandra's decoder (which asks for exactly the declared number of bytes), except that a zero
   prefix is accepted without looking at the block *)
Lemma lz4_decode_is_cassandra_lemma rawdec data : (4 <= length data)%nat -> be (firstn 4 data) <> 0 ->
  lz4_decode rawdec data = cass_lz4_decompress (lz4_checked rawdec) data.
Proof.
  intros Hl Hn. unfold lz4_decode, cass_lz4_decompress.
  replace (length data <? 4)%nat with false by (symmetry; apply Nat.ltb_ge; exact Hl).
  destruct data as [|a [|b [|c [|d rest]]]]; cbn in Hl; try lia.
  rewrite be32_val_spec. cbn [firstn skipn] in *.
  replace (be [a; b; c; d] =? 0) with false by (symmetry; apply Z.eqb_neq; exact Hn). reflexivity.
Qed.

(* fits the length field: the wrapper adds 4 bytes to a block within the library's bound *)
Lemma lz4_fits_lemma rawenc rawdec data : size data <= K.maxFrameSize ->
  (forall blk, rawenc data = Some blk -> size blk <= lz4_bound (size data)) ->
  forall z, c_enc (lz4_codec rawenc rawdec) data = Some z -> size z <= 4 + lz4_bound (size data) /\ size z < 2 ^ 31.
Proof.
  intros Hsz Hb z Hz. cbn [lz4_codec c_enc] in Hz. destruct (lz4_encode_prefix _ _ _ Hz) as [blk [Hblk ->]].
  specialize (Hb blk Hblk). assert (Hs : size (be32 (blen data) ++ blk) = 4 + size blk).
  { unfold size. rewrite app_length, be32_length. lia. }
  rewrite Hs. split; [lia|]. assert (0 <= size data) by (unfold size; lia).
  unfold lz4_bound in *. change K.maxFrameSize with 268435456 in Hsz. change (2 ^ 31) with 2147483648. lia.
Qed.
