(* C18/Proofs.v -- lemmas behind C18/Props.v: framing (finish / readFrame / header layout). *)
From GocqlV Require Import Lib.Base Lib.Bits Gen.Consts C18.Model C18.Spec.

Arguments Z.mul : simpl never.
Arguments Z.add : simpl never.
Arguments Z.div : simpl never.
Arguments Z.modulo : simpl never.
Arguments Z.pow : simpl never.
Arguments Z.shiftr : simpl never.
Arguments Z.land : simpl never.
Arguments Z.lor : simpl never.
Arguments Z.ldiff : simpl never.
Arguments Z.of_nat : simpl never.

Ltac norm_pow :=
  change (2 ^ 8) with 256 in *; change (2 ^ 16) with 65536 in *; change (2 ^ 24) with 16777216 in *;
  change (2 ^ 32) with 4294967296 in *; change (2 ^ 31) with 2147483648 in *.

(* ---- flags ---------------------------------------------------------------------------------- *)
Lemma size_blen b : size b = blen b.
Proof. reflexivity. Qed.

(* x & 1 == 1  <->  bit 0 of x  (the specification's "0x01") *)
Lemma has_flag_compress x : has_flag x K.flagCompress = compressed x.
Proof.
  unfold has_flag, compressed. change K.flagCompress with 1.
  change 1 with (Z.ones 1) at 1. rewrite Z.land_ones by lia. change (2 ^ 1) with 2.
  rewrite Zodd_mod. unfold Zeq_bool. destruct (x mod 2 ?= 1) eqn:E.
  - apply Z.compare_eq in E. rewrite E. reflexivity.
  - destruct (x mod 2 =? 1) eqn:E'; [apply Z.eqb_eq in E'; rewrite E' in E; discriminate|reflexivity].
  - destruct (x mod 2 =? 1) eqn:E'; [apply Z.eqb_eq in E'; rewrite E' in E; discriminate|reflexivity].
Qed.

(* ---- big-endian ------------------------------------------------------------------------------- *)
Lemma be32_spec n : be32 n = be_bytes4 n.
Proof. unfold be32, be_bytes4, byte_of. rewrite !Z.shiftr_div_pow2 by lia. reflexivity. Qed.

Lemma be_bytes4_val n : 0 <= n < 2 ^ 32 -> be (be_bytes4 n) = n.
Proof. intros H. unfold be, be_bytes4. cbn [fold_left]. norm_pow. lia. Qed.

Lemma be_bytes2_val n : be (be_bytes2 n) = n mod 2 ^ 16.
Proof. unfold be, be_bytes2. cbn [fold_left]. norm_pow. lia. Qed.

Lemma be32_val_spec a b c d rest : be32_val (a :: b :: c :: d :: rest) = be [a; b; c; d].
Proof. unfold be32_val, be. cbn [nth fold_left]. norm_pow. lia. Qed.

Lemma be32_length n : length (be32 n) = 4%nat.
Proof. reflexivity. Qed.

Lemma be32_val_be32 n rest : 0 <= n < 2 ^ 32 -> be32_val (be32 n ++ rest) = n.
Proof.
  intros H. rewrite be32_spec. unfold be_bytes4. cbn [app]. rewrite be32_val_spec.
  exact (be_bytes4_val n H).
Qed.

(* ---- framers --------------------------------------------------------------------------------------- *)
(* every framer the code builds: proto is a 7-bit number and headSize follows from it *)
Definition wf_framer (f : framer) : Prop :=
  0 <= f_proto f < 128 /\ f_head f = (if f_proto f >? K.protoVersion2 then 9 else 8)%nat.

Lemma new_framer_wf comp v : wf_framer (new_framer comp v).
Proof.
  unfold wf_framer, new_framer. cbn [f_proto f_head]. split; [|reflexivity].
  change K.protoVersionMask with (Z.ones 7). rewrite Z.land_ones by lia. change (2 ^ 7) with 128. lia.
Qed.

Lemma with_flags_wf f fl : wf_framer f -> wf_framer (with_flags f fl).
Proof. exact (fun H => H). Qed.

Lemma trace_wf f : wf_framer f -> wf_framer (trace f).
Proof. exact (fun H => H). Qed.

Lemma payload_wf f : wf_framer f -> wf_framer (payload f).
Proof. exact (fun H => H). Qed.

Lemma write_header_length f h op s : wf_framer f -> length (write_header f h op s) = f_head f.
Proof. intros [_ H]. rewrite H. unfold write_header. destruct (f_proto f >? K.protoVersion2); reflexivity. Qed.

Lemma byte_of_id b : is_byte b -> byte_of b = b.
Proof. unfold is_byte, byte_of. intros. apply Z.mod_small. lia. Qed.

(* header with the length patched in = the specification's frame layout *)
Lemma set_length_header f h op s z : wf_framer f -> is_byte op ->
  set_length f (write_header f h op s ++ z) (blen (write_header f h op s ++ z) - Z.of_nat (f_head f))
  = encode_frame (f_proto f) h s op z.
Proof.
  intros Hwf Hop. pose proof (write_header_length f h op s Hwf) as HL.
  unfold blen. rewrite app_length, HL.
  replace (Z.of_nat (f_head f + length z) - Z.of_nat (f_head f)) with (size z) by (unfold size; lia).
  destruct Hwf as [Hp Hh]. unfold set_length, write_header, encode_frame, stream_bytes, proto_of.
  rewrite (Z.mod_small (f_proto f) 128) by lia.
  change K.protoVersion2 with 2 in *.
  destruct (f_proto f >? 2) eqn:E.
  - replace (f_proto f <? 3) with false by lia.
    cbn [app upd Nat.add]. unfold be_bytes2, be_bytes4, byte_of.
    rewrite !Z.shiftr_div_pow2 by lia. fold (byte_of op). rewrite (byte_of_id op Hop). reflexivity.
  - replace (f_proto f <? 3) with true by lia.
    cbn [app upd Nat.add]. unfold be_bytes4, byte_of.
    rewrite !Z.shiftr_div_pow2 by lia. fold (byte_of op). rewrite (byte_of_id op Hop). reflexivity.
Qed.

Lemma firstn_app_exact {A} (l r : list A) n : n = length l -> firstn n (l ++ r) = l.
Proof. intros ->. rewrite firstn_app, Nat.sub_diag, firstn_all. cbn [firstn]. apply app_nil_r. Qed.

Lemma skipn_app_exact {A} (l r : list A) n : n = length l -> skipn n (l ++ r) = r.
Proof. intros ->. rewrite skipn_app, Nat.sub_diag, skipn_all. reflexivity. Qed.

Lemma nth1_write_header f h op s z : nth 1 (write_header f h op s ++ z) 0 = h.
Proof. reflexivity. Qed.

(* finish, characterised: the compress flag of the header decides, and nothing else does *)
Lemma build_spec f h op s body : wf_framer f -> is_byte op ->
  build f h op s body =
  if blen (write_header f h op s ++ body) >? K.maxFrameSize then Err EFrameTooBig
  else if compressed h then
    match f_comp f with
    | None => Crash
    | Some c => match c_enc c body with
                | None => Err EEncode
                | Some z => Ok (encode_frame (f_proto f) h s op z)
                end
    end
  else Ok (encode_frame (f_proto f) h s op body).
Proof.
  intros Hwf Hop. unfold build, finish.
  destruct (blen (write_header f h op s ++ body) >? K.maxFrameSize); [reflexivity|].
  rewrite nth1_write_header, has_flag_compress.
  pose proof (write_header_length f h op s Hwf) as HL.
  destruct (compressed h).
  - destruct (f_comp f) as [c|]; [|reflexivity].
    rewrite (skipn_app_exact _ _ _ (eq_sym HL)). destruct (c_enc c body) as [z|]; [|reflexivity].
    rewrite (firstn_app_exact _ _ _ (eq_sym HL)). rewrite set_length_header by assumption. reflexivity.
  - rewrite set_length_header by assumption. reflexivity.
Qed.

(* ---- the specification's parser reads the specification's layout back ---------------------------- *)
Definition stream_on_wire (version stream : Z) : Z :=
  if proto_of version <? 3 then stream mod 2 ^ 8 else stream mod 2 ^ 16.

Lemma parse_encode version flags stream opcode wb : size wb < 2 ^ 32 ->
  parse_frame (encode_frame version flags stream opcode wb)
  = Some (mkView version flags (stream_on_wire version stream) opcode wb).
Proof.
  intros Hsz. assert (H0 : 0 <= size wb) by (unfold size; lia).
  unfold encode_frame, stream_bytes, stream_on_wire.
  destruct (proto_of version <? 3) eqn:E.
  - cbn [app]. unfold parse_frame, stream_width. rewrite E.
    unfold be_bytes4. cbn [app length skipn firstn nth Nat.add Nat.ltb Nat.leb].
    fold (be_bytes4 (size wb)). rewrite be_bytes4_val by lia. rewrite Z.eqb_refl.
    unfold be. cbn [fold_left]. norm_pow. do 2 f_equal; try lia.
  - unfold be_bytes2 at 1. cbn [app]. unfold parse_frame, stream_width. rewrite E.
    unfold be_bytes4. cbn [app length skipn firstn nth Nat.add Nat.ltb Nat.leb].
    fold (be_bytes4 (size wb)). rewrite be_bytes4_val by lia. rewrite Z.eqb_refl.
    fold (be_bytes2 stream). rewrite be_bytes2_val. reflexivity.
Qed.

(* ---- which flags the request writers pass ------------------------------------------------------------ *)
(* the framer Conn.exec hands to buildFrame, after the optional trace() and payload() *)
Definition exec_framer (comp : option codec) (version : Z) (tr : bool) (k : reqkind) (pl : bool) : framer :=
  let f := new_framer comp version in
  let f1 := if tr then trace f else f in
  if pl && takes_payload k then payload f1 else f1.

Lemma exec_frame_build comp version tr k pl stream body :
  exec_frame comp version tr k pl stream body
  = build (exec_framer comp version tr k pl) (header_flags (exec_framer comp version tr k pl) k) (opcode k) stream body.
Proof. reflexivity. Qed.

Lemma exec_framer_wf comp version tr k pl : wf_framer (exec_framer comp version tr k pl).
Proof.
  unfold exec_framer. destruct (pl && takes_payload k), tr; exact (new_framer_wf comp version).
Qed.

Lemma exec_framer_comp comp version tr k pl : f_comp (exec_framer comp version tr k pl) = comp.
Proof. unfold exec_framer. destruct (pl && takes_payload k), tr; reflexivity. Qed.

Lemma exec_framer_proto comp version tr k pl : f_proto (exec_framer comp version tr k pl) = Z.land version K.protoVersionMask.
Proof. unfold exec_framer. destruct (pl && takes_payload k), tr; reflexivity. Qed.

Definition is_startup_or_options (k : reqkind) : bool :=
  match k with RStartup | ROptions => true | _ => false end.

(* the compress bit of the header a request goes out with *)
Lemma exec_header_compressed comp version tr k pl :
  compressed (header_flags (exec_framer comp version tr k pl) k)
  = if is_startup_or_options k then false else match comp with Some _ => true | None => false end.
Proof.
  unfold exec_framer, new_framer.
  destruct (version =? K.protoVersion5), comp, tr, pl, k; reflexivity.
Qed.

Lemma opcode_is_byte k : is_byte (opcode k).
Proof. destruct k; split; vm_compute; first [reflexivity | discriminate]. Qed.

Lemma opcode_spec : opcode RStartup = op_startup /\ opcode ROptions = op_options.
Proof. split; reflexivity. Qed.

Lemma max_frame_lt : K.maxFrameSize < 2 ^ 31.
Proof. reflexivity. Qed.

Lemma app_blen (a b : bytes) : blen (a ++ b) = blen a + blen b.
Proof. unfold blen. rewrite app_length. lia. Qed.

Lemma blen_nonneg (a : bytes) : 0 <= blen a.
Proof. unfold blen. lia. Qed.

Lemma not_too_big_size hdr (body : bytes) : (blen (hdr ++ body) >? K.maxFrameSize) = false -> size body < 2 ^ 32.
Proof.
  intros H. rewrite app_blen in H. pose proof (blen_nonneg hdr). pose proof max_frame_lt.
  change (size body) with (blen body). assert (2 ^ 31 < 2 ^ 32) by reflexivity. lia.
Qed.

(* ---- OPTIONS and STARTUP are never compressed ---------------------------------------------------------- *)
Lemma options_startup_plain_lemma comp version tr pl k stream body w :
  is_startup_or_options k = true ->
  exec_frame comp version tr k pl stream body = Ok w ->
  exists v, parse_frame w = Some v /\ compressed (v_flags v) = false /\ v_body v = body /\ v_opcode v = opcode k.
Proof.
  intros Hk H. rewrite exec_frame_build in H.
  rewrite build_spec in H by (first [apply exec_framer_wf | apply opcode_is_byte]).
  destruct (blen _ >? K.maxFrameSize) eqn:Hsz; [discriminate|].
  pose proof (exec_header_compressed comp version tr k pl) as Hc. rewrite Hk in Hc.
  rewrite Hc in H. inversion H; subst w; clear H.
  eexists. split; [apply parse_encode; eapply not_too_big_size; exact Hsz|].
  cbn [v_flags v_body v_opcode]. auto.
Qed.

(* ---- every other request is compressed exactly when the connection has a compressor -------------------- *)
Lemma other_requests_lemma comp version tr pl k stream body w :
  is_startup_or_options k = false ->
  exec_frame comp version tr k pl stream body = Ok w ->
  match comp with
  | None => exists v, parse_frame w = Some v /\ v_opcode v = opcode k /\ compressed (v_flags v) = false /\ v_body v = body
  | Some c => exists z, c_enc c body = Some z /\
                (size z < 2 ^ 32 ->
                 exists v, parse_frame w = Some v /\ v_opcode v = opcode k /\ compressed (v_flags v) = true /\ v_body v = z)
  end.
Proof.
  intros Hk H. rewrite exec_frame_build in H.
  rewrite build_spec in H by (first [apply exec_framer_wf | apply opcode_is_byte]).
  destruct (blen _ >? K.maxFrameSize) eqn:Hsz; [discriminate|].
  pose proof (exec_header_compressed comp version tr k pl) as Hc. rewrite Hk in Hc.
  rewrite exec_framer_comp in H. destruct comp as [c|]; rewrite Hc in H.
  - destruct (c_enc c body) as [z|]; [|discriminate]. inversion H; subst w; clear H.
    exists z. split; [reflexivity|]. intros Hz. eexists. split; [apply parse_encode; exact Hz|].
    cbn [v_flags v_body v_opcode]. auto.
  - inversion H; subst w; clear H.
    eexists. split; [apply parse_encode; eapply not_too_big_size; exact Hsz|].
    cbn [v_flags v_body v_opcode]. auto.
Qed.

(* ---- the explicit panic of finish is unreachable through the request writers ------------------------------ *)
Lemma exec_no_crash comp version tr k pl stream body : exec_frame comp version tr k pl stream body <> Crash.
Proof.
  rewrite exec_frame_build.
  rewrite build_spec by (first [apply exec_framer_wf | apply opcode_is_byte]).
  destruct (blen _ >? K.maxFrameSize); [discriminate|].
  rewrite exec_header_compressed, exec_framer_comp.
  destruct (is_startup_or_options k); [discriminate|].
  destruct comp as [c|]; [|discriminate]. destruct (c_enc c body); discriminate.
Qed.

(* ---- transparency on the write side: what the peer decodes is the body -------------------------------------- *)
Definition roundtrips (c : codec) (body : bytes) : Prop :=
  forall z, c_enc c body = Some z -> c_dec c z = Some body.
Definition codec_law (c : codec) : Prop := forall body, roundtrips c body.
Definition fits32 (c : codec) (body : bytes) : Prop :=
  forall z, c_enc c body = Some z -> size z < 2 ^ 32.

Lemma build_transparent_lemma f h op s body w c :
  wf_framer f -> is_byte op -> f_comp f = Some c -> roundtrips c body -> fits32 c body ->
  build f h op s body = Ok w ->
  exists v, parse_frame w = Some v /\ v_version v = f_proto f /\ v_flags v = h /\ v_opcode v = op
            /\ v_stream v = stream_on_wire (f_proto f) s /\ peer_body (c_dec c) v = Some body.
Proof.
  intros Hwf Hop Hc Hrt Hfit H. rewrite build_spec in H by assumption.
  destruct (blen _ >? K.maxFrameSize) eqn:Hsz; [discriminate|]. rewrite Hc in H.
  destruct (compressed h) eqn:Hh.
  - destruct (c_enc c body) as [z|] eqn:Hz; [|discriminate]. inversion H; subst w; clear H.
    eexists. split; [apply parse_encode; apply Hfit; exact Hz|].
    unfold peer_body. cbn [v_version v_flags v_body v_opcode v_stream]. rewrite Hh.
    repeat split; try reflexivity. apply Hrt. exact Hz.
  - inversion H; subst w; clear H.
    eexists. split; [apply parse_encode; eapply not_too_big_size; exact Hsz|].
    unfold peer_body. cbn [v_version v_flags v_body v_opcode v_stream]. rewrite Hh. repeat split; reflexivity.
Qed.

Definition dec_of (comp : option codec) : bytes -> option bytes :=
  match comp with Some c => c_dec c | None => fun _ => None end.

Lemma exec_transparent_lemma comp version tr k pl stream body w :
  (forall c, comp = Some c -> roundtrips c body /\ fits32 c body) ->
  exec_frame comp version tr k pl stream body = Ok w ->
  exists v, parse_frame w = Some v /\ v_opcode v = opcode k /\ peer_body (dec_of comp) v = Some body.
Proof.
  intros Hlaw H. destruct comp as [c|].
  - destruct (Hlaw c eq_refl) as [Hrt Hfit]. rewrite exec_frame_build in H.
    destruct (build_transparent_lemma _ _ _ _ _ _ c (exec_framer_wf (Some c) version tr k pl)
                (opcode_is_byte k) (exec_framer_comp (Some c) version tr k pl) Hrt Hfit H)
      as [v [Hp [_ [_ [Ho [_ Hb]]]]]].
    exists v. auto.
  - destruct (is_startup_or_options k) eqn:Hk.
    + destruct (options_startup_plain_lemma None version tr pl k stream body w Hk H) as [v [Hp [Hc [Hb Ho]]]].
      exists v. unfold peer_body. rewrite Hc, Hb. auto.
    + destruct (other_requests_lemma None version tr pl k stream body w Hk H) as [v [Hp [Ho [Hc Hb]]]].
      exists v. unfold peer_body. rewrite Hc, Hb. auto.
Qed.

(* ---- reading ------------------------------------------------------------------------------------------------- *)
Lemma read_len_check_none len avail :
  read_len_check len avail = None <-> 0 <= len <= K.maxFrameSize /\ len <= avail.
Proof.
  unfold read_len_check.
  destruct (len <? 0) eqn:E1; [split; [discriminate | lia]|].
  destruct (len >? K.maxFrameSize) eqn:E2.
  - destruct (avail <? len); split; try discriminate; lia.
  - destruct (avail <? len) eqn:E3; split; try discriminate; try lia. intros _. reflexivity.
Qed.

Lemma read_frame_ok_iff f hflags len r b :
  read_frame f hflags len r = Ok b <->
  (0 <= len <= K.maxFrameSize /\ len <= blen r /\
   if compressed hflags
   then exists c, f_comp f = Some c /\ c_dec c (firstn (Z.to_nat len) r) = Some b
   else b = firstn (Z.to_nat len) r).
Proof.
  unfold read_frame. rewrite has_flag_compress.
  destruct (read_len_check len (blen r)) as [e|] eqn:E.
  - split; [discriminate|]. intros [H1 [H2 _]].
    assert (read_len_check len (blen r) = None) by (apply read_len_check_none; auto). congruence.
  - apply read_len_check_none in E. destruct E as [E1 E2].
    destruct (compressed hflags).
    + destruct (f_comp f) as [c|].
      * destruct (c_dec c (firstn (Z.to_nat len) r)) as [b'|] eqn:D.
        -- split.
           ++ intros H. inversion H; subst. repeat split; try lia. exists c. auto.
           ++ intros [_ [_ [c' [Hc Hd]]]]. inversion Hc; subst c'. congruence.
        -- split; [discriminate|]. intros [_ [_ [c' [Hc Hd]]]]. inversion Hc; subst c'. congruence.
      * split; [discriminate|]. intros [_ [_ [c' [Hc _]]]]. discriminate.
    + split.
      * intros H. inversion H; subst. repeat split; lia.
      * intros [_ [_ H]]. subst. reflexivity.
Qed.

(* a compressed body on a framer without compressor: always an error, never a crash, never data *)
Lemma no_compressor_lemma f hflags len r :
  f_comp f = None -> compressed hflags = true ->
  (exists e, read_frame f hflags len r = Err e)
  /\ (0 <= len <= K.maxFrameSize -> len <= blen r -> read_frame f hflags len r = Err ENoCompressor).
Proof.
  intros Hc Hf. unfold read_frame. rewrite has_flag_compress, Hf, Hc. split.
  - destruct (read_len_check len (blen r)); eexists; reflexivity.
  - intros H1 H2. assert (E : read_len_check len (blen r) = None) by (apply read_len_check_none; auto).
    rewrite E. reflexivity.
Qed.

(* a body the compressor rejects: an error *)
Lemma corrupt_lemma f c hflags len r :
  f_comp f = Some c -> compressed hflags = true ->
  c_dec c (firstn (Z.to_nat len) r) = None ->
  exists e, read_frame f hflags len r = Err e.
Proof.
  intros Hc Hf Hd. unfold read_frame. rewrite has_flag_compress, Hf, Hc, Hd.
  destruct (read_len_check len (blen r)); eexists; reflexivity.
Qed.

(* read_frame never crashes *)
Lemma read_frame_no_crash f hflags len r : read_frame f hflags len r <> Crash.
Proof.
  unfold read_frame. destruct (read_len_check len (blen r)); [discriminate|].
  destruct (has_flag hflags K.flagCompress); [|discriminate].
  destruct (f_comp f) as [c|]; [|discriminate]. destruct (c_dec c _); discriminate.
Qed.

Lemma signed32_small n : 0 <= n < 2 ^ 31 -> signed 32 n = n.
Proof.
  intros H. unfold signed. change (2 ^ 32) with 4294967296. change (2 ^ (32 - 1)) with 2147483648.
  change (2 ^ 31) with 2147483648 in H. rewrite Z.mod_small by lia.
  replace (n <? 2147483648) with true by lia. reflexivity.
Qed.

Lemma header_length_field n : 0 <= n < 2 ^ 31 ->
  signed 32 (be32_val [(n / 2 ^ 24) mod 256; (n / 2 ^ 16) mod 256; (n / 2 ^ 8) mod 256; n mod 256]) = n.
Proof.
  intros H. rewrite be32_val_spec. change [(n / 2 ^ 24) mod 256; (n / 2 ^ 16) mod 256; (n / 2 ^ 8) mod 256; n mod 256]
    with (be_bytes4 n). assert (2 ^ 31 < 2 ^ 32) by reflexivity.
  rewrite be_bytes4_val by lia. apply signed32_small. exact H.
Qed.

Ltac read_header_case v small :=
  unfold encode_frame, stream_bytes; change (proto_of (128 + v) <? 3) with small; unfold be_bytes4, be_bytes2; cbn [app];
  unfold read_header; change (Z.land (128 + v) K.protoVersionMask) with v; cbv beta zeta;
  change ((v <? K.protoVersion1) || (v >? K.protoVersion5)) with false; cbv iota;
  change (v <? K.protoVersion3) with small; cbv iota;
  change (v >? K.protoVersion2) with (negb small); cbv iota; cbn [negb];
  cbn [length Nat.sub Nat.ltb Nat.leb firstn skipn nth app];
  eexists; split; [reflexivity|]; cbn [h_version h_flags h_op h_length];
  repeat split; apply header_length_field; lia.

(* readHeader reads the specification's response header *)
Lemma read_header_encode version flags stream opcode wb more :
  1 <= version <= 5 -> size wb < 2 ^ 31 ->
  exists h, read_header (encode_frame (128 + version) flags stream opcode wb ++ more) = Ok (h, wb ++ more)
    /\ h_version h = 128 + version /\ h_flags h = flags /\ h_op h = opcode /\ h_length h = size wb.
Proof.
  intros Hv Hsz. assert (H0 : 0 <= size wb) by (unfold size; lia).
  assert (Hcases : version = 1 \/ version = 2 \/ version = 3 \/ version = 4 \/ version = 5) by lia.
  destruct Hcases as [-> | [-> | [-> | [-> | ->]]]].
  - read_header_case 1 true.
  - read_header_case 2 true.
  - read_header_case 3 false.
  - read_header_case 4 false.
  - read_header_case 5 false.
Qed.

Lemma firstn_blen_app (a b : bytes) : firstn (Z.to_nat (size a)) (a ++ b) = a.
Proof. unfold size. rewrite Nat2Z.id. apply firstn_app_exact. reflexivity. Qed.

(* a response a conforming server sends is read back as the body it was made from *)
Lemma response_transparent_lemma c fv version flags stream opcode body w more :
  1 <= version <= 5 ->
  roundtrips c body ->
  (forall z, c_enc c body = Some z -> size z <= K.maxFrameSize) -> size body <= K.maxFrameSize ->
  peer_frame (c_enc c) (128 + version) flags stream opcode body = Some w ->
  exists h, recv_frame (Some c) fv (w ++ more) = Ok (h, body) /\ h_flags h = flags /\ h_op h = opcode.
Proof.
  intros Hv Hrt Hfit Hb H. unfold peer_frame in H. pose proof max_frame_lt as Hm.
  assert (Hgen : forall wb, size wb <= K.maxFrameSize ->
            (if compressed flags then c_dec c wb = Some body else wb = body) ->
            exists h, recv_frame (Some c) fv (encode_frame (128 + version) flags stream opcode wb ++ more) = Ok (h, body)
                      /\ h_flags h = flags /\ h_op h = opcode).
  { intros wb Hwb Hdec.
    destruct (read_header_encode version flags stream opcode wb more Hv ltac:(lia)) as [h [Hh [_ [Hf [Ho Hl]]]]].
    exists h. unfold recv_frame. rewrite Hh.
    assert (Hr : read_frame (new_framer (Some c) fv) (h_flags h) (h_length h) (wb ++ more) = Ok body).
    { apply read_frame_ok_iff. rewrite Hl, Hf. assert (0 <= size wb) by (unfold size; lia).
      split; [lia|]. split; [rewrite app_blen; pose proof (blen_nonneg more); change (size wb) with (blen wb); lia|].
      rewrite firstn_blen_app. destruct (compressed flags).
      - exists c. split; [reflexivity | exact Hdec].
      - symmetry. exact Hdec. }
    rewrite Hr. auto. }
  destruct (compressed flags) eqn:Hc.
  - destruct (c_enc c body) as [z|] eqn:Hz; [|discriminate]. inversion H; subst w.
    apply Hgen; [apply Hfit; reflexivity | apply Hrt; exact Hz].
  - inversion H; subst w. apply Hgen; [exact Hb | reflexivity].
Qed.
