(* C18/Model.v -- executable model of the compression-related code of gocql:
     frame.go    newFramer (407-437), trace/payload (492-499), writeHeader (724-750), setLength (752-762),
                 finish (764-788), the header flags each request writer passes (834, 850, 1435, 1583, 1621,
                 1672, 1752, 1765), readHeader (443-489), readFrame (502-540)
     conn.go     startupCoordinator.options/startup/authenticateHandshake (432-523): the negotiation of the
                 compressor against the SUPPORTED frame, and Conn.exec's framer construction (1041, 1062)
     lz4/lz4.go  LZ4Compressor.Encode/Decode (55-83): Cassandra's 4-byte big-endian length prefix
   The compression algorithms themselves (snappy, the LZ4 block codec) are NOT modelled: a compressor is a
   record of two functions; theorems quantify over it.  Definitions only; proofs live in Proofs.v. *)
From GocqlV Require Import Lib.Base Gen.Consts.

(* ---- outcomes ---------------------------------------------------------------------------- *)
(* Err e : an error value the Go code returns.  Crash : a Go panic that nothing recovers
   (finish: panic("compress flag set with no compressor")). *)
Inductive errc :=
| EFrameTooBig      (* ErrFrameTooBig *)
| EEncode           (* the error Compressor.Encode returned *)
| EDecode           (* the error Compressor.Decode returned *)
| ENoCompressor     (* ErrProtocol "no compressor available with compressed frame body" *)
| ENegLength        (* "frame body length can not be less than 0" *)
| EDiscard          (* "error whilst trying to discard frame with invalid length" *)
| EShortBody        (* "unable to read frame body" *)
| EHeaderRead       (* io error (EOF / unexpected EOF) while reading the header *)
| EBadVersion.      (* "unsupported protocol response version" *)

Inductive res (A : Type) := Ok (a : A) | Err (e : errc) | Crash.
Arguments Ok {A} a.
Arguments Err {A} e.
Arguments Crash {A}.

(* ---- compressors ------------------------------------------------------------------------- *)
(* Compressor interface: Name, Encode, Decode; None = the call returned an error. *)
Record codec := mkCodec {
  c_name : list Z;
  c_enc : bytes -> option bytes;
  c_dec : bytes -> option bytes }.

(* compressor.go:44 "snappy", lz4/lz4.go:46 "lz4" (not package-level constants: checked by the harness) *)
Definition name_snappy : list Z := [115; 110; 97; 112; 112; 121].
Definition name_lz4 : list Z := [108; 122; 52].

(* ---- framer ------------------------------------------------------------------------------ *)
Record framer := mkFramer {
  f_proto : Z;              (* version & protoVersionMask *)
  f_flags : Z;              (* outgoing header flags *)
  f_comp : option codec;    (* compres; None = nil *)
  f_head : nat }.           (* headSize *)

Definition has_flag (x fl : Z) : bool := Z.land x fl =? fl.        (* x&fl == fl *)

(* newFramer(compressor, version) *)
Definition new_framer (comp : option codec) (version : Z) : framer :=
  let flags0 := match comp with Some _ => Z.lor 0 K.flagCompress | None => 0 end in
  let flags := if version =? K.protoVersion5 then Z.lor flags0 K.flagBetaProtocol else flags0 in
  let v := Z.land version K.protoVersionMask in
  mkFramer v flags comp (if v >? K.protoVersion2 then 9%nat else 8%nat).

Definition with_flags (f : framer) (fl : Z) : framer := mkFramer (f_proto f) fl (f_comp f) (f_head f).
Definition trace (f : framer) : framer := with_flags f (Z.lor (f_flags f) K.flagTracing).
Definition payload (f : framer) : framer := with_flags f (Z.lor (f_flags f) K.flagCustomPayload).

(* writeHeader(flags, op, stream): flags and op are bytes; stream is an int *)
Definition write_header (f : framer) (flags op stream : Z) : bytes :=
  [f_proto f; flags]
  ++ (if f_proto f >? K.protoVersion2 then [byte_of (Z.shiftr stream 8); byte_of stream] else [byte_of stream])
  ++ [byte_of op; 0; 0; 0; 0].

(* setLength(length): f.buf[p+i] = byte(length >> (24-8i)) *)
Definition set_length (f : framer) (buf : bytes) (len : Z) : bytes :=
  let p := if f_proto f >? K.protoVersion2 then 5%nat else 4%nat in
  upd (upd (upd (upd buf p (byte_of (Z.shiftr len 24))) (p + 1) (byte_of (Z.shiftr len 16)))
           (p + 2) (byte_of (Z.shiftr len 8))) (p + 3) (byte_of len).

Definition blen (b : bytes) : Z := Z.of_nat (length b).

(* finish(), on the buffer writeHeader and the body writers left in f.buf *)
Definition finish (f : framer) (buf : bytes) : res bytes :=
  if blen buf >? K.maxFrameSize then Err EFrameTooBig
  else if has_flag (nth 1 buf 0) K.flagCompress then
    match f_comp f with
    | None => Crash
    | Some c =>
        match c_enc c (skipn (f_head f) buf) with
        | None => Err EEncode
        | Some z =>
            let buf' := firstn (f_head f) buf ++ z in
            Ok (set_length f buf' (blen buf' - Z.of_nat (f_head f)))
        end
    end
  else Ok (set_length f buf (blen buf - Z.of_nat (f_head f))).

(* header + body + finish, with explicit header flags (what every request writer does) *)
Definition build (f : framer) (hflags op stream : Z) (body : bytes) : res bytes :=
  finish f (write_header f hflags op stream ++ body).

(* ---- request kinds ------------------------------------------------------------------------ *)
Inductive reqkind := RStartup | ROptions | RPrepare | RAuthResponse | RQuery | RExecute | RBatch | RRegister.

Definition opcode (k : reqkind) : Z :=
  match k with
  | RStartup => K.opStartup | ROptions => K.opOptions | RPrepare => K.opPrepare
  | RAuthResponse => K.opAuthResponse | RQuery => K.opQuery | RExecute => K.opExecute
  | RBatch => K.opBatch | RRegister => K.opRegister
  end.

(* the writers that call f.payload() when a custom payload is present *)
Definition takes_payload (k : reqkind) : bool :=
  match k with RPrepare | RQuery | RExecute | RBatch => true | _ => false end.

(* the flags argument of writeHeader: f.flags&^flagCompress for STARTUP and OPTIONS, f.flags otherwise *)
Definition header_flags (f : framer) (k : reqkind) : Z :=
  match k with
  | RStartup | ROptions => Z.ldiff (f_flags f) K.flagCompress
  | _ => f_flags f
  end.

(* buildFrame of a request of kind k whose serialised body is [body]; pl: a custom payload is present *)
Definition build_request (f : framer) (k : reqkind) (pl : bool) (stream : Z) (body : bytes) : res bytes :=
  let f' := if pl && takes_payload k then payload f else f in
  build f' (header_flags f' k) (opcode k) stream body.

(* Conn.exec: framer := newFramer(c.compressor, c.version); if tracer != nil { framer.trace() }; buildFrame *)
Definition exec_frame (comp : option codec) (version : Z) (tr : bool) (k : reqkind) (pl : bool)
           (stream : Z) (body : bytes) : res bytes :=
  let f := new_framer comp version in
  build_request (if tr then trace f else f) k pl stream body.

(* ---- reading ------------------------------------------------------------------------------ *)
Record head := mkHead { h_version : Z; h_flags : Z; h_stream : Z; h_op : Z; h_length : Z }.

Definition be32_val (b : bytes) : Z :=
  nth 0 b 0 * 2 ^ 24 + nth 1 b 0 * 2 ^ 16 + nth 2 b 0 * 2 ^ 8 + nth 3 b 0.

(* readHeader on the byte stream r: the parsed header and the rest of the stream *)
Definition read_header (r : bytes) : res (head * bytes) :=
  match r with
  | [] => Err EHeaderRead
  | p0 :: r1 =>
      let version := Z.land p0 K.protoVersionMask in
      if (version <? K.protoVersion1) || (version >? K.protoVersion5) then Err EBadVersion
      else
        let hs := if version <? K.protoVersion3 then 8%nat else 9%nat in
        if (length r1 <? hs - 1)%nat then Err EHeaderRead
        else
          let p := p0 :: firstn (hs - 1) r1 in
          let rest := skipn (hs - 1) r1 in
          if version >? K.protoVersion2 then
            (* int(int16(p[2])<<8 | int16(p[3])), frameOp(p[4]), int(readInt(p[5:])) *)
            Ok (mkHead p0 (nth 1 p 0) (signed 16 (nth 2 p 0 * 256 + nth 3 p 0)) (nth 4 p 0)
                       (signed 32 (be32_val (skipn 5 p))), rest)
          else
            Ok (mkHead p0 (nth 1 p 0) (signed 8 (nth 2 p 0)) (nth 3 p 0)
                       (signed 32 (be32_val (skipn 4 p))), rest)
  end.

(* the length checks of readFrame against a reader that can deliver [avail] more bytes *)
Definition read_len_check (len avail : Z) : option errc :=
  if len <? 0 then Some ENegLength
  else if len >? K.maxFrameSize then (if avail <? len then Some EDiscard else Some EFrameTooBig)
  else if avail <? len then Some EShortBody
  else None.

(* readFrame(r, head): the framer's buffer afterwards *)
Definition read_frame (f : framer) (hflags len : Z) (r : bytes) : res bytes :=
  match read_len_check len (blen r) with
  | Some e => Err e
  | None =>
      let buf := firstn (Z.to_nat len) r in
      if has_flag hflags K.flagCompress then
        match f_comp f with
        | None => Err ENoCompressor
        | Some c => match c_dec c buf with None => Err EDecode | Some b => Ok b end
        end
      else Ok buf
  end.

(* recv: header, then a fresh framer with the connection's compressor reads the body *)
Definition recv_frame (comp : option codec) (version : Z) (r : bytes) : res (head * bytes) :=
  match read_header r with
  | Ok (h, rest) =>
      match read_frame (new_framer comp version) (h_flags h) (h_length h) rest with
      | Ok b => Ok (h, b)
      | Err e => Err e
      | Crash => Crash
      end
  | Err e => Err e
  | Crash => Crash
  end.

(* ---- negotiation (conn.go:446-466) ---------------------------------------------------------- *)
(* SUPPORTED is a Go map[string][]string: an association list with distinct keys *)
Definition smap := list (list Z * list (list Z)).

Fixpoint lookup (k : list Z) (m : smap) : list (list Z) :=
  match m with
  | [] => []
  | (k', v) :: m' => if zlist_eqb k k' then v else lookup k m'
  end.

Definition key_COMPRESSION : list Z := [67; 79; 77; 80; 82; 69; 83; 83; 73; 79; 78].

(* for _, compressor := range comp { if compressor == name { m["COMPRESSION"] = compressor; break } } *)
Fixpoint first_match (name : list Z) (l : list (list Z)) : option (list Z) :=
  match l with
  | [] => None
  | s :: l' => if zlist_eqb s name then Some s else first_match name l'
  end.

(* result: the COMPRESSION option put into STARTUP (None = absent), and s.conn.compressor afterwards *)
Definition negotiate (comp : option codec) (supported : smap) : option (list Z) * option codec :=
  match comp with
  | None => (None, None)
  | Some c =>
      match first_match (c_name c) (lookup key_COMPRESSION supported) with
      | Some s => (Some s, Some c)
      | None => (None, None)
      end
  end.

(* ---- the connection as far as compression is concerned ------------------------------------- *)
Inductive phase := PInit | PAwaitSupported | PAwaitReady | PAuth | PReady | PFailed.

Record conn := mkConn {
  k_comp : option codec;        (* c.compressor *)
  k_version : Z;                (* c.version *)
  k_phase : phase;
  k_adv : list (list Z) }.      (* ghost: the COMPRESSION list of the SUPPORTED frame startup() saw *)

Definition conn_init (comp : option codec) (version : Z) : conn := mkConn comp version PInit [].

Inductive label :=
| LSendOptions (stream : Z)                           (* options(): exec(OPTIONS) *)
| LSupported (sup : smap) (stream : Z) (body : bytes) (* SUPPORTED arrived: startup(): negotiation, exec(STARTUP);
                                                         body = writeStringMap(m) in Go's map order *)
| LReady                                              (* READY *)
| LAuthenticate (stream : Z) (body : bytes)           (* AUTHENTICATE: exec(AUTH_RESPONSE) *)
| LAuthChallenge (stream : Z) (body : bytes)          (* AUTH_CHALLENGE: exec(AUTH_RESPONSE) *)
| LAuthSuccess                                        (* AUTH_SUCCESS *)
| LFail                                               (* ERROR / unexpected frame / i/o error: startup fails *)
| LExec (k : reqkind) (tr pl : bool) (stream : Z) (body : bytes).   (* Conn.exec on a started connection *)

(* what reaches the wire: the request kind, the frame (or the error/crash of buildFrame), and for STARTUP
   the value of its COMPRESSION option *)
Record emitted := mkEmitted { e_kind : reqkind; e_frame : res bytes; e_startup_comp : option (list Z) }.

Definition with_phase (s : conn) (p : phase) : conn := mkConn (k_comp s) (k_version s) p (k_adv s).

Definition step (s : conn) (l : label) : option (conn * list emitted) :=
  match k_phase s, l with
  | PInit, LSendOptions stream =>
      Some (with_phase s PAwaitSupported,
            [mkEmitted ROptions (exec_frame (k_comp s) (k_version s) false ROptions false stream []) None])
  | PAwaitSupported, LSupported sup stream body =>
      let '(opt, comp') := negotiate (k_comp s) sup in
      Some (mkConn comp' (k_version s) PAwaitReady (lookup key_COMPRESSION sup),
            [mkEmitted RStartup (exec_frame comp' (k_version s) false RStartup false stream body) opt])
  | PAwaitReady, LReady => Some (with_phase s PReady, [])
  | PAwaitReady, LAuthenticate stream body =>
      Some (with_phase s PAuth,
            [mkEmitted RAuthResponse (exec_frame (k_comp s) (k_version s) false RAuthResponse false stream body) None])
  | PAuth, LAuthChallenge stream body =>
      Some (s, [mkEmitted RAuthResponse (exec_frame (k_comp s) (k_version s) false RAuthResponse false stream body) None])
  | PAuth, LAuthSuccess => Some (with_phase s PReady, [])
  | PReady, LExec k tr pl stream body =>
      Some (s, [mkEmitted k (exec_frame (k_comp s) (k_version s) tr k pl stream body) None])
  | PFailed, _ => None
  | _, LFail => Some (with_phase s PFailed, [])
  | _, _ => None
  end.

Fixpoint run_conn (s : conn) (ls : list label) : option (conn * list emitted) :=
  match ls with
  | [] => Some (s, [])
  | l :: ls' =>
      match step s l with
      | None => None
      | Some (s', out) =>
          match run_conn s' ls' with
          | None => None
          | Some (s'', out') => Some (s'', out ++ out')
          end
      end
  end.

(* ---- LZ4Compressor: Cassandra's length prefix around the raw block codec ---------------------- *)
(* binary.BigEndian.PutUint32(buf, uint32(n)) *)
Definition be32 (n : Z) : bytes :=
  [byte_of (Z.shiftr n 24); byte_of (Z.shiftr n 16); byte_of (Z.shiftr n 8); byte_of n].

(* lz4.CompressBlockBound (pierrec/lz4 v4 internal/lz4block/block.go:40; checked by the harness) *)
Definition lz4_bound (n : Z) : Z := n + n / 255 + 16.

(* rawenc data: CompressBlock(data, buf[4:]) -> the n bytes written, None = error.
   rawdec src n: UncompressBlock(src, make([]byte, n)) -> buf[:m], None = error. *)
Definition lz4_encode (rawenc : bytes -> option bytes) (data : bytes) : option bytes :=
  match rawenc data with
  | None => None
  | Some blk => Some (be32 (blen data) ++ blk)
  end.

(* n, err := lz4.UncompressBlock(data[4:], buf); if err == nil && uint32(n) != uncompressedLength { error }
   (0 <= n <= len(buf) < 2^32, so uint32(n) is n; a decoder returning more than it was asked for would make
   buf[:n] panic in Go and is an error here) *)
Definition lz4_checked (rawdec : bytes -> Z -> option bytes) (src : bytes) (n : Z) : option bytes :=
  match rawdec src n with
  | Some out => if blen out =? n then Some out else None
  | None => None
  end.

Definition lz4_decode (rawdec : bytes -> Z -> option bytes) (data : bytes) : option bytes :=
  if (length data <? 4)%nat then None
  else
    let n := be32_val data in
    if n =? 0 then Some []
    else lz4_checked rawdec (skipn 4 data) n.

Definition lz4_codec (rawenc : bytes -> option bytes) (rawdec : bytes -> Z -> option bytes) : codec :=
  mkCodec name_lz4 (lz4_encode rawenc) (lz4_decode rawdec).

(* ---- SnappyCompressor -------------------------------------------------------------------------------- *)
(* snappy.DecodedLen = binary.Uvarint of the block's preamble: little-endian base 128, at most 10 bytes for a
   uint64 (overflow => error), then v > 0xffffffff => error.  None = ErrCorrupt.  (Library code: modelled only
   to state what the length header of a snappy body is; checked against the library by the harness.) *)
Fixpoint uvarint (fuel : nat) (src : bytes) (x s : Z) : option Z :=
  match fuel, src with
  | O, _ => None                                   (* i == MaxVarintLen64: overflow *)
  | _, [] => None                                  (* buffer too small *)
  | S fuel', b :: src' =>
      if b <? 128 then
        (if (fuel' =? 0)%nat && (b >? 1) then None  (* i == 9 && b > 1: overflow *)
         else Some (Z.lor x (Z.shiftl b s)))
      else uvarint fuel' src' (Z.lor x (Z.shiftl (Z.land b 127) s)) (s + 7)
  end.

Definition snappy_decoded_len (src : bytes) : option Z :=
  match uvarint 10 src 0 0 with
  | Some v => if v >? 4294967295 then None else Some v
  | None => None
  end.

(* SnappyCompressor.Encode / Decode are the library's Encode / Decode *)
Definition snappy_codec (libenc libdec : bytes -> option bytes) : codec := mkCodec name_snappy libenc libdec.

(* ---- small concrete compressors (mirrored one to one in the harness; also used as witnesses) -- *)
Definition ident_codec : codec := mkCodec [105; 100] (fun b => Some b) (fun b => Some b).

(* 4-byte big-endian length, then the data; Decode checks the length *)
Definition prefix_codec : codec :=
  mkCodec [112; 102; 120]
    (fun b => Some (be32 (blen b) ++ b))
    (fun z => if (length z <? 4)%nat then None
              else if be32_val z =? blen (skipn 4 z) then Some (skipn 4 z) else None).

(* reversed data followed by the byte 0xAB *)
Definition rev_codec : codec :=
  mkCodec [114; 101; 118]
    (fun b => Some (rev b ++ [171]))
    (fun z => match rev z with
              | 171 :: r => Some r
              | _ => None
              end).

(* Encode always fails / Decode always fails *)
Definition failenc_codec : codec := mkCodec [102; 101] (fun _ => None) (fun b => Some b).
Definition faildec_codec : codec := mkCodec [102; 100] (fun b => Some b) (fun _ => None).
