(* C18/Spec.v -- independent specification, written from the CQL native protocol specification
   (v1-v5: section 2 "Frame header", 2.2 "flags", 4.1.1 STARTUP, 4.1.3 OPTIONS, 4.2.4 SUPPORTED,
   5 "Compression"), from Cassandra's frame compressors (org.apache.cassandra.transport.FrameCompressor:
   LZ4Compressor writes the uncompressed length as 4 big-endian bytes before the block and asks the
   decompressor for exactly that many bytes) and from the LZ4 block format description
   (lz4_Block_format.md) -- NOT from the Go code.  No gocql constant is used here. *)
From GocqlV Require Import Lib.Base.

Definition size (b : bytes) : Z := Z.of_nat (length b).

(* ---- integers on the wire: big-endian ------------------------------------------------------ *)
Definition be (bs : bytes) : Z := fold_left (fun acc b => acc * 256 + b) bs 0.
Definition be_bytes2 (n : Z) : bytes := [n / 2 ^ 8 mod 256; n mod 256].
Definition be_bytes4 (n : Z) : bytes := [n / 2 ^ 24 mod 256; n / 2 ^ 16 mod 256; n / 2 ^ 8 mod 256; n mod 256].

(* ---- section 2: the frame -------------------------------------------------------------------
      0         8        16        24        32         40
      +---------+---------+---------+---------+---------+
      | version |  flags  |      stream       | opcode  |      (v3+; in v1 and v2 the stream is one byte)
      +---------+---------+---------+---------+---------+
      |                length                 |
      +---------+---------+---------+---------+
      |           ...  body ...               |
   version: bit 7 is the direction (0 request, 1 response), the low 7 bits the protocol version. *)
Record view := mkView { v_version : Z; v_flags : Z; v_stream : Z; v_opcode : Z; v_body : bytes }.

Definition proto_of (version : Z) : Z := version mod 128.
Definition stream_width (version : Z) : nat := if proto_of version <? 3 then 1%nat else 2%nat.

(* the stream id as the unsigned number its bytes spell *)
Definition stream_bytes (version stream : Z) : bytes :=
  if proto_of version <? 3 then [stream mod 256] else be_bytes2 stream.

Definition encode_frame (version flags stream opcode : Z) (wire_body : bytes) : bytes :=
  [version; flags] ++ stream_bytes version stream ++ [opcode] ++ be_bytes4 (size wire_body) ++ wire_body.

(* exactly one frame *)
Definition parse_frame (w : bytes) : option view :=
  match w with
  | version :: flags :: rest =>
      let sw := stream_width version in
      if (length rest <? sw + 5)%nat then None
      else
        let body := skipn (sw + 5) rest in
        if be (firstn 4 (skipn (sw + 1) rest)) =? size body
        then Some (mkView version flags (be (firstn sw rest)) (nth sw rest 0) body)
        else None
  | _ => None
  end.

(* ---- section 2.2 / 5: the compression flag ---------------------------------------------------
   "0x01: Compression flag. If set, the frame body is compressed. The actual compression to use
    should have been set up beforehand through the Startup message (which thus cannot be compressed)." *)
Definition compressed (flags : Z) : bool := Z.odd flags.

(* what the receiving peer takes the body to be, given its decompressor *)
Definition peer_body (dec : bytes -> option bytes) (v : view) : option bytes :=
  if compressed (v_flags v) then dec (v_body v) else Some (v_body v).

(* what a conforming sender puts on the wire for a body *)
Definition peer_frame (enc : bytes -> option bytes) (version flags stream opcode : Z) (body : bytes) : option bytes :=
  if compressed flags then
    match enc body with
    | Some z => Some (encode_frame version flags stream opcode z)
    | None => None
    end
  else Some (encode_frame version flags stream opcode body).

(* ---- 4.1.1 / 4.2.4: negotiation ----------------------------------------------------------------
   STARTUP may carry COMPRESSION = one of the algorithms the server listed under COMPRESSION in
   SUPPORTED; without it no frame may be compressed. *)
Definition allowed_choice (advertised : list (list Z)) (choice : option (list Z)) : Prop :=
  match choice with
  | None => True
  | Some s => In s advertised
  end.

Definition op_startup : Z := 1.
Definition op_options : Z := 5.

(* ---- Cassandra's LZ4 frame compressor ------------------------------------------------------------ *)
(* exact n src: the block decoder asked for exactly n output bytes (lz4-java's fast decompressor) *)
Definition cass_lz4_compress (block : bytes) (body : bytes) : bytes := be_bytes4 (size body) ++ block.
Definition cass_lz4_decompress (exact : bytes -> Z -> option bytes) (z : bytes) : option bytes :=
  if (length z <? 4)%nat then None else exact (skipn 4 z) (be (firstn 4 z)).

(* ---- the LZ4 block format -------------------------------------------------------------------------
   A block is a series of sequences.  Sequence = token (high nibble: literal length, low nibble: match
   length - 4; a nibble of 15 is continued by bytes that are added until one is not 255), the literals,
   a 2-byte little-endian offset (1..65535, into the output produced so far) and the match-length
   continuation; the match may overlap the bytes it produces.  The last sequence ends after its literals. *)
Fixpoint ext_len (src : bytes) (acc : Z) : option (Z * bytes) :=
  match src with
  | [] => None
  | b :: src' => if b =? 255 then ext_len src' (acc + 255) else Some (acc + b, src')
  end.

Definition nibble_len (nib : Z) (src : bytes) : option (Z * bytes) :=
  if nib =? 15 then ext_len src 15 else Some (nib, src).

(* out_rev: the output so far, last byte first *)
Fixpoint copy_match (n : nat) (off : nat) (out_rev : bytes) : bytes :=
  match n with
  | O => out_rev
  | S n' => copy_match n' off (nth (off - 1) out_rev 0 :: out_rev)
  end.

Fixpoint lz4_sequences (fuel : nat) (src : bytes) (out_rev : bytes) : option bytes :=
  match fuel with
  | O => None
  | S fuel' =>
      match src with
      | [] => None
      | tok :: src1 =>
          match nibble_len (tok / 16) src1 with
          | None => None
          | Some (ll, src2) =>
              if size src2 <? ll then None
              else
                let out1 := rev (firstn (Z.to_nat ll) src2) ++ out_rev in
                match skipn (Z.to_nat ll) src2 with
                | [] => Some (rev out1)
                | [_] => None
                | o0 :: o1 :: src4 =>
                    let off := o0 + 256 * o1 in
                    if (off =? 0) || (size out1 <? off) then None
                    else
                      match nibble_len (tok mod 16) src4 with
                      | None => None
                      | Some (ml, src5) =>
                          lz4_sequences fuel' src5 (copy_match (Z.to_nat (ml + 4)) (Z.to_nat off) out1)
                      end
                end
          end
      end
  end.

Definition lz4_block_decode (src : bytes) : option bytes := lz4_sequences (S (length src)) src [].

(* a decoder given an output buffer of n bytes: fails when the data does not fit *)
Definition lz4_block_decode_into (src : bytes) (n : Z) : option bytes :=
  match lz4_block_decode src with
  | Some out => if size out <=? n then Some out else None
  | None => None
  end.

(* ... and the exact variant Cassandra uses *)
Definition lz4_block_decode_exact (src : bytes) (n : Z) : option bytes :=
  match lz4_block_decode src with
  | Some out => if size out =? n then Some out else None
  | None => None
  end.

(* ---- the same decoder with every read made explicit ---------------------------------------------------
   SOob = a read outside the block (literals) or outside the output produced so far (match source).  The
   decoder's own checks are kept; Proofs3.v shows that they make SOob unreachable and that this decoder and
   the one above agree on every input. *)
Inductive sres := SOk (out : bytes) | SErr | SOob.

Definition take_exact (n : nat) (l : bytes) : option bytes :=
  if (length l <? n)%nat then None else Some (firstn n l).

Fixpoint copy_match_strict (n : nat) (off : nat) (out_rev : bytes) : option bytes :=
  match n with
  | O => Some out_rev
  | S n' =>
      if (off =? 0)%nat then None
      else match nth_error out_rev (off - 1) with
           | Some b => copy_match_strict n' off (b :: out_rev)
           | None => None
           end
  end.

Fixpoint lz4_sequences_strict (fuel : nat) (src : bytes) (out_rev : bytes) : sres :=
  match fuel with
  | O => SErr
  | S fuel' =>
      match src with
      | [] => SErr
      | tok :: src1 =>
          match nibble_len (tok / 16) src1 with
          | None => SErr
          | Some (ll, src2) =>
              if size src2 <? ll then SErr
              else
                match take_exact (Z.to_nat ll) src2 with
                | None => SOob
                | Some lit =>
                    let out1 := rev lit ++ out_rev in
                    match skipn (Z.to_nat ll) src2 with
                    | [] => SOk (rev out1)
                    | [_] => SErr
                    | o0 :: o1 :: src4 =>
                        let off := o0 + 256 * o1 in
                        if (off =? 0) || (size out1 <? off) then SErr
                        else
                          match nibble_len (tok mod 16) src4 with
                          | None => SErr
                          | Some (ml, src5) =>
                              match copy_match_strict (Z.to_nat (ml + 4)) (Z.to_nat off) out1 with
                              | None => SOob
                              | Some out2 => lz4_sequences_strict fuel' src5 out2
                              end
                          end
                    end
                end
          end
      end
  end.
