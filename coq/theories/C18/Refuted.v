(* C18/Refuted.v -- regression facts about a defect that has been repaired.

   lz4-length-prefix-unchecked (fixed): before the fix LZ4Compressor.Decode handed the block decoder a buffer
   of the declared size and returned however many bytes were produced ([lz4_decode_prefix] below is that
   pre-fix function).  With the block decoder the LZ4 format defines (Spec.lz4_block_decode_into: decode the
   block, fail only when the output does not fit) a body whose prefix declares 10 bytes but whose block holds
   the single literal 'a' was accepted as "a".  The repaired Decode (Model.lz4_decode) rejects it, as
   Cassandra's decoder does; the unconditional theorem is Props.C18_lz4_declared_length, and the harness
   replays exactly these bytes against the real LZ4Compressor on every run. *)
From GocqlV Require Import Lib.Base Gen.Consts C18.Model C18.Spec.

Definition witness_body : bytes := [0; 0; 0; 10; 16; 97].

(* Decode as it was before the fix *)
Definition lz4_decode_prefix (rawdec : bytes -> Z -> option bytes) (data : bytes) : option bytes :=
  if (length data <? 4)%nat then None
  else
    let n := be32_val data in
    if n =? 0 then Some []
    else rawdec (skipn 4 data) n.

Theorem prefix_lz4_declared_length_refuted :
  exists rawdec data out,
    lz4_decode_prefix rawdec data = Some out /\ be (firstn 4 data) <> size out.
Proof.
  exists lz4_block_decode_into, witness_body, [97].
  split; [vm_compute; reflexivity | vm_compute; discriminate].
Qed.

(* regression: the repaired Decode rejects the witness, directly and as a compressed response body *)
Example witness_rejected_after_fix :
  lz4_decode lz4_block_decode_into witness_body = None
  /\ read_frame (new_framer (Some (lz4_codec (fun _ => None) lz4_block_decode_into)) 4) K.flagCompress
       (blen witness_body) witness_body = Err EDecode
  /\ cass_lz4_decompress lz4_block_decode_exact witness_body = None.
Proof. repeat split; vm_compute; reflexivity. Qed.

(* the uint32 conversion of the prefix: a 2^32-byte body would be written with prefix 0 and read back as
   empty.  Outside the property's quantifier (frames are limited to 256 MB); shows that the size hypothesis
   of the lz4 theorems is needed. *)
Lemma lz4_prefix_wraps : be32 (2 ^ 32) = [0; 0; 0; 0].
Proof. vm_compute. reflexivity. Qed.

(* lz4-offset-zero-accepted (open; third-party library): the LZ4 format rejects a match with offset 0; the
   library accepts it (the harness replays these bytes on the real LZ4Compressor: data, no error).  No theorem
   of Props.v is affected: they quantify over the block codec and take its round-trip law as a premise. *)
Definition witness_offset_zero : bytes :=
  [0; 0; 0; 60; 31; 142; 0; 0; 18; 0; 2; 0; 0; 2; 0; 224] ++ repeat 142 14.

Example lz4_offset_zero_rejected_by_format :
  lz4_block_decode (skipn 4 witness_offset_zero) = None
  /\ lz4_decode lz4_block_decode_into witness_offset_zero = None.
Proof. split; vm_compute; reflexivity. Qed.
