(* C18/Refuted.v -- full statements the faithful model (= the real code) violates: machine-checked witnesses.

   lz4-length-prefix-unchecked: LZ4Compressor.Decode hands the block decoder a buffer of the declared size
   and returns however many bytes were produced.  With the block decoder the LZ4 format defines
   (Spec.lz4_block_decode_into: decode the block, fail only when the output does not fit) a body whose
   prefix declares 10 bytes but whose block holds the single literal 'a' is accepted as "a", although the
   declared length says it is corrupt; Cassandra's decoder (exact length) rejects the same bytes.
   The harness reproduces exactly this input on the real LZ4Compressor (known finding). *)
From GocqlV Require Import Lib.Base Gen.Consts C18.Model C18.Spec.

Definition witness_body : bytes := [0; 0; 0; 10; 16; 97].

Theorem lz4_declared_length_refuted :
  exists rawdec data out,
    lz4_decode rawdec data = Some out /\ be (firstn 4 data) <> size out.
Proof.
  exists lz4_block_decode_into, witness_body, [97].
  split; [vm_compute; reflexivity | vm_compute; discriminate].
Qed.

(* the same bytes as a response frame: readFrame returns the one-byte body without error *)
Theorem corrupt_lz4_body_accepted_refuted :
  exists c r b, c_name c = name_lz4 /\
    read_frame (new_framer (Some c) 4) K.flagCompress (blen r) r = Ok b /\ be (firstn 4 r) <> size b.
Proof.
  exists (lz4_codec (fun _ => None) lz4_block_decode_into), witness_body, [97].
  split; [reflexivity|]. split; [vm_compute; reflexivity | vm_compute; discriminate].
Qed.

(* Cassandra's own decoder rejects the witness *)
Example cassandra_rejects_witness : cass_lz4_decompress lz4_block_decode_exact witness_body = None.
Proof. vm_compute. reflexivity. Qed.

(* the uint32 conversion of the prefix: a 2^32-byte body would be written with prefix 0 and read back as
   empty.  Outside the property's quantifier (frames are limited to 256 MB); shows that the size hypothesis
   of the lz4 theorems is needed. *)
Lemma lz4_prefix_wraps : be32 (2 ^ 32) = [0; 0; 0; 0].
Proof. vm_compute. reflexivity. Qed.
