(* C18/Proofs3.v -- safety of the LZ4 block-format decoder of Spec.v (no round trip involved): the output of a
   block is at most 255 times as long as the block, and the decoder never reads outside the block or outside
   the output produced so far. *)
From GocqlV Require Import Lib.Base Lib.Bits Gen.Consts C18.Model C18.Spec C18.Proofs.

Arguments Z.mul : simpl never.
Arguments Z.add : simpl never.
Arguments Z.div : simpl never.
Arguments Z.modulo : simpl never.
Arguments Z.of_nat : simpl never.
Arguments Z.to_nat : simpl never.

Lemma size_cons (b : Z) (l : bytes) : size (b :: l) = 1 + size l.
Proof. unfold size. cbn [length]. lia. Qed.

Lemma size_nonneg (l : bytes) : 0 <= size l.
Proof. unfold size. lia. Qed.

Lemma size_app (a b : bytes) : size (a ++ b) = size a + size b.
Proof. unfold size. rewrite app_length. lia. Qed.

Lemma wf_cons_inv b (l : bytes) : wf_bytes (b :: l) -> 0 <= b < 256 /\ wf_bytes l.
Proof. intros H. inversion H. split; assumption. Qed.

(* the 255-continuation: consumes at least one byte, adds at most 255 per byte consumed *)
Lemma ext_len_bound : forall src acc v src', wf_bytes src -> ext_len src acc = Some (v, src') ->
  wf_bytes src' /\ size src' < size src /\ acc <= v <= acc + 255 * (size src - size src').
Proof.
  induction src as [|b src IH]; intros acc v src' Hwf H; [discriminate|].
  cbn [ext_len] in H. destruct (wf_cons_inv _ _ Hwf) as [Hb Hwf']. rewrite size_cons.
  destruct (b =? 255) eqn:E.
  - destruct (IH _ _ _ Hwf' H) as [H1 [H2 H3]]. split; [exact H1|]. split; lia.
  - inversion H; subst. split; [exact Hwf'|]. split; lia.
Qed.

Lemma nibble_len_bound nib src v src' : wf_bytes src -> 0 <= nib <= 15 -> nibble_len nib src = Some (v, src') ->
  wf_bytes src' /\ size src' <= size src /\ 0 <= v <= 15 + 255 * (size src - size src').
Proof.
  intros Hwf Hn H. unfold nibble_len in H. destruct (nib =? 15) eqn:E.
  - destruct (ext_len_bound _ _ _ _ Hwf H) as [H1 [H2 H3]]. split; [exact H1|]. split; lia.
  - inversion H; subst. split; [exact Hwf|]. split; lia.
Qed.

Lemma copy_match_length n : forall off out, length (copy_match n off out) = (n + length out)%nat.
Proof. induction n as [|n IH]; intros off out; cbn [copy_match]; [reflexivity|]. rewrite IH. cbn [length]. lia. Qed.

Lemma nibbles_of_byte t : 0 <= t < 256 -> 0 <= t / 16 <= 15 /\ 0 <= t mod 16 <= 15.
Proof. intros. lia. Qed.

Lemma lz4_sequences_bound : forall fuel src out_rev out, wf_bytes src ->
  lz4_sequences fuel src out_rev = Some out -> size out <= size out_rev + 255 * size src.
Proof.
  induction fuel as [|fuel IH]; intros src out_rev out Hwf H; [discriminate|].
  cbn [lz4_sequences] in H. destruct src as [|tok src1]; [discriminate|].
  destruct (wf_cons_inv _ _ Hwf) as [Ht Hwf1]. destruct (nibbles_of_byte tok Ht) as [Hhi Hlo].
  destruct (nibble_len (tok / 16) src1) as [[ll src2]|] eqn:E1; [|discriminate].
  destruct (nibble_len_bound _ _ _ _ Hwf1 Hhi E1) as [Hwf2 [Hs2 Hll]].
  destruct (size src2 <? ll) eqn:E2; [discriminate|]. apply Z.ltb_ge in E2.
  assert (Hlit : size (firstn (Z.to_nat ll) src2) = ll).
  { unfold size in *. rewrite firstn_length. lia. }
  assert (Hrest : size (skipn (Z.to_nat ll) src2) = size src2 - ll).
  { unfold size in *. rewrite skipn_length. lia. }
  assert (Hwf3 : wf_bytes (skipn (Z.to_nat ll) src2)) by (apply wf_skipn; exact Hwf2).
  rewrite size_cons.
  destruct (skipn (Z.to_nat ll) src2) as [|o0 [|o1 src4]] eqn:E3; [| discriminate |].
  - inversion H; subst out. unfold size at 1. rewrite rev_length. fold (size (rev (firstn (Z.to_nat ll) src2) ++ out_rev)).
    rewrite size_app. unfold size at 1. rewrite rev_length. fold (size (firstn (Z.to_nat ll) src2)). rewrite Hlit.
    pose proof (size_nonneg src2). change (size []) with 0 in Hrest. lia.
  - destruct ((o0 + 256 * o1 =? 0) || (size (rev (firstn (Z.to_nat ll) src2) ++ out_rev) <? o0 + 256 * o1)); [discriminate|].
    destruct (wf_cons_inv _ _ Hwf3) as [_ Hwf3']. destruct (wf_cons_inv _ _ Hwf3') as [_ Hwf4].
    destruct (nibble_len (tok mod 16) src4) as [[ml src5]|] eqn:E4; [|discriminate].
    destruct (nibble_len_bound _ _ _ _ Hwf4 Hlo E4) as [Hwf5 [Hs5 Hml]].
    specialize (IH _ _ _ Hwf5 H).
    assert (Hcm : size (copy_match (Z.to_nat (ml + 4)) (Z.to_nat (o0 + 256 * o1)) (rev (firstn (Z.to_nat ll) src2) ++ out_rev))
                  = ml + 4 + ll + size out_rev).
    { unfold size in *. rewrite copy_match_length, app_length, rev_length. lia. }
    rewrite Hcm in IH. rewrite !size_cons in Hrest. pose proof (size_nonneg src5). lia.
Qed.

(* the output of a block is at most 255 times as long as the block *)
Lemma lz4_block_bound_lemma src out : wf_bytes src -> lz4_block_decode src = Some out -> size out <= 255 * size src.
Proof.
  intros Hwf H. unfold lz4_block_decode in H. pose proof (lz4_sequences_bound _ _ _ _ Hwf H) as B.
  change (size []) with 0 in B. lia.
Qed.

(* ---- the decoder never reads outside the block or the output ------------------------------------------------ *)
Lemma copy_match_strict_ok n : forall off out, (1 <= off <= length out)%nat ->
  copy_match_strict n off out = Some (copy_match n off out).
Proof.
  induction n as [|n IH]; intros off out Hoff; cbn [copy_match_strict copy_match]; [reflexivity|].
  replace (off =? 0)%nat with false by (symmetry; apply Nat.eqb_neq; lia).
  destruct (nth_error out (off - 1)) as [b|] eqn:E.
  - rewrite (nth_error_nth _ _ 0 E). apply IH. cbn [length]. lia.
  - apply nth_error_None in E. lia.
Qed.

Lemma take_exact_ok n (l : bytes) : (n <= length l)%nat -> take_exact n l = Some (firstn n l).
Proof. intros H. unfold take_exact. replace (length l <? n)%nat with false by (symmetry; apply Nat.ltb_ge; exact H). reflexivity. Qed.

Definition sres_of (o : option bytes) : sres := match o with Some out => SOk out | None => SErr end.

Lemma lz4_strict_agrees : forall fuel src out_rev, wf_bytes src ->
  lz4_sequences_strict fuel src out_rev = sres_of (lz4_sequences fuel src out_rev).
Proof.
  induction fuel as [|fuel IH]; intros src out_rev Hwf; [reflexivity|].
  cbn [lz4_sequences_strict lz4_sequences]. destruct src as [|tok src1]; [reflexivity|].
  destruct (wf_cons_inv _ _ Hwf) as [Ht Hwf1]. destruct (nibbles_of_byte tok Ht) as [Hhi Hlo].
  destruct (nibble_len (tok / 16) src1) as [[ll src2]|] eqn:E1; [|reflexivity].
  destruct (nibble_len_bound _ _ _ _ Hwf1 Hhi E1) as [Hwf2 [_ Hll]].
  destruct (size src2 <? ll) eqn:E2; [reflexivity|]. apply Z.ltb_ge in E2.
  rewrite take_exact_ok by (unfold size in E2; lia).
  assert (Hwf3 : wf_bytes (skipn (Z.to_nat ll) src2)) by (apply wf_skipn; exact Hwf2).
  destruct (skipn (Z.to_nat ll) src2) as [|o0 [|o1 src4]]; [reflexivity | reflexivity |].
  destruct (wf_cons_inv _ _ Hwf3) as [Ho0 Hwf3']. destruct (wf_cons_inv _ _ Hwf3') as [Ho1 Hwf4].
  destruct ((o0 + 256 * o1 =? 0) || (size (rev (firstn (Z.to_nat ll) src2) ++ out_rev) <? o0 + 256 * o1)) eqn:E3; [reflexivity|].
  apply orb_false_iff in E3. destruct E3 as [E3 E4]. apply Z.eqb_neq in E3. apply Z.ltb_ge in E4.
  destruct (nibble_len (tok mod 16) src4) as [[ml src5]|] eqn:E5; [|reflexivity].
  destruct (nibble_len_bound _ _ _ _ Hwf4 Hlo E5) as [Hwf5 _].
  rewrite copy_match_strict_ok by (unfold size in E4; lia).
  apply IH. exact Hwf5.
Qed.

(* no block makes the decoder read outside the block or outside the output produced so far *)
Lemma lz4_no_oob_lemma fuel src out_rev : wf_bytes src -> lz4_sequences_strict fuel src out_rev <> SOob.
Proof. intros Hwf. rewrite lz4_strict_agrees by exact Hwf. destruct (lz4_sequences fuel src out_rev); discriminate. Qed.
