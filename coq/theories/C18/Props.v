(* C18/Props.v -- the proof obligations for property C18 (compression is transparent and only used as
   negotiated), and nothing else.  Each is closed by [exact] of a lemma from Proofs.v / Proofs2.v and
   followed by Print Assumptions.

   Reading guide.  Model side (C18/Model.v, a transcription of frame.go / conn.go / lz4/lz4.go):
     build f h op s body          writeHeader(h, op, s); body; finish()     (Crash = the explicit panic)
     exec_frame comp v tr k pl .. Conn.exec: newFramer(comp, v), optional trace()/payload(), buildFrame of kind k
     read_frame / recv_frame      readFrame / readHeader + readFrame
     negotiate, step, run_conn    startup()'s choice against SUPPORTED; the connection as a transition system
     lz4_encode / lz4_decode      LZ4Compressor around an arbitrary block codec (rawenc, rawdec)
   Specification side (C18/Spec.v, written from the protocol specification and Cassandra's format):
     encode_frame / parse_frame   the frame layout;  compressed flags = bit 0x01;  peer_body = what the receiver
     decodes;  peer_frame = what a conforming sender writes;  cass_lz4_* = Cassandra's lz4 framing.
   The compression algorithms are NOT modelled: every theorem quantifies over the compressor (a record of
   two functions); the round-trip law appears as the explicit premises [roundtrips] / [raw_roundtrips]. *)
From GocqlV Require Import Lib.Base Gen.Consts C18.Model C18.Spec C18.Proofs C18.Proofs2 C18.Proofs3.

(* finish(), characterised for every framer the code can build, every header flag byte, opcode, stream and
   body: the body is replaced by the compressor's output exactly when the header's compress flag is set,
   the result is the specification's frame layout with the length of what is actually sent, and nothing
   else about the framer matters.  (Compress flag without compressor: the explicit panic.) *)
Theorem C18_flag_iff_compressed : forall f h op s body, wf_framer f -> is_byte op ->
  build f h op s body =
  if blen (write_header f h op s ++ body) >? K.maxFrameSize then Err EFrameTooBig
  else if compressed h then
    match f_comp f with
    | None => Crash
    | Some c => match c_enc c body with
                | None => Err EEncode
                | Some z => Ok (encode_frame (f_proto f) h s op z)
                end
    end
  else Ok (encode_frame (f_proto f) h s op body).
Proof. exact build_spec. Qed.
Print Assumptions C18_flag_iff_compressed.

(* OPTIONS and STARTUP are never compressed: whatever compressor the connection has, whatever version,
   with or without tracing, the frame on the wire has the compress bit clear and carries the body as is. *)
Theorem C18_options_startup_plain : forall comp version tr pl k stream body w,
  is_startup_or_options k = true ->
  exec_frame comp version tr k pl stream body = Ok w ->
  exists v, parse_frame w = Some v /\ compressed (v_flags v) = false /\ v_body v = body /\ v_opcode v = opcode k.
Proof. exact options_startup_plain_lemma. Qed.
Print Assumptions C18_options_startup_plain.

(* Every other request kind is compressed exactly when the connection has a compressor: the compress bit
   is set iff a compressor is configured, and then the wire body is the compressor's output for the body
   (the premise size z < 2^32 only lets the specification's parser read the length field back). *)
Theorem C18_requests_compressed_iff_configured : forall comp version tr pl k stream body w,
  is_startup_or_options k = false ->
  exec_frame comp version tr k pl stream body = Ok w ->
  match comp with
  | None => exists v, parse_frame w = Some v /\ v_opcode v = opcode k /\ compressed (v_flags v) = false /\ v_body v = body
  | Some c => exists z, c_enc c body = Some z /\
                (size z < 2 ^ 32 ->
                 exists v, parse_frame w = Some v /\ v_opcode v = opcode k /\ compressed (v_flags v) = true /\ v_body v = z)
  end.
Proof. exact other_requests_lemma. Qed.
Print Assumptions C18_requests_compressed_iff_configured.

(* finish's panic("compress flag set with no compressor") cannot be reached through Conn.exec. *)
Theorem C18_exec_never_panics : forall comp version tr k pl stream body,
  exec_frame comp version tr k pl stream body <> Crash.
Proof. exact exec_no_crash. Qed.
Print Assumptions C18_exec_never_panics.

(* Transparency, write side: for any header flags, what the peer decodes from the bytes finish produced is the
   body, byte for byte.  Premises: the compressor returns the body it was given (for this body), and its
   output fits the 32-bit length field. *)
Theorem C18_transparent : forall f h op s body w c,
  wf_framer f -> is_byte op -> f_comp f = Some c -> roundtrips c body -> fits32 c body ->
  build f h op s body = Ok w ->
  exists v, parse_frame w = Some v /\ v_version v = f_proto f /\ v_flags v = h /\ v_opcode v = op
            /\ v_stream v = stream_on_wire (f_proto f) s /\ peer_body (c_dec c) v = Some body.
Proof. exact build_transparent_lemma. Qed.
Print Assumptions C18_transparent.

(* ... and for the requests of a connection (any compressor or none, any kind, version, tracing, payload). *)
Theorem C18_transparent_requests : forall comp version tr k pl stream body w,
  (forall c, comp = Some c -> roundtrips c body /\ fits32 c body) ->
  exec_frame comp version tr k pl stream body = Ok w ->
  exists v, parse_frame w = Some v /\ v_opcode v = opcode k /\ peer_body (dec_of comp) v = Some body.
Proof. exact exec_transparent_lemma. Qed.
Print Assumptions C18_transparent_requests.

(* Transparency, read side: a response a conforming server builds from [body] (compressed iff it sets the
   flag), followed by anything, is read by readHeader + readFrame as exactly [body]. *)
Theorem C18_response_transparent : forall c fv version flags stream opcode body w more,
  1 <= version <= 5 ->
  roundtrips c body ->
  (forall z, c_enc c body = Some z -> size z <= K.maxFrameSize) -> size body <= K.maxFrameSize ->
  peer_frame (c_enc c) (128 + version) flags stream opcode body = Some w ->
  exists h, recv_frame (Some c) fv (w ++ more) = Ok (h, body) /\ h_flags h = flags /\ h_op h = opcode.
Proof. exact response_transparent_lemma. Qed.
Print Assumptions C18_response_transparent.

(* readFrame decompresses exactly when the header's flag is set: it returns a body iff the length is
   admissible and available and the body is the decompression (flag set) resp. the bytes read (flag clear). *)
Theorem C18_read_decompresses_iff_flag : forall f hflags len r b,
  read_frame f hflags len r = Ok b <->
  (0 <= len <= K.maxFrameSize /\ len <= blen r /\
   if compressed hflags
   then exists c, f_comp f = Some c /\ c_dec c (firstn (Z.to_nat len) r) = Some b
   else b = firstn (Z.to_nat len) r).
Proof. exact read_frame_ok_iff. Qed.
Print Assumptions C18_read_decompresses_iff_flag.

(* A compressed response on a connection without a compressor is an error - for every length and every
   byte stream; never data, never a crash - and it is the protocol error when the frame itself is well formed. *)
Theorem C18_compressed_without_compressor_is_error : forall f hflags len r,
  f_comp f = None -> compressed hflags = true ->
  (exists e, read_frame f hflags len r = Err e)
  /\ (0 <= len <= K.maxFrameSize -> len <= blen r -> read_frame f hflags len r = Err ENoCompressor).
Proof. exact no_compressor_lemma. Qed.
Print Assumptions C18_compressed_without_compressor_is_error.

(* A body the decompressor rejects yields an error; readFrame itself never crashes. *)
Theorem C18_corrupt_body_is_error : forall f hflags len r,
  read_frame f hflags len r <> Crash
  /\ forall c, f_comp f = Some c -> compressed hflags = true ->
       c_dec c (firstn (Z.to_nat len) r) = None -> exists e, read_frame f hflags len r = Err e.
Proof. intros f hflags len r. split; [apply read_frame_no_crash | intros c; apply corrupt_lemma]. Qed.
Print Assumptions C18_corrupt_body_is_error.

(* The negotiation decision, completely: COMPRESSION is put into STARTUP and the compressor kept exactly
   when the configured compressor's name is in SUPPORTED's COMPRESSION list; otherwise the option is absent
   and the connection has no compressor from then on. *)
Theorem C18_negotiation_decision : forall comp sup,
  match comp with
  | None => negotiate comp sup = (None, None)
  | Some c =>
      (In (c_name c) (advertised sup) -> negotiate comp sup = (Some (c_name c), Some c))
      /\ (~ In (c_name c) (advertised sup) -> negotiate comp sup = (None, None))
  end.
Proof. exact negotiate_lemma. Qed.
Print Assumptions C18_negotiation_decision.

(* The STARTUP frame's COMPRESSION option is one the server advertised (Spec.allowed_choice), it is the
   configured compressor's name, and the connection keeps a compressor iff the option was sent. *)
Theorem C18_startup_option_allowed : forall s sup stream body s' out,
  step s (LSupported sup stream body) = Some (s', out) ->
  exists fr opt, out = [mkEmitted RStartup fr opt] /\ allowed_choice (advertised sup) opt
    /\ (forall n, opt = Some n -> exists c, k_comp s = Some c /\ n = c_name c /\ k_comp s' = Some c)
    /\ (opt = None -> k_comp s' = None).
Proof. exact startup_option_lemma. Qed.
Print Assumptions C18_startup_option_allowed.

(* A compressor is used only if the server advertised it: in every run of the connection (any number of
   steps, any interleaving of startup, authentication and requests the startup coordinator allows), every
   frame that leaves with the compress bit set is neither OPTIONS nor STARTUP, and the run contains the
   SUPPORTED frame whose COMPRESSION list names the configured compressor. *)
Theorem C18_only_if_advertised : forall comp version ls s out,
  run_conn (conn_init comp version) ls = Some (s, out) ->
  forall e w, In e out -> e_frame e = Ok w -> compressed (nth 1 w 0) = true ->
    is_startup_or_options (e_kind e) = false
    /\ exists c sup stream body, comp = Some c /\ In (LSupported sup stream body) ls /\ In (c_name c) (advertised sup).
Proof. exact only_if_advertised_lemma. Qed.
Print Assumptions C18_only_if_advertised.

(* lz4: the encoding is Cassandra's - 4 bytes big-endian uncompressed length, then the block. *)
Theorem C18_lz4_prefix_law : forall rawenc data z, size data < 2 ^ 32 ->
  lz4_encode rawenc data = Some z ->
  exists blk, rawenc data = Some blk /\ z = cass_lz4_compress blk data
              /\ be (firstn 4 z) = size data /\ skipn 4 z = blk.
Proof. exact lz4_prefix_law_lemma. Qed.
Print Assumptions C18_lz4_prefix_law.

(* lz4, empty bodies: a zero prefix decodes to the empty body whatever follows, and the empty body survives
   Encode/Decode without any assumption on the block codec; bodies too short for a prefix are errors. *)
Theorem C18_lz4_empty : forall rawenc rawdec,
  (forall rest, lz4_decode rawdec ([0; 0; 0; 0] ++ rest) = Some [])
  /\ (forall z, lz4_encode rawenc [] = Some z -> lz4_decode rawdec z = Some [])
  /\ (forall data, (length data < 4)%nat -> lz4_decode rawdec data = None).
Proof.
  intros rawenc rawdec. split; [exact (lz4_zero_prefix_lemma rawdec)|].
  split; [exact (lz4_empty_lemma rawenc rawdec) | exact (lz4_short_lemma rawdec)].
Qed.
Print Assumptions C18_lz4_empty.

(* lz4: the wrapper satisfies the round-trip law whenever the block codec does (for that body), so the
   transparency theorems apply to it; and its output fits the length field. *)
Theorem C18_lz4_roundtrip : forall rawenc rawdec data, size data < 2 ^ 32 ->
  raw_roundtrips rawenc rawdec data -> roundtrips (lz4_codec rawenc rawdec) data.
Proof. exact lz4_roundtrip_lemma. Qed.
Print Assumptions C18_lz4_roundtrip.

Theorem C18_lz4_fits : forall rawenc rawdec data, size data <= K.maxFrameSize ->
  (forall blk, rawenc data = Some blk -> size blk <= lz4_bound (size data)) ->
  forall z, c_enc (lz4_codec rawenc rawdec) data = Some z -> size z <= 4 + lz4_bound (size data) /\ size z < 2 ^ 31.
Proof. exact lz4_fits_lemma. Qed.
Print Assumptions C18_lz4_fits.

(* lz4, interoperation with Cassandra's framing in both directions; and Decode IS Cassandra's decoder (the
   block decoder is asked for the declared number of bytes and must deliver exactly that many) whenever the
   prefix is not zero. *)
Theorem C18_lz4_cassandra_interop : forall rawenc rawdec exact data, size data < 2 ^ 32 ->
  (forall z blk, lz4_encode rawenc data = Some z -> rawenc data = Some blk ->
     cass_lz4_decompress exact z = exact blk (size data))
  /\ (forall blk, lz4_decode rawdec (cass_lz4_compress blk data)
                  = if size data =? 0 then Some [] else lz4_checked rawdec blk (size data))
  /\ (forall z, (4 <= length z)%nat -> be (firstn 4 z) <> 0 ->
         lz4_decode rawdec z = cass_lz4_decompress (lz4_checked rawdec) z).
Proof.
  intros rawenc rawdec exact data Hsz. split; [|split].
  - intros z blk Hz Hb. exact (cass_reads_gocql_lemma rawenc exact data z blk Hsz Hz Hb).
  - intros blk. exact (gocql_reads_cass_lemma rawdec blk data Hsz).
  - intros z. exact (lz4_decode_is_cassandra_lemma rawdec z).
Qed.
Print Assumptions C18_lz4_cassandra_interop.

(* lz4: the destination buffer Encode passes to CompressBlock (CompressBlockBound(len+4) bytes minus the 4
   prefix bytes) is at least CompressBlockBound(len), the size for which the library promises success. *)
Theorem C18_lz4_dst_bound : forall n, 0 <= n -> lz4_bound (n + 4) - 4 >= lz4_bound n.
Proof. exact lz4_dst_bound_lemma. Qed.
Print Assumptions C18_lz4_dst_bound.

(* lz4, corrupt bodies: an accepted body has exactly the length its prefix declares, whatever the block
   decoder does - Decode checks it.  (Before the fix lz4-length-prefix-unchecked this needed the premise that
   the block decoder returns exactly as many bytes as asked; Refuted.v keeps the pre-fix function and the
   witness as a regression fact.) *)
Theorem C18_lz4_declared_length : forall rawdec data out,
  lz4_decode rawdec data = Some out -> be (firstn 4 data) = size out.
Proof. exact lz4_declared_length_lemma. Qed.
Print Assumptions C18_lz4_declared_length.

(* The LZ4 block format itself (Spec.lz4_block_decode, the reference the harness compares the library with on
   corrupted blocks), for EVERY byte string, no round trip involved: the output is at most 255 times as long as
   the block, and the decoder with every read made explicit
   never reads outside the block or outside the output produced so far, and computes the same result. *)
Theorem C18_lz4_block_safe : forall src, wf_bytes src ->
  (forall out, lz4_block_decode src = Some out -> size out <= 255 * size src)
  /\ (forall fuel out_rev, lz4_sequences_strict fuel src out_rev <> SOob
                           /\ lz4_sequences_strict fuel src out_rev = sres_of (lz4_sequences fuel src out_rev)).
Proof.
  intros src Hwf. split.
  - intros out. exact (lz4_block_bound_lemma src out Hwf).
  - intros fuel out_rev. split; [exact (lz4_no_oob_lemma fuel src out_rev Hwf) | exact (lz4_strict_agrees fuel src out_rev Hwf)].
Qed.
Print Assumptions C18_lz4_block_safe.

(* ---- non-vacuity: the hypotheses above are satisfiable by concrete, non-trivial values (tests, by computation) -- *)
Example C18_nonvacuous_codecs :
  codec_law ident_codec /\ codec_law rev_codec
  /\ roundtrips prefix_codec [1; 2; 3] /\ fits32 prefix_codec [1; 2; 3]
  /\ wf_framer (new_framer (Some prefix_codec) 4) /\ wf_framer (trace (new_framer None 130)).
Proof.
  split; [intros b z H; inversion H; reflexivity|].
  split; [intros b z H; cbn in H; inversion H; subst; cbn; rewrite rev_app_distr, rev_involutive; reflexivity|].
  split; [intros z H; vm_compute in H; inversion H; subst; vm_compute; reflexivity|].
  split; [intros z H; vm_compute in H; inversion H; subst; vm_compute; reflexivity|].
  split; [apply new_framer_wf | apply trace_wf, new_framer_wf].
Qed.

(* a QUERY on a v4 connection with the prefix compressor: compressed on the wire, decoded back by the peer;
   the same connection's OPTIONS is plain; with inconsistent flags finish does panic (Crash is reachable in
   the model, so C18_exec_never_panics says something) *)
Example C18_nonvacuous_frames :
  exec_frame (Some prefix_codec) 4 false RQuery false 7 [10; 20; 30]
    = Ok [4; 1; 0; 7; 7; 0; 0; 0; 7; 0; 0; 0; 3; 10; 20; 30]
  /\ exec_frame (Some prefix_codec) 4 false ROptions false 7 [] = Ok [4; 0; 0; 7; 5; 0; 0; 0; 0]
  /\ build (new_framer None 4) 1 7 0 [1] = Crash
  /\ read_frame (new_framer None 4) 1 2 [1; 2] = Err ENoCompressor
  /\ peer_frame (c_enc prefix_codec) (128 + 4) 1 7 8 [10; 20; 30]
     = Some [132; 1; 0; 7; 8; 0; 0; 0; 7; 0; 0; 0; 3; 10; 20; 30]
  /\ recv_frame (Some prefix_codec) 4 [132; 1; 0; 7; 8; 0; 0; 0; 7; 0; 0; 0; 3; 10; 20; 30]
     = Ok (mkHead 132 1 7 8 7, [10; 20; 30]).
Proof. repeat split; vm_compute; reflexivity. Qed.

(* a run of the connection in which a compressed frame does leave: startup with a SUPPORTED that advertises
   the compressor, then a QUERY (so the conclusion of C18_only_if_advertised is not vacuous), and one where
   it is not advertised and the QUERY leaves uncompressed *)
Example C18_nonvacuous_run :
  let sup := [(key_COMPRESSION, [name_snappy; [112; 102; 120]])] in
  (exists s out, run_conn (conn_init (Some prefix_codec) 4)
                   [LSendOptions 1; LSupported sup 2 [0; 0]; LReady; LExec RQuery false false 3 [9; 9]] = Some (s, out)
                 /\ (exists e w, In e out /\ e_frame e = Ok w /\ compressed (nth 1 w 0) = true)
                 /\ option_map c_name (k_comp s) = Some [112; 102; 120])
  /\ (exists s out, run_conn (conn_init (Some rev_codec) 4)
                   [LSendOptions 1; LSupported sup 2 [0; 0]; LReady; LExec RQuery false false 3 [9; 9]] = Some (s, out)
                 /\ (forall e w, In e out -> e_frame e = Ok w -> compressed (nth 1 w 0) = false)
                 /\ k_comp s = None).
Proof.
  split.
  - eexists. eexists. split; [vm_compute; reflexivity|]. split; [|reflexivity].
    eexists. eexists. split; [right; right; left; reflexivity|]. split; vm_compute; reflexivity.
  - eexists. eexists. split; [vm_compute; reflexivity|]. split; [|reflexivity].
    intros e w [<- | [<- | [<- | []]]] H; vm_compute in H; inversion H; subst; reflexivity.
Qed.

(* lz4 with the block decoder of the LZ4 format (Spec.lz4_block_decode_into) and a stored-block encoder:
   the premises of C18_lz4_roundtrip hold for a concrete body *)
Example C18_nonvacuous_lz4 :
  let rawenc := fun b : bytes => Some ((Z.of_nat (length b) * 16) :: b) in   (* one token, literals only; bodies < 15 bytes *)
  raw_roundtrips rawenc lz4_block_decode_into [97; 98; 99]
  /\ lz4_encode rawenc [97; 98; 99] = Some [0; 0; 0; 3; 48; 97; 98; 99]
  /\ lz4_decode lz4_block_decode_into [0; 0; 0; 3; 48; 97; 98; 99] = Some [97; 98; 99].
Proof.
  split; [intros blk H; vm_compute in H; inversion H; subst; vm_compute; reflexivity|].
  split; vm_compute; reflexivity.
Qed.
