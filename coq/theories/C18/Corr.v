(* C18/Corr.v -- correspondence cases: each constructor carries an input and what the real
   implementation returned for it (through /repo/verif_shim_c18.go); [check] runs the model on the
   input and compares.

   Compressors: the harness implements the small compressors of Model.v (ident, prefix, rev, failenc,
   faildec) as Go types with identical behaviour, so that the model's output can be compared byte for
   byte.  For the real SnappyCompressor / LZ4Compressor the compression algorithm is not modelled: the
   harness calls the underlying library directly (snappy.Encode/Decode, lz4.CompressBlock/UncompressBlock,
   NOT gocql's wrappers) on the same data and passes the result as a finite table; the model then has to
   reproduce everything gocql adds around it (flag handling, header, length patch, lz4 length prefix). *)
From GocqlV Require Import Lib.Base Gen.Consts C18.Model C18.Spec.

Definition tab := list (bytes * option bytes).
Fixpoint tab_lookup (t : tab) (b : bytes) : option bytes :=
  match t with
  | [] => None
  | (k, v) :: t' => if zlist_eqb k b then v else tab_lookup t' b
  end.

Definition tab2 := list (bytes * Z * option bytes).
Fixpoint tab2_lookup (t : tab2) (b : bytes) (n : Z) : option bytes :=
  match t with
  | [] => None
  | (k, m, v) :: t' => if zlist_eqb k b && (m =? n) then v else tab2_lookup t' b n
  end.

Inductive ckind :=
| KNone | KIdent | KPrefix | KRev | KFailEnc | KFailDec
| KTable (name : list Z) (enc dec : tab)          (* real snappy through its library *)
| KLz4 (rawenc : tab) (rawdec : tab2).            (* real lz4 block codec through its library *)

Definition codec_of (k : ckind) : option codec :=
  match k with
  | KNone => None
  | KIdent => Some ident_codec
  | KPrefix => Some prefix_codec
  | KRev => Some rev_codec
  | KFailEnc => Some failenc_codec
  | KFailDec => Some faildec_codec
  | KTable name enc dec => Some (mkCodec name (tab_lookup enc) (tab_lookup dec))
  | KLz4 rawenc rawdec => Some (lz4_codec (tab_lookup rawenc) (tab2_lookup rawdec))
  end.

Inductive case :=
| CNewFramer (ck : ckind) (version : Z) (tr pl : bool) (proto flags : Z) (hs : nat) (hascomp : bool)
| CFinish (ck : ckind) (version hflags op stream : Z) (body : bytes) (out : res bytes)
| CBuild (ck : ckind) (version : Z) (tr : bool) (k : reqkind) (pl : bool) (stream : Z) (body : bytes) (out : res bytes)
| CFinishBig (n : Z) (toobig : bool)
| CReadHeader (wire : bytes) (out : res (list Z * nat))   (* [version; flags; stream; op; length], bytes consumed *)
| CReadFrame (ck : ckind) (version hflags len : Z) (wire : bytes) (out : res bytes)
| CReadLen (len avail : Z) (out : option errc)
| CRecv (ck : ckind) (version : Z) (wire : bytes) (out : res bytes)
| CConn (ck : ckind) (version : Z) (ls : list label) (obs : list (reqkind * bytes * option (list Z)))
        (final : option (option (list Z)))    (* c.compressor's name after startup; None = not observed *)
| CLz4Enc (data : bytes) (raw : option bytes) (out : option bytes)
| CLz4Dec (data : bytes) (raw : option bytes) (out : option bytes)
| CLz4Bound (n b : Z)
| CLz4Corrupt (data : bytes) (out : option bytes)        (* LZ4Compressor.Decode on a corrupted real body: an error, or
                                                            exactly what the LZ4 format (Spec.v) says the bytes mean *)
| CLz4Invalid (data : bytes)                              (* a body the harness claims the LZ4 format rejects (known finding
                                                            lz4-offset-zero-accepted): the format decoder must reject it *)
| CSnappyLen (src : bytes) (out : option Z)              (* snappy.DecodedLen *)
| CSnappyDec (data : bytes) (lib : option bytes) (out : option bytes)   (* SnappyCompressor.Decode; lib = snappy.Decode directly *)
| CLz4Block (blk : bytes) (n : Z) (out : option bytes)   (* the library's UncompressBlock on a block its compressor made,
                                                            against the block decoder of Spec.v (the LZ4 format) *)
| CName (which : Z) (name : list Z).

Definition errc_eqb (a b : errc) : bool :=
  match a, b with
  | EFrameTooBig, EFrameTooBig | EEncode, EEncode | EDecode, EDecode | ENoCompressor, ENoCompressor
  | ENegLength, ENegLength | EDiscard, EDiscard | EShortBody, EShortBody | EHeaderRead, EHeaderRead
  | EBadVersion, EBadVersion => true
  | _, _ => false
  end.

Definition res_eqb {A} (eqb : A -> A -> bool) (a b : res A) : bool :=
  match a, b with
  | Ok x, Ok y => eqb x y
  | Err e, Err e' => errc_eqb e e'
  | Crash, Crash => true
  | _, _ => false
  end.

Definition reqkind_eqb (a b : reqkind) : bool :=
  match a, b with
  | RStartup, RStartup | ROptions, ROptions | RPrepare, RPrepare | RAuthResponse, RAuthResponse
  | RQuery, RQuery | RExecute, RExecute | RBatch, RBatch | RRegister, RRegister => true
  | _, _ => false
  end.

Definition head_fields (h : head) : list Z := [h_version h; h_flags h; h_stream h; h_op h; h_length h].

Fixpoint obs_eqb (out : list emitted) (obs : list (reqkind * bytes * option (list Z))) : bool :=
  match out, obs with
  | [], [] => true
  | e :: out', (k, w, sc) :: obs' =>
      reqkind_eqb (e_kind e) k && res_eqb zlist_eqb (e_frame e) (Ok w)
      && opt_eqb zlist_eqb (e_startup_comp e) sc && obs_eqb out' obs'
  | _, _ => false
  end.

Definition apply_tr_pl (f : framer) (tr pl : bool) : framer :=
  let f1 := if tr then trace f else f in if pl then payload f1 else f1.

Definition check (c : case) : bool :=
  match c with
  | CNewFramer ck version tr pl proto flags hs hascomp =>
      let f := apply_tr_pl (new_framer (codec_of ck) version) tr pl in
      (f_proto f =? proto) && (f_flags f =? flags) && (f_head f =? hs)%nat
      && Bool.eqb (match f_comp f with Some _ => true | None => false end) hascomp
  | CFinish ck version hflags op stream body out =>
      res_eqb zlist_eqb (build (new_framer (codec_of ck) version) hflags op stream body) out
  | CBuild ck version tr k pl stream body out =>
      res_eqb zlist_eqb (exec_frame (codec_of ck) version tr k pl stream body) out
  | CFinishBig n toobig => Bool.eqb (n >? K.maxFrameSize) toobig
  | CReadHeader wire out =>
      match read_header wire, out with
      | Ok (h, rest), Ok (fs, used) => zlist_eqb (head_fields h) fs && (length wire - length rest =? used)%nat
      | Err e, Err e' => errc_eqb e e'
      | _, _ => false
      end
  | CReadFrame ck version hflags len wire out =>
      res_eqb zlist_eqb (read_frame (new_framer (codec_of ck) version) hflags len wire) out
  | CReadLen len avail out =>
      match read_len_check len avail, out with
      | Some e, Some e' => errc_eqb e e'
      | None, None => true
      | _, _ => false
      end
  | CRecv ck version wire out =>
      match recv_frame (codec_of ck) version wire, out with
      | Ok (_, b), Ok b' => zlist_eqb b b'
      | Err e, Err e' => errc_eqb e e'
      | Crash, Crash => true
      | _, _ => false
      end
  | CConn ck version ls obs final =>
      match run_conn (conn_init (codec_of ck) version) ls with
      | Some (s, out) =>
          obs_eqb out obs
          && match final with
             | None => true
             | Some fin => opt_eqb zlist_eqb (match k_comp s with Some c => Some (c_name c) | None => None end) fin
             end
      | None => false
      end
  | CLz4Enc data raw out => opt_eqb zlist_eqb (lz4_encode (fun _ => raw) data) out
  | CLz4Dec data raw out => opt_eqb zlist_eqb (lz4_decode (fun _ _ => raw) data) out
  | CLz4Bound n b => lz4_bound n =? b
  | CLz4Corrupt data out =>
      match out with
      | None => true
      | Some o => opt_eqb zlist_eqb (lz4_decode lz4_block_decode_into data) (Some o)
      end
  | CLz4Invalid data =>
      match lz4_block_decode (skipn 4 data) with None => true | Some _ => false end
  | CSnappyLen src out => opt_eqb Z.eqb (snappy_decoded_len src) out
  | CSnappyDec data lib out => opt_eqb zlist_eqb (c_dec (snappy_codec (fun _ => None) (fun _ => lib)) data) out
  | CLz4Block blk n out => opt_eqb zlist_eqb (lz4_block_decode_into blk n) out
  | CName which name =>
      zlist_eqb (if which =? 0 then name_snappy else if which =? 1 then name_lz4 else key_COMPRESSION) name
  end.

Definition run (cs : list case) : list N := mismatches check cs.
