(* C05/Refuted.v -- the full statement "no byte string makes a decoder panic" is false for the code as it
   is: machine-checked witnesses, one per crash site (each replayed on the real code by the harness:
   tools/props/C05.findings.json), and two for the allocation claim. *)
From Coq Require Import String.
From GocqlV Require Import Lib.Base Gen.Consts C04.Model C05.Model.
Open Scope Z_scope.

(* EVENT STATUS_CHANGE "UP" with an inet of declared size 16 and two bytes: run-time panic in
   readInetAdressOnly, on the goroutine of Session.handleEvent (no recover there) *)
Definition w_event : bytes := [0; 13] ++ s2b "STATUS_CHANGE" ++ [0; 2; 85; 80; 16; 1; 2].
Theorem C05_parse_frame_safe_refuted_inet :
  wf_bytes w_event /\ out (parse_frame 4 132 0 K.opEvent) w_event = Crash CInetSlice.
Proof. split; [apply wf_bytesb_spec|]; vm_compute; reflexivity. Qed.

(* ERROR ReadFailure in protocol 5 whose reason map holds a short inet *)
Definition w_error5 : bytes := [0; 0; 19; 0; 0; 0; 0; 1; 0; 0; 0; 1; 0; 0; 0; 1; 0; 0; 0; 1; 4; 9].
Theorem C05_parse_frame_safe_refuted_error_map :
  wf_bytes w_error5 /\ out (parse_frame 5 133 0 K.opError) w_error5 = Crash CInetSlice.
Proof. split; [apply wf_bytesb_spec|]; vm_compute; reflexivity. Qed.

(* RESULT Prepared (protocol 4) with partition-key count -5: makeslice panic *)
Definition w_prepared : bytes := [0;0;0;4; 0;1;120; 0;0;0;0; 0;0;0;0; 255;255;255;251].
Theorem C05_parse_frame_safe_refuted_pk_count :
  wf_bytes w_prepared /\ out (parse_frame 4 132 0 K.opResult) w_prepared = Crash CPkeyMake.
Proof. split; [apply wf_bytesb_spec|]; vm_compute; reflexivity. Qed.

(* rows: one int column, three rows declared, one present: the second Iter.Scan panics in the caller *)
Definition w_rows_meta : rmeta :=
  {| m_flags := 0; m_paging := []; m_cols := [{| c_ks := [107]; c_table := [116]; c_name := [99]; c_type := TNative K.TypeInt [] |}];
     m_colcount := 1; m_actual := 1 |}.
Theorem C05_scan_safe_refuted_short_rows :
  iter_scans 2 w_rows_meta 3 1 {| it_pos := 0; it_err := None; it_buf := [0;0;0;4; 0;0;0;1] |}
  = [SRow [{| cell_type := TNative K.TypeInt []; cell_data := Some [0;0;0;1] |}]; SPanic CScanPanic].
Proof. vm_compute. reflexivity. Qed.

(* rows whose only column is a tuple without components: Scan indexes an empty destination list *)
Definition w_empty_tuple_meta : rmeta :=
  {| m_flags := 0; m_paging := []; m_cols := [{| c_ks := [107]; c_table := [116]; c_name := [99]; c_type := TTuple [] [] |}];
     m_colcount := 1; m_actual := 0 |}.
Theorem C05_scan_safe_refuted_empty_tuple :
  iter_scans 1 w_empty_tuple_meta 1 0 {| it_pos := 0; it_err := None; it_buf := [255;255;255;255] |} = [SPanic CScanDest].
Proof. vm_compute. reflexivity. Qed.

(* a tuple cell whose first component announces nine bytes and has one *)
Definition w_tuple_meta : rmeta :=
  {| m_flags := 0; m_paging := []; m_cols := [{| c_ks := [107]; c_table := [116]; c_name := [99]; c_type := TTuple [] [TNative K.TypeInt []] |}];
     m_colcount := 1; m_actual := 1 |}.
Theorem C05_scan_safe_refuted_tuple_field :
  iter_scans 1 w_tuple_meta 1 1 {| it_pos := 0; it_err := None; it_buf := [0;0;0;5; 0;0;0;9; 7] |} = [SPanic CTupleField].
Proof. vm_compute. reflexivity. Qed.

(* the Scanner API on a well-formed row of (tuple<int,int>, int): Scan indexes the row's two cells at 2 *)
Definition w_scanner_meta : rmeta :=
  {| m_flags := 0; m_paging := [];
     m_cols := [{| c_ks := [107]; c_table := [116]; c_name := [116]; c_type := TTuple [] [TNative K.TypeInt []; TNative K.TypeInt []] |};
                {| c_ks := [107]; c_table := [116]; c_name := [99]; c_type := TNative K.TypeInt [] |}];
     m_colcount := 2; m_actual := 3 |}.
Theorem C05_scanner_safe_refuted :
  scanner_steps 1 w_scanner_meta 1 3
    {| it_pos := 0; it_err := None; it_buf := [0;0;0;16; 0;0;0;4; 0;0;0;1; 0;0;0;4; 0;0;0;2; 0;0;0;4; 0;0;0;3] |}
  = [SPanic CScannerIdx].
Proof. vm_compute. reflexivity. Qed.

(* RowData / MapScan / SliceMap on a column of type map<blob, int> *)
Theorem C05_rowdata_safe_refuted :
  row_data [{| c_ks := []; c_table := []; c_name := [99];
               c_type := TColl K.TypeMap [] (Some (TNative K.TypeBlob [])) (TNative K.TypeInt []) |}] = Crash CMapKey.
Proof. vm_compute. reflexivity. Qed.

(* Unmarshal: list length 0xfffffffe; a date of two bytes; a UDT field longer than the value *)
Theorem C05_unmarshal_safe_refuted_list :
  unmarshal_new 4 (TColl K.TypeList [] None (TNative K.TypeInt [])) (Some [255;255;255;254]) = Crash CListNeg.
Proof. vm_compute. reflexivity. Qed.
Theorem C05_unmarshal_safe_refuted_date :
  unmarshal_new 4 (TNative K.TypeDate []) (Some [1; 2]) = Crash CDateShort.
Proof. vm_compute. reflexivity. Qed.
Theorem C05_unmarshal_safe_refuted_udt :
  unmarshal_new 4 (TUDT [] [107] [117] [([102], TNative K.TypeInt [])]) (Some [0;0;0;9; 7]) = Crash CTupleField.
Proof. vm_compute. reflexivity. Qed.

(* parseType: "A(" ; a bare CompositeType ; a bare ListType ; an unnamed collection parameter *)
Theorem C05_typestring_safe_refuted_index : parse_type (s2b "A(") = Crash CTypeIdx.
Proof. vm_compute. reflexivity. Qed.
Theorem C05_typestring_safe_refuted_composite : parse_type K.COMPOSITE_TYPE = Crash CTypeParams.
Proof. vm_compute. reflexivity. Qed.
Theorem C05_typestring_safe_refuted_list : parse_type K.LIST_TYPE = Crash CTypeParams.
Proof. vm_compute. reflexivity. Qed.
Theorem C05_typestring_safe_refuted_unnamed :
  parse_type (K.COMPOSITE_TYPE ++ s2b "(" ++ K.COLLECTION_TYPE ++ s2b "(X))") = Crash CTypeNilName.
Proof. vm_compute. reflexivity. Qed.

(* allocation: a linear bound with 64 bytes per received byte and 2 MiB of slack is violated by
   (a) 200 nested tuple types of arity 0xFFFF in an 821-byte RESULT body (about 200 MiB), and
   (b) a partition-key count of 2^22 in a 19-byte PREPARED body (32 MiB) *)
Definition nested_tuples (n : nat) : bytes := concat (repeat [0; 49; 255; 255] n).
Definition w_alloc_types : bytes :=
  [0;0;0;2; 0;0;0;0; 0;0;0;1] ++ [0;1;107; 0;1;116; 0;1;99] ++ nested_tuples 200.
Theorem C05_alloc_linear_refuted_nested_tuples :
  wf_bytes w_alloc_types /\ blen w_alloc_types = 821
  /\ cost (parse_frame 4 132 0 K.opResult) w_alloc_types > 64 * blen w_alloc_types + 2 * 1024 * 1024
  /\ cost (parse_frame 4 132 0 K.opResult) w_alloc_types > 200 * 1000 * 1000.
Proof. split; [apply wf_bytesb_spec; vm_compute; reflexivity|]. vm_compute. repeat split; reflexivity. Qed.

Definition w_alloc_pk : bytes := [0;0;0;4; 0;1;120; 0;0;0;0; 0;0;0;0; 0;64;0;0].
Theorem C05_alloc_linear_refuted_pk_count :
  wf_bytes w_alloc_pk /\ cost (parse_frame 4 132 0 K.opResult) w_alloc_pk > 64 * blen w_alloc_pk + 2 * 1024 * 1024.
Proof. split; [apply wf_bytesb_spec; vm_compute; reflexivity|]. vm_compute. reflexivity. Qed.
