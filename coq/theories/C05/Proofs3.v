(* C05/Proofs3.v -- row scanning, RowData and Unmarshal: the crash sites they can reach, and the
   shapes of type descriptor for which they reach none. *)
From GocqlV Require Import Lib.Base Gen.Consts C04.Model C04.Proofs1 C04.Proofs4 C05.Model C05.Proofs1.

Arguments Z.mul : simpl never.
Arguments Z.add : simpl never.
Arguments Z.pow : simpl never.
Arguments Z.of_nat : simpl never.
Arguments Z.to_nat : simpl never.
Arguments Z.ltb : simpl never.
Arguments Z.leb : simpl never.
Arguments Z.eqb : simpl never.
Arguments Z.gtb : simpl never.
Arguments Z.geb : simpl never.
Arguments Z.land : simpl never.

(* ---- Iter.Scan ---------------------------------------------------------------------------------------- *)
(* marshal.go readBytes after the caller's len(data) >= 4 test *)
Lemma tuple_read_bytes_guarded s b : wf_bytes b -> 4 <= blen b ->
  match out tuple_read_bytes b with
  | Ok (o, b') => wf_opt o /\ suffix_of b' b
  | Err _ => True
  | Crash c => In c s
  end.
Proof.
  intros Hb H4. unfold tuple_read_bytes. rewrite out_bind. unfold rbind. rewrite out_take_ok by lia.
  set (size := signed 32 (be_dec (firstn (Z.to_nat 4) b))). destruct (Z.ltb_spec size 0) as [Hn|Hn].
  - rewrite out_ret. split; [exact I|]. exists (Z.to_nat 4). reflexivity.
  - rewrite out_bind. unfold rbind. rewrite out_get_len.
    destruct (Z.ltb_spec (blen (skipn (Z.to_nat 4) b)) size) as [Hlt|Hge]; [exact I|].
    rewrite out_bind. unfold rbind. rewrite out_take_ok by lia. rewrite out_ret.
    split; [apply wf_firstn, wf_skipn, Hb|]. eapply suffix_trans; [exists (Z.to_nat size); reflexivity | exists (Z.to_nat 4); reflexivity].
Qed.

Lemma good_unmarshal_tuple_cells s elems : good s (fun _ => True) (unmarshal_tuple_cells elems).
Proof.
  induction elems as [|e elems IH]; cbn [unmarshal_tuple_cells]; [apply good_ret; exact I|].
  intros b Hb. rewrite out_bind. unfold rbind. rewrite out_get_len. rewrite out_bind. unfold rbind.
  destruct (Z.geb_spec (blen b) 4) as [H4|H4].
  - pose proof (tuple_read_bytes_guarded s b Hb H4) as G.
    destruct (out tuple_read_bytes b) as [[o b1]|er|c]; try assumption. destruct G as [_ Hs1].
    rewrite out_bind. unfold rbind. specialize (IH b1 (suffix_wf _ _ Hs1 Hb)).
    destruct (out (unmarshal_tuple_cells elems) b1) as [[cs b2]|er|c]; try assumption.
    rewrite out_ret. destruct IH as [_ Hs2]. split; [exact I | eapply suffix_trans; eassumption].
  - rewrite out_ret. rewrite out_bind. unfold rbind. specialize (IH b Hb).
    destruct (out (unmarshal_tuple_cells elems) b) as [[cs b2]|er|c]; assumption.
Qed.

Lemma good_on_cell {A} s (p : P A) data : wf_bytes data -> good s (fun _ => True) p -> good s (fun _ => True) (on_cell p data).
Proof.
  intros Hd Hp b Hb. rewrite out_on_cell. specialize (Hp data Hd).
  destruct (out p data) as [[a r]|e|c]; try assumption. split; [exact I | apply suffix_refl].
Qed.

Lemma good_read_column s : good s wf_opt read_column.
Proof. unfold read_column. apply good_read_bytes. Qed.

Lemma good_scan_cols s cols : forall avail, good s (fun _ => True) (scan_cols cols avail).
Proof.
  induction cols as [|c cols IH]; intros avail; cbn [scan_cols]; [apply good_ret; exact I|].
  eapply good_bind; [apply good_read_column|]. intros data Hd.
  destruct (avail <=? 0).
  { destruct (c_type c) as [typ cu|typ cu k e|cu elems|cu ks nm fs]; try apply good_fail.
    destruct elems; [apply IH | apply good_fail]. }
  destruct (c_type c) as [typ cu|typ cu k e|cu elems|cu ks nm fs];
    try (eapply good_bind; [apply IH|]; intros more _; apply good_ret; exact I).
  destruct (Z.of_nat (length elems) >? avail); [apply good_fail|].
  eapply good_bind.
  { apply good_on_cell; [destruct data; [exact Hd | constructor] | apply good_unmarshal_tuple_cells]. }
  intros cs _. eapply good_bind; [apply IH|]. intros more _. apply good_ret. exact I.
Qed.

Lemma good_scan_row s m ndest : good s (fun _ => True) (scan_row m ndest).
Proof. unfold scan_row. destruct (negb (ndest =? m_actual m)); [apply good_fail | apply good_scan_cols]. Qed.

(* a sequence of Scan calls never panics; the buffer stays a suffix *)
Definition no_panic (o : scan_out) : Prop := match o with SPanic _ => False | _ => True end.

Lemma iter_scans_safe k : forall m nrows ndest it, wf_bytes (it_buf it) ->
  Forall no_panic (iter_scans k m nrows ndest it).
Proof.
  induction k as [|k IH]; intros m nrows ndest it Hw; cbn [iter_scans]; [constructor|].
  unfold iter_scan. destruct (it_err it) as [e|].
  { constructor; [exact I | apply IH, Hw]. }
  destruct (it_pos it >=? nrows).
  { constructor; [exact I | apply IH, Hw]. }
  pose proof (good_scan_row [] m ndest (it_buf it) Hw) as G.
  destruct (out (scan_row m ndest) (it_buf it)) as [[cells b']|e|c].
  - destruct G as [_ Hs]. constructor; [exact I|]. apply IH. cbn [it_buf]. eapply suffix_wf; eassumption.
  - constructor; [exact I|]. apply IH. exact Hw.
  - destruct G.
Qed.

Section tinfo_induction.
  Variable Q : tinfo -> Prop.
  Hypothesis Hn : forall typ c, Q (TNative typ c).
  Hypothesis Hc : forall typ c k e, (forall k', k = Some k' -> Q k') -> Q e -> Q (TColl typ c k e).
  Hypothesis Ht : forall c es, Forall Q es -> Q (TTuple c es).
  Hypothesis Hu : forall c ks n fs, Forall (fun f => Q (snd f)) fs -> Q (TUDT c ks n fs).
  Fixpoint tinfo_ind2 (t : tinfo) : Q t :=
    match t with
    | TNative typ c => Hn typ c
    | TColl typ c k e =>
        Hc typ c k e (fun k' (E : k = Some k') =>
                        match k as k0 return (k0 = Some k' -> Q k') with
                        | Some k1 => fun E1 => match E1 in (_ = o) return (match o with Some x => Q x | None => True end) with
                                               | eq_refl => tinfo_ind2 k1 end
                        | None => fun E1 => match E1 in (_ = o) return (match o with Some x => Q x | None => True end) with
                                            | eq_refl => I end
                        end E) (tinfo_ind2 e)
    | TTuple c es =>
        Ht c es ((fix go (l : list tinfo) : Forall Q l :=
                    match l with [] => Forall_nil _ | e :: l' => Forall_cons e (tinfo_ind2 e) (go l') end) es)
    | TUDT c ks n fs =>
        Hu c ks n fs ((fix go (l : list (bytes * tinfo)) : Forall (fun f => Q (snd f)) l :=
                         match l with [] => Forall_nil _ | f :: l' => Forall_cons f (tinfo_ind2 (snd f)) (go l') end) fs)
    end.
End tinfo_induction.

(* goType never panics on the types readTypeInfo builds (a map with a key type Go cannot use is an error) *)
Lemma go_type_safe t : tinfo_ok t -> forall c, go_type t <> Crash c.
Proof.
  induction t as [typ cu | typ cu k e IHk IHe | cu es IH | cu ks n fs IH] using tinfo_ind2; intros Hok c Hc; cbn [go_type] in Hc.
  - destruct Hok as (H1 & H2 & H3 & H4 & H5).
    destruct (existsb (Z.eqb typ) comparable_natives); [discriminate|]. destruct (typ =? K.TypeBlob); [discriminate|].
    destruct (Z.eqb_spec typ K.TypeList); [contradiction|]. destruct (Z.eqb_spec typ K.TypeSet); [contradiction|].
    destruct (Z.eqb_spec typ K.TypeMap); [contradiction|]. destruct (Z.eqb_spec typ K.TypeTuple); [contradiction|].
    cbn [orb] in Hc. destruct (typ =? K.TypeUDT); discriminate.
  - destruct Hok as (Ht & Hk & He). destruct (Z.eqb_spec typ K.TypeMap) as [Em|Em].
    + destruct k as [k'|]; [|exfalso; apply Hk, Em]. destruct Hk as [_ Hk'].
      destruct (go_type k') as [kc|ek|ck] eqn:Ek.
      * destruct kc; [|discriminate]. destruct (go_type e) as [ec|ee|ce] eqn:Ee; try discriminate.
        inversion Hc; subst. eapply (IHe He). reflexivity.
      * discriminate.
      * inversion Hc; subst. eapply (IHk k' eq_refl Hk'). exact Ek.
    + destruct (go_type e) as [ec|ee|ce] eqn:Ee; try discriminate. inversion Hc; subst. eapply (IHe He). reflexivity.
  - discriminate.
  - discriminate.
Qed.

Lemma go_types_safe ts : Forall tinfo_ok ts -> forall c, go_types ts <> Crash c.
Proof.
  induction 1 as [|t ts Ht Hts IH]; intros c Hc; cbn [go_types] in Hc; [discriminate|].
  destruct (go_type t) as [x|e|c'] eqn:E; try discriminate; [eapply IH, Hc|]. eapply go_type_safe; eassumption.
Qed.

Lemma tinfo_ok_tuple cu es : tinfo_ok (TTuple cu es) <-> Forall tinfo_ok es.
Proof.
  cbn [tinfo_ok]. induction es as [|e es IH].
  - split; intros _; [constructor | exact I].
  - split.
    + intros [H1 H2]. constructor; [exact H1 | apply IH, H2].
    + intros H. inversion H; subst. split; [assumption | apply IH; assumption].
Qed.

Lemma row_data_safe cols : Forall (fun c => tinfo_ok (c_type c)) cols -> forall c, row_data cols <> Crash c.
Proof.
  induction 1 as [|cl cols Hc Hcols IH]; intros c Hcr; cbn [row_data] in Hcr; [discriminate|].
  destruct (c_type cl) as [typ cu|typ cu k e|cu es|cu ks n fs] eqn:Et.
  - destruct (go_type (TNative typ cu)) as [x|e0|c0] eqn:Eg; [| discriminate | eapply go_type_safe; eassumption].
    destruct (row_data cols) as [nm|e1|c1]; try discriminate. eapply IH. reflexivity.
  - destruct (go_type (TColl typ cu k e)) as [x|e0|c0] eqn:Eg; [| discriminate | eapply go_type_safe; eassumption].
    destruct (row_data cols) as [nm|e1|c1]; try discriminate. eapply IH. reflexivity.
  - destruct (go_types es) as [x|e0|c0] eqn:Eg; [| discriminate | eapply go_types_safe; [|eassumption]; apply (tinfo_ok_tuple cu); assumption].
    destruct (row_data cols) as [nm|e1|c1]; try discriminate. eapply IH. reflexivity.
  - destruct (go_type (TUDT cu ks n fs)) as [x|e0|c0] eqn:Eg; [| discriminate | eapply go_type_safe; eassumption].
    destruct (row_data cols) as [nm|e1|c1]; try discriminate. eapply IH. reflexivity.
Qed.

(* ---- the Scanner API ------------------------------------------------------------------------------------- *)
Lemma good_read_cells s cols : good s (fun cells => Forall wf_opt cells /\ length cells = length cols) (read_cells cols).
Proof.
  induction cols as [|c cols IH]; cbn [read_cells]; [apply good_ret; split; [constructor | reflexivity]|].
  eapply good_bind; [apply good_read_column|]. intros d Hd. eapply good_bind; [apply IH|]. intros ds [Hds Hl].
  apply good_ret. split; [constructor; assumption | simpl; rewrite Hl; reflexivity].
Qed.

Lemma scanner_cols_safe : forall cols cells avail c, Forall wf_opt cells -> length cells = length cols ->
  scanner_cols cols cells avail <> Crash c.
Proof.
  induction cols as [|cl cols IH]; intros cells avail c Hw Hl Hc; cbn [scanner_cols] in Hc; [discriminate|].
  destruct cells as [|data cells']; [simpl in Hl; discriminate|]. inversion Hw as [|? ? Hd Hw']; subst. simpl in Hl.
  assert (Hl' : length cells' = length cols) by lia.
  assert (Hdb : wf_bytes (opt_bytes data)) by (destruct data; [exact Hd | constructor]).
  destruct (avail <=? 0).
  { destruct (c_type cl) as [typ cu|typ cu k e|cu es|cu ks n fs]; try discriminate.
    destruct es; [eapply IH; eassumption | discriminate]. }
  destruct (c_type cl) as [typ cu|typ cu k e|cu es|cu ks n fs].
  1,2,4: destruct (scanner_cols cols cells' (avail - 1)) as [more|e0|c0] eqn:Er;
    try discriminate; inversion Hc; subst; eapply IH; eassumption.
  destruct (Z.of_nat (length es) >? avail); [discriminate|].
  pose proof (good_unmarshal_tuple_cells [] es (opt_bytes data) Hdb) as G.
  destruct (out (unmarshal_tuple_cells es) (opt_bytes data)) as [[cs r]|e0|c0].
  - destruct (scanner_cols cols cells' (avail - Z.of_nat (length es))) as [more|e1|c1] eqn:Er; try discriminate.
    inversion Hc; subst. eapply IH; eassumption.
  - discriminate.
  - destruct G.
Qed.

Lemma scanner_steps_safe k : forall m nrows ndest it, wf_bytes (it_buf it) ->
  Forall no_panic (scanner_steps k m nrows ndest it).
Proof.
  induction k as [|k IH]; intros m nrows ndest it Hw; cbn [scanner_steps]; [constructor|].
  unfold scanner_step. destruct (it_err it) as [e|].
  { constructor; [exact I | apply IH, Hw]. }
  destruct (it_pos it >=? nrows).
  { constructor; [exact I | apply IH, Hw]. }
  pose proof (good_read_cells [] (m_cols m) (it_buf it) Hw) as G.
  destruct (out (read_cells (m_cols m)) (it_buf it)) as [[cells b']|e|c].
  - destruct G as [[Hcells Hlen] Hs]. pose proof (suffix_wf _ _ Hs Hw) as Hw'.
    destruct (negb (ndest =? m_actual m)).
    { constructor; [exact I | apply IH; exact Hw']. }
    destruct (scanner_cols (m_cols m) cells ndest) as [cs|e|c] eqn:Es.
    + constructor; [exact I | apply IH; exact Hw'].
    + constructor; [exact I | apply IH; exact Hw'].
    + exfalso. eapply scanner_cols_safe; eassumption.
  - constructor; [exact I | apply IH; exact Hw].
  - destruct G.
Qed.
