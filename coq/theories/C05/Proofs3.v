(* C05/Proofs3.v -- row scanning, RowData and Unmarshal: the crash sites they can reach, and the
   shapes of type descriptor for which they reach none. *)
From GocqlV Require Import Lib.Base Gen.Consts C04.Model C04.Proofs1 C04.Proofs4 C05.Model C05.Proofs1.

Arguments Z.mul : simpl never.
Arguments Z.add : simpl never.
Arguments Z.pow : simpl never.
Arguments Z.of_nat : simpl never.
Arguments Z.to_nat : simpl never.
Arguments Z.ltb : simpl never.
Arguments Z.leb : simpl never.
Arguments Z.eqb : simpl never.
Arguments Z.gtb : simpl never.
Arguments Z.geb : simpl never.
Arguments Z.land : simpl never.

(* ---- Iter.Scan ---------------------------------------------------------------------------------------- *)
(* marshal.go readBytes after the caller's len(data) >= 4 test: the only crash is the unchecked field length *)
Lemma tuple_read_bytes_guarded s b : In CTupleField s -> wf_bytes b -> 4 <= blen b ->
  match out tuple_read_bytes b with
  | Ok (o, b') => wf_opt o /\ suffix_of b' b
  | Err _ => True
  | Crash c => In c s
  end.
Proof.
  intros Hin Hb H4. unfold tuple_read_bytes. rewrite out_bind. unfold rbind. rewrite out_take_ok by lia.
  set (size := signed 32 (be_dec (firstn (Z.to_nat 4) b))). destruct (size <? 0).
  - rewrite out_ret. split; [exact I|]. exists (Z.to_nat 4). reflexivity.
  - rewrite out_bind. unfold rbind.
    pose proof (good_take_site s CTupleField size Hin (skipn (Z.to_nat 4) b) (wf_skipn _ _ Hb)) as G.
    destruct (out (take CTupleField size) (skipn (Z.to_nat 4) b)) as [[x b']|e|c]; try assumption.
    rewrite out_ret. destruct G as [Hx Hs]. split; [exact Hx|]. eapply suffix_trans; [eassumption|]. exists (Z.to_nat 4). reflexivity.
Qed.

Lemma good_unmarshal_tuple_cells s elems : In CTupleField s -> good s (fun _ => True) (unmarshal_tuple_cells elems).
Proof.
  intros Hin. induction elems as [|e elems IH]; cbn [unmarshal_tuple_cells]; [apply good_ret; exact I|].
  intros b Hb. rewrite out_bind. unfold rbind. rewrite out_get_len. rewrite out_bind. unfold rbind.
  destruct (Z.geb_spec (blen b) 4) as [H4|H4].
  - pose proof (tuple_read_bytes_guarded s b Hin Hb H4) as G.
    destruct (out tuple_read_bytes b) as [[o b1]|er|c]; try assumption. destruct G as [_ Hs1].
    rewrite out_bind. unfold rbind. specialize (IH b1 (suffix_wf _ _ Hs1 Hb)).
    destruct (out (unmarshal_tuple_cells elems) b1) as [[cs b2]|er|c]; try assumption.
    rewrite out_ret. destruct IH as [_ Hs2]. split; [exact I | eapply suffix_trans; eassumption].
  - rewrite out_ret. rewrite out_bind. unfold rbind. specialize (IH b Hb).
    destruct (out (unmarshal_tuple_cells elems) b) as [[cs b2]|er|c]; assumption.
Qed.

Lemma good_on_cell {A} s (p : P A) data : wf_bytes data -> good s (fun _ => True) p -> good s (fun _ => True) (on_cell p data).
Proof.
  intros Hd Hp b Hb. rewrite out_on_cell. specialize (Hp data Hd).
  destruct (out p data) as [[a r]|e|c]; try assumption. split; [exact I | apply suffix_refl].
Qed.

Lemma good_read_column s : In CScanPanic s -> good s wf_opt read_column.
Proof.
  intros Hin. unfold read_column. eapply good_bind; [apply good_get_len|]. intros l _.
  destruct (l <? 4); [apply good_crash, Hin | apply good_read_bytes].
Qed.

Definition scan_sites : list crashc := [CScanPanic; CScanDest; CTupleField].

Lemma good_scan_cols cols : forall avail, good scan_sites (fun _ => True) (scan_cols cols avail).
Proof.
  induction cols as [|c cols IH]; intros avail; cbn [scan_cols]; [apply good_ret; exact I|].
  eapply good_bind; [apply good_read_column; left; reflexivity|]. intros data Hd.
  destruct (avail <=? 0); [apply good_crash; right; left; reflexivity|].
  destruct (c_type c) as [typ cu|typ cu k e|cu elems|cu ks nm fs];
    try (eapply good_bind; [apply IH|]; intros more _; apply good_ret; exact I).
  destruct (Z.of_nat (length elems) >? avail); [apply good_crash; right; left; reflexivity|].
  eapply good_bind.
  { apply good_on_cell; [destruct data; [exact Hd | constructor] | apply good_unmarshal_tuple_cells; right; right; left; reflexivity]. }
  intros cs _. eapply good_bind; [apply IH|]. intros more _. apply good_ret. exact I.
Qed.

Lemma good_scan_row m ndest : good scan_sites (fun _ => True) (scan_row m ndest).
Proof. unfold scan_row. destruct (negb (ndest =? m_actual m)); [apply good_fail | apply good_scan_cols]. Qed.

(* rows without tuple columns, scanned into at least as many destinations as there are columns: the
   only crash left is the body that ends before the declared rows do *)
Definition no_tuple (c : col) : Prop := match c_type c with TTuple _ _ => False | _ => True end.

Lemma good_scan_cols_no_tuple cols : Forall no_tuple cols -> forall avail, Z.of_nat (length cols) <= avail ->
  good [CScanPanic] (fun _ => True) (scan_cols cols avail).
Proof.
  induction 1 as [|c cols Hc Hcols IH]; intros avail Ha; cbn [scan_cols]; [apply good_ret; exact I|].
  eapply good_bind; [apply good_read_column; left; reflexivity|]. intros data Hd.
  simpl length in Ha. destruct (Z.leb_spec avail 0); [lia|].
  unfold no_tuple in Hc. destruct (c_type c); try contradiction;
    (eapply good_bind; [apply IH; lia|]; intros more _; apply good_ret; exact I).
Qed.

(* a sequence of Scan calls: every panic is at one of the three sites; the buffer stays a suffix *)
Definition out_ok (sites : list crashc) (o : scan_out) : Prop := match o with SPanic c => In c sites | _ => True end.

Lemma iter_scans_sites k : forall m nrows ndest it, wf_bytes (it_buf it) ->
  Forall (out_ok scan_sites) (iter_scans k m nrows ndest it).
Proof.
  induction k as [|k IH]; intros m nrows ndest it Hw; cbn [iter_scans]; [constructor|].
  unfold iter_scan. destruct (it_err it) as [e|].
  { constructor; [exact I | apply IH, Hw]. }
  destruct (it_pos it >=? nrows).
  { constructor; [exact I | apply IH, Hw]. }
  pose proof (good_scan_row m ndest (it_buf it) Hw) as G.
  destruct (out (scan_row m ndest) (it_buf it)) as [[cells b']|e|c].
  - destruct G as [_ Hs]. constructor; [exact I|]. apply IH. cbn [it_buf]. eapply suffix_wf; eassumption.
  - constructor; [exact I|]. apply IH. exact Hw.
  - constructor; [exact G | constructor].
Qed.

(* ---- goType / RowData -------------------------------------------------------------------------------------- *)
Section tinfo_induction.
  Variable Q : tinfo -> Prop.
  Hypothesis Hn : forall typ c, Q (TNative typ c).
  Hypothesis Hc : forall typ c k e, (forall k', k = Some k' -> Q k') -> Q e -> Q (TColl typ c k e).
  Hypothesis Ht : forall c es, Forall Q es -> Q (TTuple c es).
  Hypothesis Hu : forall c ks n fs, Forall (fun f => Q (snd f)) fs -> Q (TUDT c ks n fs).
  Fixpoint tinfo_ind2 (t : tinfo) : Q t :=
    match t with
    | TNative typ c => Hn typ c
    | TColl typ c k e =>
        Hc typ c k e (fun k' (E : k = Some k') =>
                        match k as k0 return (k0 = Some k' -> Q k') with
                        | Some k1 => fun E1 => match E1 in (_ = o) return (match o with Some x => Q x | None => True end) with
                                               | eq_refl => tinfo_ind2 k1 end
                        | None => fun E1 => match E1 in (_ = o) return (match o with Some x => Q x | None => True end) with
                                            | eq_refl => I end
                        end E) (tinfo_ind2 e)
    | TTuple c es =>
        Ht c es ((fix go (l : list tinfo) : Forall Q l :=
                    match l with [] => Forall_nil _ | e :: l' => Forall_cons e (tinfo_ind2 e) (go l') end) es)
    | TUDT c ks n fs =>
        Hu c ks n fs ((fix go (l : list (bytes * tinfo)) : Forall (fun f => Q (snd f)) l :=
                         match l with [] => Forall_nil _ | f :: l' => Forall_cons f (tinfo_ind2 (snd f)) (go l') end) fs)
    end.
End tinfo_induction.

(* goType panics only in reflect.MapOf, for types as the parser builds them *)
Lemma go_type_sites t : tinfo_ok t -> forall c, go_type t = Crash c -> c = CMapKey.
Proof.
  induction t as [typ cu | typ cu k e IHk IHe | cu es IH | cu ks n fs IH] using tinfo_ind2; intros Hok c Hc; cbn [go_type] in Hc.
  - destruct Hok as (H1 & H2 & H3 & H4 & H5).
    destruct (existsb (Z.eqb typ) comparable_natives); [discriminate|]. destruct (typ =? K.TypeBlob); [discriminate|].
    destruct (Z.eqb_spec typ K.TypeList); [contradiction|]. destruct (Z.eqb_spec typ K.TypeSet); [contradiction|].
    destruct (Z.eqb_spec typ K.TypeMap); [contradiction|]. destruct (Z.eqb_spec typ K.TypeTuple); [contradiction|].
    cbn [orb] in Hc. destruct (typ =? K.TypeUDT); discriminate.
  - destruct Hok as (Ht & Hk & He). destruct (Z.eqb_spec typ K.TypeMap) as [Em|Em].
    + destruct k as [k'|]; [|exfalso; apply Hk, Em]. destruct Hk as [_ Hk'].
      destruct (go_type k') as [kc|ek|ck] eqn:Ek.
      * destruct (go_type e) as [ec|ee|ce] eqn:Ee.
        -- destruct kc; [discriminate|]. inversion Hc. reflexivity.
        -- discriminate.
        -- inversion Hc; subst. apply (IHe He). reflexivity.
      * discriminate.
      * inversion Hc; subst. apply (IHk k' eq_refl Hk'). exact Ek.
    + destruct (go_type e) as [ec|ee|ce] eqn:Ee; try discriminate. inversion Hc; subst. apply (IHe He). reflexivity.
  - discriminate.
  - discriminate.
Qed.

Lemma go_types_sites ts : Forall tinfo_ok ts -> forall c, go_types ts = Crash c -> c = CMapKey.
Proof.
  induction 1 as [|t ts Ht Hts IH]; intros c Hc; cbn [go_types] in Hc; [discriminate|].
  destruct (go_type t) as [x|e|c'] eqn:E; try discriminate; [apply IH, Hc|]. inversion Hc; subst. eapply go_type_sites; eassumption.
Qed.

Lemma tinfo_ok_tuple cu es : tinfo_ok (TTuple cu es) <-> Forall tinfo_ok es.
Proof.
  cbn [tinfo_ok]. induction es as [|e es IH].
  - split; intros _; [constructor | exact I].
  - split.
    + intros [H1 H2]. constructor; [exact H1 | apply IH, H2].
    + intros H. inversion H; subst. split; [assumption | apply IH; assumption].
Qed.

Lemma row_data_sites cols : Forall (fun c => tinfo_ok (c_type c)) cols -> forall c, row_data cols = Crash c -> c = CMapKey.
Proof.
  induction 1 as [|cl cols Hc Hcols IH]; intros c Hcr; cbn [row_data] in Hcr; [discriminate|].
  destruct (c_type cl) as [typ cu|typ cu k e|cu es|cu ks n fs] eqn:Et.
  - destruct (go_type (TNative typ cu)) as [x|e0|c0] eqn:Eg; [| discriminate | inversion Hcr; subst; eapply go_type_sites; eassumption].
    destruct (row_data cols) as [nm|e1|c1]; try discriminate. inversion Hcr; subst. apply IH. reflexivity.
  - destruct (go_type (TColl typ cu k e)) as [x|e0|c0] eqn:Eg; [| discriminate | inversion Hcr; subst; eapply go_type_sites; eassumption].
    destruct (row_data cols) as [nm|e1|c1]; try discriminate. inversion Hcr; subst. apply IH. reflexivity.
  - destruct (go_types es) as [x|e0|c0] eqn:Eg; [| discriminate | inversion Hcr; subst; eapply go_types_sites; [|eassumption]; apply (tinfo_ok_tuple cu); assumption].
    destruct (row_data cols) as [nm|e1|c1]; try discriminate. inversion Hcr; subst. apply IH. reflexivity.
  - destruct (go_type (TUDT cu ks n fs)) as [x|e0|c0] eqn:Eg; [| discriminate | inversion Hcr; subst; eapply go_type_sites; eassumption].
    destruct (row_data cols) as [nm|e1|c1]; try discriminate. inversion Hcr; subst. apply IH. reflexivity.
Qed.

(* a map key of one of these shapes is what makes reflect.MapOf panic *)
Definition map_key_uncomparable (k : tinfo) : Prop :=
  match k with
  | TNative typ _ => typ = K.TypeBlob \/ typ = K.TypeUDT
  | _ => True
  end.

(* ---- the Scanner API ------------------------------------------------------------------------------------- *)
Definition scanner_sites : list crashc := [CScanPanic; CScanDest; CTupleField; CScannerIdx].

Lemma good_read_cells s cols : In CScanPanic s -> good s (Forall wf_opt) (read_cells cols).
Proof.
  intros Hin. induction cols as [|c cols IH]; cbn [read_cells]; [apply good_ret; constructor|].
  eapply good_bind; [apply good_read_column, Hin|]. intros d Hd. eapply good_bind; [apply IH|]. intros ds Hds.
  apply good_ret. constructor; assumption.
Qed.

Lemma scanner_cols_sites : forall cols cells i avail c, Forall wf_opt cells ->
  scanner_cols cols cells i avail = Crash c -> In c scanner_sites.
Proof.
  induction cols as [|cl cols IH]; intros cells i avail c Hw Hc; cbn [scanner_cols] in Hc; [discriminate|].
  destruct (nth_error cells i) as [data|] eqn:En; [|inversion Hc; right; right; right; left; reflexivity].
  destruct (avail <=? 0); [inversion Hc; right; left; reflexivity|].
  assert (Hd : wf_bytes (opt_bytes data)).
  { apply nth_error_In in En. rewrite Forall_forall in Hw. specialize (Hw _ En). destruct data; [exact Hw | constructor]. }
  destruct (c_type cl) as [typ cu|typ cu k e|cu es|cu ks n fs].
  1,2,4: destruct (scanner_cols cols cells (S i) (avail - 1)) as [more|e0|c0] eqn:Er;
    try discriminate; inversion Hc; subst; eapply IH; eassumption.
  destruct (Z.of_nat (length es) >? avail); [inversion Hc; right; left; reflexivity|].
  pose proof (good_unmarshal_tuple_cells scanner_sites es ltac:(right; right; left; reflexivity) (opt_bytes data) Hd) as G.
  destruct (out (unmarshal_tuple_cells es) (opt_bytes data)) as [[cs r]|e0|c0].
  - destruct (scanner_cols cols cells (i + length es) (avail - Z.of_nat (length es))) as [more|e1|c1] eqn:Er; try discriminate.
    inversion Hc; subst. eapply IH; eassumption.
  - discriminate.
  - inversion Hc; subst. exact G.
Qed.

Lemma scanner_steps_sites k : forall m nrows ndest it, wf_bytes (it_buf it) ->
  Forall (out_ok scanner_sites) (scanner_steps k m nrows ndest it).
Proof.
  induction k as [|k IH]; intros m nrows ndest it Hw; cbn [scanner_steps]; [constructor|].
  unfold scanner_step. destruct (it_err it) as [e|].
  { constructor; [exact I | apply IH, Hw]. }
  destruct (it_pos it >=? nrows).
  { constructor; [exact I | apply IH, Hw]. }
  pose proof (good_read_cells scanner_sites (m_cols m) ltac:(left; reflexivity) (it_buf it) Hw) as G.
  destruct (out (read_cells (m_cols m)) (it_buf it)) as [[cells b']|e|c].
  - destruct G as [Hcells Hs]. pose proof (suffix_wf _ _ Hs Hw) as Hw'.
    destruct (negb (ndest =? m_actual m)).
    { constructor; [exact I | apply IH; exact Hw']. }
    destruct (scanner_cols (m_cols m) cells 0 ndest) as [cs|e|c] eqn:Es.
    + constructor; [exact I | apply IH; exact Hw'].
    + constructor; [exact I | apply IH; exact Hw'].
    + constructor; [eapply scanner_cols_sites; eassumption | constructor].
  - constructor; [exact I | apply IH; exact Hw].
  - constructor; [exact G | constructor].
Qed.
