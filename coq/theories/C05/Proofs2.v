(* C05/Proofs2.v -- the recursion fuel of the model is adequate: no parser of C04/Model.v ever returns
   the model-only error EFuel, so no statement about the parsers holds "because fuel ran out".
   [tightL L k p]: on buffers of at most L bytes, p consumes at least k bytes when it succeeds and never
   fails with EFuel. *)
From GocqlV Require Import Lib.Base Gen.Consts C04.Model C04.Proofs1.

Arguments Z.mul : simpl never.
Arguments Z.add : simpl never.
Arguments Z.pow : simpl never.
Arguments Z.of_nat : simpl never.
Arguments Z.to_nat : simpl never.
Arguments Z.ltb : simpl never.
Arguments Z.leb : simpl never.
Arguments Z.eqb : simpl never.
Arguments Z.gtb : simpl never.
Arguments Z.geb : simpl never.
Arguments Z.land : simpl never.

Definition tightL {A} (L k : nat) (p : P A) : Prop :=
  forall b, wf_bytes b -> (length b <= L)%nat ->
    match out p b with
    | Ok (_, b') => (length b' + k <= length b)%nat /\ wf_bytes b'
    | Err e => e <> EFuel
    | Crash _ => True
    end.
Definition tight {A} (k : nat) (p : P A) : Prop := forall L, tightL L k p.

Lemma tightL_weaken {A} L k k' (p : P A) : (k' <= k)%nat -> tightL L k p -> tightL L k' p.
Proof. intros Hk H b Hb Hl. specialize (H b Hb Hl). destruct (out p b) as [[a b']|e|c]; try assumption. destruct H. split; [lia|assumption]. Qed.
Lemma tight_weaken {A} k k' (p : P A) : (k' <= k)%nat -> tight k p -> tight k' p.
Proof. intros Hk H L. eapply tightL_weaken; [eassumption | apply H]. Qed.

Lemma tight_ret {A} (a : A) : tight 0 (ret a).
Proof. intros L b Hb _. rewrite out_ret. split; [lia|assumption]. Qed.
Lemma tight_fail {A} k e : e <> EFuel -> tight k (@fail A e).
Proof. intros He L b _ _. exact He. Qed.
Lemma tight_crash {A} k c : tight k (@crash A c).
Proof. intros L b _ _. exact I. Qed.
Lemma tight_alloc n : tight 0 (alloc n).
Proof. intros L b Hb _. rewrite out_alloc. split; [lia|assumption]. Qed.
Lemma tight_get_len : tight 0 get_len.
Proof. intros L b Hb _. rewrite out_get_len. split; [lia|assumption]. Qed.
Lemma tight_need n : tight 0 (need n).
Proof. intros L b Hb _. unfold out, need. destruct (blen b <? n); cbn [fst]; [discriminate|]. split; [lia|assumption]. Qed.
Lemma tight_take c n : tight (Z.to_nat n) (take c n).
Proof.
  intros L b Hb _. unfold out, take. destruct (Z.ltb_spec n 0); cbn [orb fst]; [exact I|].
  destruct (Z.ltb_spec (blen b) n); cbn [fst]; [exact I|]. unfold blen in *.
  split; [rewrite skipn_length; lia | apply wf_skipn, Hb].
Qed.

Lemma tightL_bind {A B} L k1 k2 (p : P A) (f : A -> P B) :
  tightL L k1 p -> (forall a, (k1 <= L)%nat -> tightL (L - k1) k2 (f a)) -> tightL L (k1 + k2) (bind p f).
Proof.
  intros Hp Hf b Hb Hl. rewrite out_bind. unfold rbind. specialize (Hp b Hb Hl).
  destruct (out p b) as [[a b']|e|c]; try assumption. destruct Hp as [Hlen Hw].
  specialize (Hf a ltac:(lia) b' Hw ltac:(lia)).
  destruct (out (f a) b') as [[x b'']|e|c]; try assumption. destruct Hf. split; [lia|assumption].
Qed.

Lemma tight_bind {A B} k1 k2 (p : P A) (f : A -> P B) : tight k1 p -> (forall a, tight k2 (f a)) -> tight (k1 + k2) (bind p f).
Proof. intros Hp Hf L. apply tightL_bind; [apply Hp | intros a _; apply Hf]. Qed.

Lemma tight_of_L {A} k (p : P A) : (forall L, tightL L k p) -> tight k p.
Proof. auto. Qed.

(* the counted loop: a body that consumes at least one byte cannot run more often than the buffer is long *)
Lemma tightL_read_loop {A} L (p : P A) : tightL L 1 p -> forall fuel n b, wf_bytes b -> (length b <= L)%nat -> (length b < fuel)%nat ->
  match out (read_loop fuel p n) b with
  | Ok (_, b') => (length b' + 0 <= length b)%nat /\ wf_bytes b'
  | Err e => e <> EFuel
  | Crash _ => True
  end.
Proof.
  intros Hp fuel. induction fuel as [|fuel IH]; intros n b Hb HL Hf; [lia|].
  cbn [read_loop]. destruct (n <=? 0); [rewrite out_ret; split; [lia|assumption]|].
  rewrite out_bind. unfold rbind. specialize (Hp b Hb HL). destruct (out p b) as [[x b1]|e|c]; try assumption.
  destruct Hp as [Hlen Hw]. rewrite out_bind. unfold rbind.
  specialize (IH (n - 1) b1 Hw ltac:(lia) ltac:(lia)).
  destruct (out (read_loop fuel p (n - 1)) b1) as [[xs b2]|e|c]; try assumption.
  rewrite out_ret. destruct IH. split; [lia|assumption].
Qed.

Lemma tightL_read_count {A} L (p : P A) n : tightL L 1 p -> tightL L 0 (read_count p n).
Proof.
  intros Hp b Hb HL. unfold read_count, out.
  exact (tightL_read_loop L p Hp (S (length b)) n b Hb HL ltac:(lia)).
Qed.
Lemma tight_read_count {A} (p : P A) n : tight 1 p -> tight 0 (read_count p n).
Proof. intros Hp L. apply tightL_read_count, Hp. Qed.

(* ---- primitives ---------------------------------------------------------------------------------------- *)
Ltac tb := first [ apply tight_ret | apply tight_alloc | apply tight_need | apply tight_get_len | apply tight_crash
                 | (apply tight_fail; discriminate) ].

Lemma tight_need_take {A} n (f : bytes -> P A) k : (forall x, tight k (f x)) ->
  tight (Z.to_nat n + k) (bind (need n) (fun _ => bind (take CGuarded n) f)).
Proof.
  intros Hf. change (Z.to_nat n + k)%nat with (0 + (Z.to_nat n + k))%nat. apply tight_bind; [apply tight_need|]. intros _.
  apply tight_bind; [apply tight_take | assumption].
Qed.

Lemma tight_read_byte : tight 1 read_byte.
Proof. unfold read_byte. change 1%nat with (Z.to_nat 1 + 0)%nat. apply tight_need_take. intros. tb. Qed.
Lemma tight_read_short : tight 2 read_short.
Proof. unfold read_short. change 2%nat with (Z.to_nat 2 + 0)%nat. apply tight_need_take. intros. tb. Qed.
Lemma tight_read_int : tight 4 read_int.
Proof. unfold read_int. change 4%nat with (Z.to_nat 4 + 0)%nat. apply tight_need_take. intros. tb. Qed.
Lemma tight_read_uuid : tight 0 read_uuid.
Proof.
  unfold read_uuid. eapply tight_weaken; [|apply tight_need_take with (k := 0%nat)]; [lia|]. intros x.
  change 0%nat with (0 + 0)%nat. apply tight_bind; [tb|]. intros. tb.
Qed.

Lemma tight_read_string : tight 2 read_string.
Proof.
  unfold read_string. change 2%nat with (2 + 0)%nat. apply tight_bind; [apply tight_read_short|]. intros size.
  eapply tight_weaken; [|apply tight_need_take with (k := 0%nat)]; [lia|]. intros x.
  change 0%nat with (0 + 0)%nat. apply tight_bind; [tb|]. intros. tb.
Qed.

Lemma tight_read_bytes : tight 4 read_bytes.
Proof.
  unfold read_bytes. change 4%nat with (4 + 0)%nat. apply tight_bind; [apply tight_read_int|]. intros size.
  destruct (size <? 0); [tb|]. eapply tight_weaken; [|apply tight_need_take with (k := 0%nat)]; [lia|]. intros. tb.
Qed.

Lemma tight_read_short_bytes : tight 2 read_short_bytes.
Proof.
  unfold read_short_bytes. change 2%nat with (2 + 0)%nat. apply tight_bind; [apply tight_read_short|]. intros size.
  change 0%nat with (0 + 0)%nat. apply tight_bind; [tb|]. intros _. eapply tight_weaken; [|apply tight_take]. lia.
Qed.

Lemma tight_read_string_list : tight 2 read_string_list.
Proof.
  unfold read_string_list. change 2%nat with (2 + (0 + 0))%nat. apply tight_bind; [apply tight_read_short|]. intros size.
  apply tight_bind; [tb|]. intros _. apply tight_read_count. eapply tight_weaken; [|apply tight_read_string]. lia.
Qed.

Lemma tight_read_inet_addr : tight 1 read_inet_addr.
Proof.
  unfold read_inet_addr. change 1%nat with (Z.to_nat 1 + 0)%nat. apply tight_need_take. intros sz. cbv zeta.
  destruct (negb ((be_dec sz =? 4) || (be_dec sz =? 16))); [tb|].
  change 0%nat with (0 + (0 + 0))%nat. apply tight_bind; [tb|]. intros _. apply tight_bind; [tb|]. intros _.
  eapply tight_weaken; [|apply tight_take]. lia.
Qed.

Lemma tight_read_inet : tight 1 read_inet.
Proof.
  unfold read_inet. change 1%nat with (1 + (0 + 0))%nat. apply tight_bind; [apply tight_read_inet_addr|]. intros ip.
  apply tight_bind; [eapply tight_weaken; [|apply tight_read_int]; lia|]. intros. tb.
Qed.

Lemma tight_read_bytes_map : tight 2 read_bytes_map.
Proof.
  unfold read_bytes_map. change 2%nat with (2 + (0 + 0))%nat. apply tight_bind; [apply tight_read_short|]. intros size.
  apply tight_bind; [tb|]. intros _. apply tight_read_count.
  change 1%nat with (1 + (0 + 0))%nat. apply tight_bind; [eapply tight_weaken; [|apply tight_read_string]; lia|]. intros k.
  apply tight_bind; [eapply tight_weaken; [|apply tight_read_bytes]; lia|]. intros. tb.
Qed.

Lemma tight_read_string_multimap : tight 2 read_string_multimap.
Proof.
  unfold read_string_multimap. change 2%nat with (2 + (0 + 0))%nat. apply tight_bind; [apply tight_read_short|]. intros size.
  apply tight_bind; [tb|]. intros _. apply tight_read_count.
  change 1%nat with (1 + (0 + 0))%nat. apply tight_bind; [eapply tight_weaken; [|apply tight_read_string]; lia|]. intros k.
  apply tight_bind; [eapply tight_weaken; [|apply tight_read_string_list]; lia|]. intros. tb.
Qed.

(* ---- the recursive type reader: fuel S f is enough for buffers of at most f bytes --------------------- *)
Lemma tightL_read_type : forall fuel L, (L <= fuel)%nat -> tightL L 2 (read_type (S fuel)).
Proof.
  induction fuel as [|fuel IH]; intros L HL.
  - (* only the empty buffer: the id cannot be read *)
    intros b Hb Hl. destruct b; [|simpl in Hl; lia]. reflexivity || (cbn; discriminate).
  - cbn [read_type]. change 2%nat with (2 + 0)%nat. apply tightL_bind; [apply tight_read_short|]. intros id H2.
    assert (Hrec : forall k, (k <= 2)%nat -> tightL (L - 2) k (read_type (S fuel))).
    { intros k Hk. eapply tightL_weaken; [exact Hk|]. apply IH. lia. }
    change 0%nat with (0 + 0)%nat. apply tightL_bind.
    { destruct (id =? K.TypeCustom); [|apply tight_ret].
      change 0%nat with (0 + 0)%nat. apply tight_bind; [eapply tight_weaken; [|apply tight_read_string]; lia|]. intros. apply tight_ret. }
    intros ct _. cbv zeta. rewrite Nat.sub_0_r.
    destruct (snd ct =? K.TypeTuple).
    { change 0%nat with (0 + (0 + 0))%nat. apply tightL_bind; [eapply tightL_weaken; [|apply tight_read_short]; lia|]. intros n _.
      apply tightL_bind.
      - apply tightL_read_count. rewrite !Nat.sub_0_r. change 1%nat with (1 + (0 + 0))%nat.
        apply tightL_bind; [apply Hrec; lia|]. intros t _. apply tightL_bind; [apply tight_alloc | intros; apply tight_ret].
      - intros. apply tight_ret. }
    destruct (snd ct =? K.TypeUDT).
    { change 0%nat with (0 + (0 + (0 + (0 + 0))))%nat.
      apply tightL_bind; [eapply tightL_weaken; [|apply tight_read_string]; lia|]. intros ks _.
      apply tightL_bind; [eapply tightL_weaken; [|apply tight_read_string]; lia|]. intros nm _.
      apply tightL_bind; [eapply tightL_weaken; [|apply tight_read_short]; lia|]. intros n _.
      apply tightL_bind.
      - apply tightL_read_count. rewrite !Nat.sub_0_r. change 1%nat with (1 + (0 + (0 + 0)))%nat.
        apply tightL_bind; [eapply tightL_weaken; [|apply tight_read_string]; lia|]. intros fnm _.
        apply tightL_bind; [|intros; apply tightL_bind; [apply tight_alloc | intros; apply tight_ret]].
        eapply tightL_weaken with (k := 0%nat); [lia|]. intros b Hb Hl. apply (Hrec 0%nat ltac:(lia) b Hb). lia.
      - intros. apply tight_ret. }
    destruct ((snd ct =? K.TypeMap) || (snd ct =? K.TypeList) || (snd ct =? K.TypeSet)); [|apply tight_ret].
    change 0%nat with (0 + (0 + 0))%nat. apply tightL_bind.
    { destruct (snd ct =? K.TypeMap); [|apply tight_ret]. change 0%nat with (0 + 0)%nat.
      apply tightL_bind; [apply Hrec; lia | intros; apply tight_ret]. }
    intros key _. rewrite Nat.sub_0_r. apply tightL_bind; [apply Hrec; lia | intros; apply tight_ret].
Qed.

Lemma tight_read_type_info : tight 2 read_type_info.
Proof.
  intros L b Hb _. unfold read_type_info, out.
  exact (tightL_read_type (length b) (length b) (le_n _) b Hb (le_n _)).
Qed.

(* ---- metadata and frames ---------------------------------------------------------------------------------- *)
Lemma tight_read_col g ks tb : tight 1 (read_col g ks tb).
Proof.
  unfold read_col. change 1%nat with (0 + (1 + (0 + 0)))%nat. apply tight_bind.
  { destruct g; [tb|]. change 0%nat with (0 + (0 + 0))%nat.
    apply tight_bind; [eapply tight_weaken; [|apply tight_read_string]; lia|]. intros k.
    apply tight_bind; [eapply tight_weaken; [|apply tight_read_string]; lia|]. intros. tb. }
  intros kt. apply tight_bind; [eapply tight_weaken; [|apply tight_read_string]; lia|]. intros nm.
  apply tight_bind; [eapply tight_weaken; [|apply tight_read_type_info]; lia|]. intros. tb.
Qed.

Ltac t0 lem := eapply tight_weaken; [|apply lem]; lia.

Lemma tight_read_meta_tail flags cc : tight 0 (read_meta_tail flags cc).
Proof.
  unfold read_meta_tail. change 0%nat with (0 + 0)%nat. apply tight_bind.
  { destruct (has_flag flags K.flagHasMorePages); [|tb]. change 0%nat with (0 + (0 + 0))%nat.
    apply tight_bind; [t0 tight_read_bytes|]. intros b. apply tight_bind; [tb|]. intros. tb. }
  intros paging. destruct (has_flag flags K.flagNoMetaData); [tb|]. cbv zeta.
  change 0%nat with (0 + (0 + (0 + 0)))%nat. apply tight_bind.
  { destruct (has_flag flags K.flagGlobalTableSpec); [|tb]. change 0%nat with (0 + (0 + 0))%nat.
    apply tight_bind; [t0 tight_read_string|]. intros k. apply tight_bind; [t0 tight_read_string|]. intros. tb. }
  intros kt. apply tight_bind; [destruct (cc <? 1000); tb|]. intros _.
  apply tight_bind; [apply tight_read_count, tight_read_col|]. intros. tb.
Qed.

Lemma tight_parse_result_metadata : tight 0 parse_result_metadata.
Proof.
  unfold parse_result_metadata. change 0%nat with (0 + (0 + 0))%nat. apply tight_bind; [t0 tight_read_int|]. intros flags.
  apply tight_bind; [t0 tight_read_int|]. intros cc. destruct (cc <? 0); [tb|].
  change 0%nat with (0 + 0)%nat. apply tight_bind; [apply tight_read_meta_tail|]. intros. tb.
Qed.

Lemma tight_parse_prepared_metadata proto : tight 0 (parse_prepared_metadata proto).
Proof.
  unfold parse_prepared_metadata. change 0%nat with (0 + (0 + 0))%nat. apply tight_bind; [t0 tight_read_int|]. intros flags.
  apply tight_bind; [t0 tight_read_int|]. intros cc. destruct (cc <? 0); [tb|].
  change 0%nat with (0 + (0 + 0))%nat. apply tight_bind.
  { destruct (proto >=? K.protoVersion4); [|tb]. change 0%nat with (0 + 0)%nat. apply tight_bind; [t0 tight_read_int|]. intros pkc.
    destruct (pkc <? 0); [tb|]. change 0%nat with (0 + (0 + 0))%nat. apply tight_bind; [tb|]. intros _.
    apply tight_bind; [tb|]. intros _. apply tight_read_count. t0 tight_read_short. }
  intros pk. apply tight_bind; [apply tight_read_meta_tail|]. intros. tb.
Qed.

Lemma tight_read_error_map : tight 0 read_error_map.
Proof.
  unfold read_error_map. change 0%nat with (0 + 0)%nat. apply tight_bind; [t0 tight_read_int|]. intros n.
  apply tight_read_count. change 1%nat with (1 + (0 + 0))%nat. apply tight_bind; [apply tight_read_inet_addr|]. intros ip.
  apply tight_bind; [t0 tight_read_short|]. intros. tb.
Qed.

(* sequences of primitive reads ending in ret *)
Ltac tprim :=
  first [ t0 tight_read_short | t0 tight_read_int | t0 tight_read_string | t0 tight_read_byte | t0 tight_read_short_bytes
        | t0 tight_read_string_list | t0 tight_read_bytes | t0 tight_read_inet | apply tight_alloc ].
Ltac tseq :=
  repeat first [ apply tight_ret
               | (apply tight_fail; discriminate)
               | (change 0%nat with (0 + 0)%nat; apply tight_bind; [tprim | intros ?]) ].

Lemma tight_parse_error_frame proto : tight 0 (parse_error_frame proto).
Proof.
  unfold parse_error_frame. change 0%nat with (0 + (0 + 0))%nat. apply tight_bind; [t0 tight_read_int|]. intros code.
  apply tight_bind; [t0 tight_read_string|]. intros msg. cbv zeta.
  repeat match goal with |- tight _ (if ?c then _ else _) => destruct c end; try (tseq; fail).
  - tseq. change 0%nat with (0 + 0)%nat. apply tight_bind.
    { destruct (proto >? K.protoVersion4); [|tseq]. change 0%nat with (0 + 0)%nat. apply tight_bind; [apply tight_read_error_map|]. intros. tb. }
    intros me. tseq.
  - tseq. change 0%nat with (0 + 0)%nat. apply tight_bind.
    { destruct (proto >? K.protoVersion4); [|tseq]. change 0%nat with (0 + 0)%nat. apply tight_bind; [apply tight_read_error_map|]. intros. tb. }
    intros me. tseq.
Qed.

Lemma tight_parse_schema_change proto : tight 0 (parse_schema_change proto).
Proof.
  unfold parse_schema_change. destruct (proto <=? K.protoVersion2).
  - tseq. match goal with |- tight _ (match ?t with _ => _ end) => destruct t end; tb.
  - tseq. repeat match goal with |- tight _ (if ?c then _ else _) => destruct c end; tseq.
Qed.

Lemma tight_parse_result_frame proto : tight 0 (parse_result_frame proto).
Proof.
  unfold parse_result_frame. change 0%nat with (0 + 0)%nat. apply tight_bind; [t0 tight_read_int|]. intros kind.
  repeat match goal with |- tight _ (if ?c then _ else _) => destruct c end; try (tseq; fail).
  - unfold parse_result_rows. change 0%nat with (0 + (0 + 0))%nat. apply tight_bind; [apply tight_parse_result_metadata|]. intros m.
    apply tight_bind; [t0 tight_read_int|]. intros n. destruct (n <? 0); tb.
  - unfold parse_result_prepared. change 0%nat with (0 + (0 + 0))%nat. apply tight_bind; [t0 tight_read_short_bytes|]. intros id.
    apply tight_bind; [apply tight_parse_prepared_metadata|]. intros req. destruct (proto <? K.protoVersion2); [tb|].
    change 0%nat with (0 + 0)%nat. apply tight_bind; [apply tight_parse_result_metadata|]. intros. tb.
  - apply tight_parse_schema_change.
Qed.

Lemma tight_parse_event_frame proto : tight 0 (parse_event_frame proto).
Proof.
  unfold parse_event_frame. change 0%nat with (0 + 0)%nat. apply tight_bind; [t0 tight_read_string|]. intros et.
  repeat match goal with |- tight _ (if ?c then _ else _) => destruct c end; try (tseq; fail).
  apply tight_parse_schema_change.
Qed.

Lemma tight_parse_frame proto hver hflags hop : tight 0 (parse_frame proto hver hflags hop).
Proof.
  unfold parse_frame. destruct (Z.land hver K.protoDirectionMask =? 0); [tb|].
  change 0%nat with (0 + (0 + (0 + (0 + 0))))%nat. apply tight_bind.
  { destruct (has_flag hflags K.flagTracing); [|tb]. change 0%nat with (0 + 0)%nat. apply tight_bind; [apply tight_read_uuid|]. intros. tb. }
  intros tr. apply tight_bind.
  { destruct (has_flag hflags K.flagWarning); [|tb]. change 0%nat with (0 + 0)%nat. apply tight_bind; [t0 tight_read_string_list|]. intros. tb. }
  intros wa. apply tight_bind.
  { destruct (has_flag hflags K.flagCustomPayload); [|tb]. change 0%nat with (0 + 0)%nat. apply tight_bind; [t0 tight_read_bytes_map|]. intros. tb. }
  intros pl. apply tight_bind; [|intros; tb].
  repeat match goal with |- tight _ (if ?c then _ else _) => destruct c end; try (tseq; fail).
  - apply tight_parse_error_frame.
  - apply tight_parse_result_frame.
  - change 0%nat with (0 + 0)%nat. apply tight_bind; [t0 tight_read_string_multimap|]. intros. tb.
  - apply tight_parse_event_frame.
Qed.

Lemma parse_frame_no_fuel proto hver hflags hop b : wf_bytes b -> out (parse_frame proto hver hflags hop) b <> Err EFuel.
Proof.
  intros Hb. pose proof (tight_parse_frame proto hver hflags hop (length b) b Hb (le_n _)) as H.
  destruct (out (parse_frame proto hver hflags hop) b) as [[a b']|e|c]; try discriminate. congruence.
Qed.
