(* C05/Proofs4.v -- Unmarshal and the type-string parsers: which panics they can raise. *)
From Coq Require Import String.
From GocqlV Require Import Lib.Base Gen.Consts C04.Model C04.Proofs1 C05.Model C05.Proofs1 C05.Proofs3.

Arguments Z.mul : simpl never.
Arguments Z.add : simpl never.
Arguments Z.pow : simpl never.
Arguments Z.of_nat : simpl never.
Arguments Z.to_nat : simpl never.
Arguments Z.ltb : simpl never.
Arguments Z.leb : simpl never.
Arguments Z.eqb : simpl never.
Arguments Z.gtb : simpl never.
Arguments Z.geb : simpl never.
Arguments Z.land : simpl never.

Lemma lift_crash {A B} (r : res A) (k : A -> res B) c :
  lift r k = Crash c -> r = Crash c \/ exists a, r = Ok a /\ k a = Crash c.
Proof. destruct r as [a|e|c']; cbn [lift]; intros H; [right; eauto | discriminate | inversion H; left; reflexivity]. Qed.

(* ---- Unmarshal ------------------------------------------------------------------------------------------ *)
Lemma read_coll_size_no_crash proto d c : out (read_coll_size proto) d <> Crash c.
Proof.
  unfold read_coll_size. destruct (proto >? K.protoVersion2); rewrite out_bind; unfold rbind; rewrite out_get_len.
  - destruct (Z.ltb_spec (blen d) 4); [discriminate|]. rewrite out_bind. unfold rbind. rewrite out_take_ok by lia. discriminate.
  - destruct (Z.ltb_spec (blen d) 2); [discriminate|]. rewrite out_bind. unfold rbind. rewrite out_take_ok by lia. discriminate.
Qed.

Lemma read_coll_elem_no_crash proto d c : out (read_coll_elem proto) d <> Crash c.
Proof.
  unfold read_coll_elem. rewrite out_bind. unfold rbind. pose proof (read_coll_size_no_crash proto d) as H.
  destruct (out (read_coll_size proto) d) as [[m d1]|e|c']; [|discriminate|exfalso; eapply H; reflexivity].
  destruct (Z.geb_spec m 0); [|discriminate]. rewrite out_bind. unfold rbind. rewrite out_get_len.
  destruct (Z.ltb_spec (blen d1) m); [discriminate|]. rewrite out_bind. unfold rbind. rewrite out_take_ok by lia. discriminate.
Qed.

Lemma tuple_read_bytes_no_crash d c : 4 <= blen d -> out tuple_read_bytes d <> Crash c.
Proof.
  intros H4. unfold tuple_read_bytes. rewrite out_bind. unfold rbind. rewrite out_take_ok by lia.
  match goal with |- context [?x <? 0] => destruct (Z.ltb_spec x 0) as [Hn|Hn] end; [discriminate|].
  rewrite out_bind. unfold rbind. rewrite out_get_len.
  match goal with |- context [blen ?r <? ?x] => destruct (Z.ltb_spec (blen r) x) as [Hlt|Hge] end; [discriminate|].
  rewrite out_bind. unfold rbind. rewrite out_take_ok by lia. discriminate.
Qed.

Lemma unmarshal_leaf_no_crash typ data c : unmarshal_leaf typ data <> Crash c.
Proof.
  unfold unmarshal_leaf. cbv zeta.
  destruct (typ =? K.TypeDecimal). { destruct (_ =? 0); [discriminate|]. destruct (_ <? 4); discriminate. }
  destruct (typ =? K.TypeDate). { destruct (_ =? 0); [discriminate|]. destruct (_ <? 4); discriminate. }
  destruct ((typ =? K.TypeUUID) || (typ =? K.TypeTimeUUID)). { destruct ((_ =? 0) || (_ =? 16)); discriminate. }
  destruct (typ =? K.TypeDuration); [|discriminate].
  destruct (_ =? 0); [discriminate|].
  destruct (dec_vint _ 0) as [i|]; [|discriminate]. destruct (dec_vint _ i) as [j|]; [|discriminate]. destruct (dec_vint _ j); discriminate.
Qed.

Lemma go_type_guard_no_crash t c : tinfo_ok t ->
  match go_type t with Ok _ => Ok tt | Err _ => Err EUnmarshal | Crash c0 => Crash c0 end <> Crash c.
Proof.
  intros Hok H. destruct (go_type t) as [x|e|c0] eqn:E; try discriminate. eapply go_type_safe; eassumption.
Qed.

Lemma tinfo_ok_udt cu ks n fs : tinfo_ok (TUDT cu ks n fs) <-> Forall (fun f => tinfo_ok (snd f)) fs.
Proof.
  cbn [tinfo_ok]. induction fs as [|f fs IH].
  - split; intros _; [constructor | exact I].
  - split.
    + intros [H1 H2]. constructor; [exact H1 | apply IH, H2].
    + intros H. inversion H; subst. split; [assumption | apply IH; assumption].
Qed.

Lemma list_loop_no_crash um proto : (forall d c, um d <> Crash c) ->
  forall fuel n d c, list_loop um proto fuel n d <> Crash c.
Proof.
  intros Hum. induction fuel as [|fuel IH]; intros n d c Hc; cbn [list_loop] in Hc; destruct (n <=? 0); try discriminate.
  apply lift_crash in Hc. destruct Hc as [Hc | (ed & _ & Hc)]; [eapply read_coll_elem_no_crash, Hc|].
  apply lift_crash in Hc. destruct Hc as [Hc | (u1 & _ & Hc)]; [eapply Hum, Hc | eapply IH, Hc].
Qed.

Lemma map_loop_no_crash uk uv proto : (forall d c, uk d <> Crash c) -> (forall d c, uv d <> Crash c) ->
  forall fuel n d c, map_loop uk uv proto fuel n d <> Crash c.
Proof.
  intros Huk Huv. induction fuel as [|fuel IH]; intros n d c Hc; cbn [map_loop] in Hc; destruct (n <=? 0); try discriminate.
  apply lift_crash in Hc. destruct Hc as [Hc | (kd & _ & Hc)]; [eapply read_coll_elem_no_crash, Hc|].
  apply lift_crash in Hc. destruct Hc as [Hc | (u1 & _ & Hc)]; [eapply Huk, Hc|].
  apply lift_crash in Hc. destruct Hc as [Hc | (vd & _ & Hc)]; [eapply read_coll_elem_no_crash, Hc|].
  apply lift_crash in Hc. destruct Hc as [Hc | (u2 & _ & Hc)]; [eapply Huv, Hc | eapply IH, Hc].
Qed.

Lemma unmarshal_no_crash proto : forall t, tinfo_ok t -> forall data c, unmarshal proto t data <> Crash c.
Proof.
  induction t as [typ cu | typ cu k e IHk IHe | cu es IH | cu ks n fs IH] using tinfo_ind2; intros Hok data c Hc.
  - cbn [unmarshal] in Hc. eapply unmarshal_leaf_no_crash, Hc.
  - destruct Hok as (Ht & Hk & He). cbn [unmarshal] in Hc. destruct data as [d|]; [|discriminate].
    destruct (Z.eqb_spec typ K.TypeMap) as [Em|Em].
    + destruct k as [k'|]; [|exfalso; apply Hk, Em]. destruct Hk as [_ Hk'].
      apply lift_crash in Hc. destruct Hc as [Hc | (nd & _ & Hc)]; [eapply read_coll_size_no_crash, Hc|].
      destruct (fst nd <? 0); [discriminate|]. destruct (fst nd >? _); [discriminate|].
      eapply map_loop_no_crash; [| |exact Hc]; [intros d0 c0; apply (IHk k' eq_refl Hk') | intros d0 c0; apply (IHe He)].
    + apply lift_crash in Hc. destruct Hc as [Hc | (nd & _ & Hc)]; [eapply read_coll_size_no_crash, Hc|].
      destruct (fst nd <? 0); [discriminate|]. destruct (fst nd >? _); [discriminate|].
      eapply list_loop_no_crash; [|exact Hc]. intros d0 c0; apply (IHe He).
  - apply tinfo_ok_tuple in Hok. cbn [unmarshal] in Hc. revert Hc. generalize (opt_bytes data) as d.
    induction IH as [|e es IHe IHes IHl]; intros d Hc; [discriminate|]. inversion Hok as [|? ? Hoke Hokes]; subst.
    apply lift_crash in Hc. destruct Hc as [Hc | (pd & _ & Hc)].
    { destruct (Z.geb_spec (blen d) 4); [|discriminate]. eapply tuple_read_bytes_no_crash; eassumption. }
    apply lift_crash in Hc. destruct Hc as [Hc | (u0 & _ & Hc)]; [eapply go_type_guard_no_crash; eassumption|].
    apply lift_crash in Hc. destruct Hc as [Hc | (u1 & _ & Hc)]; [eapply IHe; eassumption|].
    eapply IHl; eassumption.
  - apply tinfo_ok_udt in Hok. cbn [unmarshal] in Hc. destruct data as [d|]; [|discriminate]. revert d Hc.
    induction IH as [|f fs IHf IHfs IHl]; intros d Hc; [discriminate|]. inversion Hok as [|? ? Hokf Hokfs]; subst.
    destruct f as [fnm ft]. cbn [snd] in *.
    destruct (Z.eqb_spec (blen d) 0); [discriminate|]. destruct (Z.ltb_spec (blen d) 4); [discriminate|].
    apply lift_crash in Hc. destruct Hc as [Hc | (u0 & _ & Hc)]; [eapply go_type_guard_no_crash; eassumption|].
    apply lift_crash in Hc. destruct Hc as [Hc | (pd & _ & Hc)]; [eapply tuple_read_bytes_no_crash; [|eassumption]; lia|].
    apply lift_crash in Hc. destruct Hc as [Hc | (u1 & _ & Hc)]; [eapply IHf; eassumption|].
    eapply IHl; eassumption.
Qed.

Lemma unmarshal_new_no_crash proto t data c : tinfo_ok t -> unmarshal_new proto t data <> Crash c.
Proof.
  intros Hok. unfold unmarshal_new. destruct (go_type t) as [x|e|c0] eqn:E; try discriminate.
  - apply unmarshal_no_crash, Hok.
  - exfalso. eapply go_type_safe; eassumption.
Qed.

(* ---- getCassandraType: no panic at all ------------------------------------------------------------------- *)
Lemma inner_ok name pre : has_prefix name pre = true -> pre <> [] -> exists r, inner name pre = Ok r.
Proof.
  intros H Hp. unfold has_prefix in H. destruct name as [|c name]; [|unfold inner; eauto].
  destruct pre; [contradiction | cbn in H; discriminate].
Qed.
Ltac ne_lit := let X := fresh in intro X; vm_compute in X; discriminate X.

Lemma get_cassandra_type_no_crash : forall fuel name c, get_cassandra_type fuel name <> Crash c.
Proof.
  induction fuel as [|fuel IH]; intros name c; cbn [get_cassandra_type]; [discriminate|].
  assert (Hrec : forall n, match get_cassandra_type fuel n with Crash _ => False | _ => True end).
  { intros n. specialize (IH n). destruct (get_cassandra_type fuel n); try exact I. eapply IH. reflexivity. }
  destruct (has_prefix name (s2b "frozen<"%string)) eqn:E1.
  { apply inner_ok in E1; [|ne_lit]; destruct E1 as [r Hr]; rewrite Hr. cbn [lift]. apply IH. }
  destruct (has_prefix name (s2b "set<"%string)) eqn:E2.
  { apply inner_ok in E2; [|ne_lit]; destruct E2 as [r Hr]; rewrite Hr. cbn [lift]. specialize (Hrec r). destruct (get_cassandra_type fuel r); cbn [lift]; try discriminate; contradiction. }
  destruct (has_prefix name (s2b "list<"%string)) eqn:E3.
  { apply inner_ok in E3; [|ne_lit]; destruct E3 as [r Hr]; rewrite Hr. cbn [lift]. specialize (Hrec r). destruct (get_cassandra_type fuel r); cbn [lift]; try discriminate; contradiction. }
  destruct (has_prefix name (s2b "map<"%string)) eqn:E4.
  { apply inner_ok in E4; [|ne_lit]; destruct E4 as [r Hr]; rewrite Hr. cbn [lift].
    destruct (split_composite_types r) as [|k [|v [|x l]]]; try discriminate.
    pose proof (Hrec k) as Hk. destruct (get_cassandra_type fuel k); cbn [lift]; try discriminate; try contradiction.
    pose proof (Hrec v) as Hv. destruct (get_cassandra_type fuel v); cbn [lift]; try discriminate; contradiction. }
  destruct (has_prefix name (s2b "tuple<"%string)) eqn:E5; [|discriminate].
  apply inner_ok in E5; [|ne_lit]; destruct E5 as [r Hr]; rewrite Hr. cbn [lift].
  generalize (split_composite_types r) as l. intros l.
  assert (Hgo : forall l, match (fix go (l : list bytes) : res (list tinfo) :=
                                 match l with
                                 | [] => Ok []
                                 | x :: l' => lift (get_cassandra_type fuel x) (fun t => lift (go l') (fun ts => Ok (t :: ts)))
                                 end) l with Crash _ => False | _ => True end).
  { induction l0 as [|x l0 IHl]; [exact I|]. pose proof (Hrec x) as Hx. destruct (get_cassandra_type fuel x); cbn [lift]; try exact I; try contradiction.
    match goal with |- match lift ?g _ with _ => _ end => destruct g end; cbn [lift]; try exact I; contradiction. }
  specialize (Hgo l). match goal with |- lift ?g _ <> _ => destruct g end; cbn [lift]; try discriminate; contradiction.
Qed.

(* ---- parseType: the typeParser never panics ------------------------------------------------------------------ *)
Lemma param_loop_no_crash pc : (forall inp idx c, pc inp idx <> Crash c) ->
  forall fuel inp idx acc c, param_loop pc fuel inp idx acc <> Crash c.
Proof.
  intros Hpc. induction fuel as [|fuel IH]; intros inp idx acc c Hc; cbn [param_loop] in Hc; [discriminate|].
  destruct (nth_error inp idx) as [ch|]; [|discriminate].
  destruct (ch =? 41); [discriminate|]. cbv zeta in Hc.
  destruct (next_ident inp idx) as [[name idx1]|]; [|discriminate].
  apply lift_crash in Hc. destruct Hc as [Hc | (r & _ & Hc)]; [eapply Hpc, Hc|].
  destruct (fst r) as [node|]; [|discriminate]. eapply IH, Hc.
Qed.

Lemma parse_class_no_crash : forall fuel inp idx c, parse_class fuel inp idx <> Crash c.
Proof.
  induction fuel as [|fuel IH]; intros inp idx c Hc; cbn [parse_class] in Hc; [discriminate|]. cbv zeta in Hc.
  destruct (next_ident inp (skip_ws inp idx)) as [[name idx1]|]; [|discriminate].
  apply lift_crash in Hc. destruct Hc as [Hc | (r & _ & Hc)].
  - unfold parse_params in Hc. cbv zeta in Hc. destruct (nth_error inp (skip_ws inp idx1)) as [ch|]; [|discriminate].
    destruct (Z.eq_dec ch 40) as [->|Hne].
    + eapply param_loop_no_crash; [exact IH | exact Hc].
    + destruct ch as [|p|p]; try discriminate. repeat (destruct p as [p|p|]; try discriminate). apply Hne. reflexivity.
  - destruct (fst r); discriminate.
Qed.

Lemma as_type_info_no_crash : forall fuel n c, as_type_info fuel n <> Crash c.
Proof.
  induction fuel as [|fuel IH]; intros n c Hc; cbn [as_type_info] in Hc; [discriminate|].
  destruct (has_prefix (cn_name n) K.LIST_TYPE).
  { destruct (cn_params n) as [|e ps]; [discriminate|].
    apply lift_crash in Hc. destruct Hc as [Hc | (t & _ & Hc)]; [eapply IH, Hc | discriminate]. }
  destruct (has_prefix (cn_name n) K.SET_TYPE).
  { destruct (cn_params n) as [|e ps]; [discriminate|].
    apply lift_crash in Hc. destruct Hc as [Hc | (t & _ & Hc)]; [eapply IH, Hc | discriminate]. }
  destruct (has_prefix (cn_name n) K.MAP_TYPE); [|discriminate].
  destruct (cn_params n) as [|k [|e ps]]; try discriminate.
  apply lift_crash in Hc. destruct Hc as [Hc | (kt & _ & Hc)]; [eapply IH, Hc|].
  apply lift_crash in Hc. destruct Hc as [Hc | (et & _ & Hc)]; [eapply IH, Hc | discriminate].
Qed.

Lemma parse_type_no_crash def c : parse_type def <> Crash c.
Proof.
  unfold parse_type. cbv zeta. intros Hc.
  apply lift_crash in Hc. destruct Hc as [Hc | (r & _ & Hc)]; [eapply parse_class_no_crash, Hc|].
  destruct (fst r) as [ast|]; [|discriminate].
  assert (Hnc : lift (as_type_info (S (length def)) (snd (unreverse ast)))
                  (fun t => Ok {| tr_composite := false; tr_types := [t]; tr_reversed := [fst (unreverse ast)]; tr_collections := [] |})
                <> Crash c).
  { intros H. apply lift_crash in H. destruct H as [H | (t & _ & H)]; [eapply as_type_info_no_crash, H | discriminate]. }
  destruct (has_prefix (cn_name ast) K.COMPOSITE_TYPE); [|exact (Hnc Hc)].
  destruct (rev (cn_params ast)) as [|lastp before_rev]; [exact (Hnc Hc)|].
  cbv zeta in Hc. apply lift_crash in Hc. destruct Hc as [Hc | (colls & _ & Hc)].
  - destruct (has_prefix (cn_name (snd lastp)) K.COLLECTION_TYPE); [|discriminate].
    revert Hc. generalize (cn_params (snd lastp)) as ps. induction ps as [|[nm cls] ps IHp]; intros Hc; [discriminate|].
    destruct nm as [n|]; [|exact (IHp Hc)].
    apply lift_crash in Hc. destruct Hc as [Hc | (t & _ & Hc)]; [eapply as_type_info_no_crash, Hc|].
    apply lift_crash in Hc. destruct Hc as [Hc | (rest & _ & Hc)]; [exact (IHp Hc) | discriminate].
  - destruct (has_prefix (cn_name (snd lastp)) K.COLLECTION_TYPE && match before_rev with [] => true | _ => false end); [discriminate|].
    apply lift_crash in Hc. destruct Hc as [Hc | (trs & _ & Hc)]; [|discriminate].
    revert Hc. generalize (if has_prefix (cn_name (snd lastp)) K.COLLECTION_TYPE then rev before_rev else cn_params ast) as ps.
    induction ps as [|[nm cls] ps IHp]; intros Hc; [discriminate|].
    cbv zeta in Hc. apply lift_crash in Hc. destruct Hc as [Hc | (t & _ & Hc)]; [eapply as_type_info_no_crash, Hc|].
    apply lift_crash in Hc. destruct Hc as [Hc | (rest & _ & Hc)]; [exact (IHp Hc) | discriminate].
Qed.

(* ---- getCassandraType: the fuel of the model is never exhausted ------------------------------------------- *)
Lemma trim_prefix_len : forall pre s r, trim_prefix s pre = Some r -> (length r <= length s)%nat.
Proof.
  induction pre as [|p pre IH]; intros s r H; cbn [trim_prefix] in H; [inversion H; lia|].
  destruct s as [|c s]; [discriminate|]. destruct (c =? p); [|discriminate]. apply IH in H. simpl. lia.
Qed.
Lemma go_trim_prefix_len s pre : (length (go_trim_prefix s pre) <= length s)%nat.
Proof. unfold go_trim_prefix. destruct (trim_prefix s pre) eqn:E; [eapply trim_prefix_len, E | lia]. Qed.
Lemma removelast_len {A} (l : list A) : l <> [] -> (length (removelast l) < length l)%nat.
Proof.
  induction l as [|x l IH]; intros H; [contradiction|]. destruct l as [|y l]; [simpl; lia|].
  cbn [removelast length] in *. specialize (IH ltac:(discriminate)). lia.
Qed.
Lemma inner_len name pre r : inner name pre = Ok r -> (length r < length name)%nat.
Proof.
  unfold inner. destruct name as [|c name]; [discriminate|]. intros H.
  assert (E : r = go_trim_prefix (removelast (c :: name)) pre) by (inversion H; reflexivity). rewrite E.
  pose proof (go_trim_prefix_len (removelast (c :: name)) pre) as H1.
  pose proof (removelast_len (c :: name) ltac:(discriminate)) as H2.
  eapply Nat.le_lt_trans; eassumption.
Qed.

Lemma trim_left_len s : (length (trim_left s) <= length s)%nat.
Proof. induction s as [|c s IH]; [simpl; lia|]. cbn [trim_left]. destruct (is_space c); simpl in *; lia. Qed.
Lemma trim_space_len s : (length (trim_space s) <= length s)%nat.
Proof.
  unfold trim_space. rewrite rev_length. pose proof (trim_left_len (rev (trim_left s))). rewrite rev_length in H.
  pose proof (trim_left_len s). lia.
Qed.

Lemma split_comma_space_len : forall n s cur x, (length s <= n)%nat -> In x (split_comma_space s cur) ->
  (length x <= length s + length cur)%nat.
Proof.
  induction n as [|n IH]; intros s cur x Hn Hx.
  - destruct s; [|simpl in Hn; lia]. cbn [split_comma_space] in Hx. destruct Hx as [<-|[]]. rewrite rev_length. simpl. lia.
  - destruct s as [|c s]; [cbn [split_comma_space] in Hx; destruct Hx as [<-|[]]; rewrite rev_length; simpl; lia|].
    cbn [split_comma_space] in Hx. simpl in Hn. destruct s as [|c2 s2].
    + apply IH in Hx; [|simpl; lia]. simpl in *. lia.
    + destruct ((c =? 44) && (c2 =? 32)).
      * destruct Hx as [<-|Hx]; [rewrite rev_length; simpl; lia|]. apply IH in Hx; [|simpl in *; lia]. simpl in *. lia.
      * apply IH in Hx; [|simpl in *; lia]. simpl in *. lia.
Qed.

Lemma split_loop_len : forall s less seg parts x, In x (split_loop s less seg parts) ->
  In x parts \/ (length x <= length s + length seg)%nat.
Proof.
  induction s as [|c s IH]; intros less seg parts x Hx; cbn [split_loop] in Hx.
  - destruct seg as [|y seg]; [left; apply in_rev, Hx|]. apply in_rev in Hx. destruct Hx as [<-|Hx]; [|left; exact Hx].
    right. pose proof (trim_space_len (rev (y :: seg))). rewrite rev_length in H. simpl in *. lia.
  - destruct ((c =? 44) && (less =? 0)).
    + apply IH in Hx. destruct Hx as [Hx|Hx]; [|right; simpl in *; lia].
      destruct seg as [|y seg]; [left; exact Hx|]. destruct Hx as [<-|Hx]; [|left; exact Hx].
      right. pose proof (trim_space_len (rev (y :: seg))). rewrite rev_length in H. simpl in *. lia.
    + apply IH in Hx. destruct Hx as [Hx|Hx]; [left; exact Hx | right; simpl in *; lia].
Qed.

Lemma split_composite_len n x : In x (split_composite_types n) -> (length x <= length n)%nat.
Proof.
  unfold split_composite_types. destruct (negb (contains_byte 60 n)); intros H.
  - apply (split_comma_space_len (length n)) in H; [simpl in H; lia | lia].
  - apply split_loop_len in H. destruct H as [[]|H]. simpl in H. lia.
Qed.

Lemma get_cassandra_type_fuel : forall fuel name, (length name < fuel)%nat -> get_cassandra_type fuel name <> Err EFuel.
Proof.
  induction fuel as [|fuel IH]; intros name Hl; [lia|]. cbn [get_cassandra_type].
  assert (Hrec : forall n, (length n < length name)%nat -> match get_cassandra_type fuel n with Err EFuel => False | _ => True end).
  { intros n Hn. specialize (IH n ltac:(lia)). destruct (get_cassandra_type fuel n) as [t|e|c]; try exact I. destruct e; try exact I. apply IH. reflexivity. }
  destruct (has_prefix name (s2b "frozen<"%string)) eqn:E1.
  { apply inner_ok in E1; [|ne_lit]. destruct E1 as [r Hr]. rewrite Hr. cbn [lift]. apply IH. apply inner_len in Hr. lia. }
  destruct (has_prefix name (s2b "set<"%string)) eqn:E2.
  { apply inner_ok in E2; [|ne_lit]. destruct E2 as [r Hr]. rewrite Hr. cbn [lift]. pose proof (Hrec r (inner_len _ _ _ Hr)) as H.
    destruct (get_cassandra_type fuel r) as [t|e|c]; cbn [lift]; try discriminate. destruct e; try discriminate; contradiction. }
  destruct (has_prefix name (s2b "list<"%string)) eqn:E3.
  { apply inner_ok in E3; [|ne_lit]. destruct E3 as [r Hr]. rewrite Hr. cbn [lift]. pose proof (Hrec r (inner_len _ _ _ Hr)) as H.
    destruct (get_cassandra_type fuel r) as [t|e|c]; cbn [lift]; try discriminate. destruct e; try discriminate; contradiction. }
  destruct (has_prefix name (s2b "map<"%string)) eqn:E4.
  { apply inner_ok in E4; [|ne_lit]. destruct E4 as [r Hr]. rewrite Hr. cbn [lift]. pose proof (inner_len _ _ _ Hr) as Hlr.
    destruct (split_composite_types r) as [|k [|v [|x l]]] eqn:Es; try discriminate.
    assert (Hk : (length k <= length r)%nat) by (apply split_composite_len; rewrite Es; left; reflexivity).
    assert (Hv : (length v <= length r)%nat) by (apply split_composite_len; rewrite Es; right; left; reflexivity).
    pose proof (Hrec k ltac:(lia)) as H1. destruct (get_cassandra_type fuel k) as [t|e|c]; cbn [lift]; try discriminate;
      [|destruct e; try discriminate; contradiction].
    pose proof (Hrec v ltac:(lia)) as H2. destruct (get_cassandra_type fuel v) as [t2|e|c]; cbn [lift]; try discriminate.
    destruct e; try discriminate; contradiction. }
  destruct (has_prefix name (s2b "tuple<"%string)) eqn:E5; [|discriminate].
  apply inner_ok in E5; [|ne_lit]. destruct E5 as [r Hr]. rewrite Hr. cbn [lift]. pose proof (inner_len _ _ _ Hr) as Hlr.
  assert (Hall : forall x, In x (split_composite_types r) -> (length x < length name)%nat).
  { intros x Hx. apply split_composite_len in Hx. lia. }
  revert Hall. generalize (split_composite_types r) as l. intros l Hall.
  assert (Hgo : match (fix go (l : list bytes) : res (list tinfo) :=
                         match l with
                         | [] => Ok []
                         | x :: l' => lift (get_cassandra_type fuel x) (fun t => lift (go l') (fun ts => Ok (t :: ts)))
                         end) l with Err EFuel => False | _ => True end).
  { induction l as [|x l IHl]; [exact I|].
    pose proof (Hrec x (Hall x (or_introl eq_refl))) as Hx. destruct (get_cassandra_type fuel x) as [t|e|c]; cbn [lift]; try exact I;
      [|destruct e; try exact I; contradiction].
    specialize (IHl (fun y Hy => Hall y (or_intror Hy))).
    match goal with |- match lift ?g _ with _ => _ end => destruct g as [ts|e|c] end; cbn [lift]; try exact I.
    destruct e; try exact I; contradiction. }
  match goal with |- lift ?g _ <> _ => destruct g as [ts|e|c] end; cbn [lift]; try discriminate.
  destruct e; try discriminate; contradiction.
Qed.

Lemma get_cassandra_type_top_total name : exists t, get_cassandra_type_top name = Ok t.
Proof.
  unfold get_cassandra_type_top.
  pose proof (get_cassandra_type_fuel (S (length name)) name ltac:(lia)) as Hf.
  pose proof (get_cassandra_type_no_crash (S (length name)) name) as Hc.
  assert (Hne : forall fuel n e, get_cassandra_type fuel n = Err e -> e = EFuel).
  { induction fuel as [|fuel IH]; intros n e H; cbn [get_cassandra_type] in H; [inversion H; reflexivity|].
    assert (Hl : forall {B C} (r : res B) (k : B -> res C) e, lift r k = Err e -> r = Err e \/ exists a, r = Ok a /\ k a = Err e).
    { intros B C r k e0 H0. destruct r; cbn [lift] in H0; [right; eauto | left; inversion H0; reflexivity | discriminate]. }
    destruct (has_prefix n (s2b "frozen<"%string)).
    { apply Hl in H. destruct H as [H|(r & _ & H)]; [unfold inner in H; destruct n; discriminate | eapply IH, H]. }
    destruct (has_prefix n (s2b "set<"%string)).
    { apply Hl in H. destruct H as [H|(r & _ & H)]; [unfold inner in H; destruct n; discriminate|].
      apply Hl in H. destruct H as [H|(t & _ & H)]; [eapply IH, H | discriminate]. }
    destruct (has_prefix n (s2b "list<"%string)).
    { apply Hl in H. destruct H as [H|(r & _ & H)]; [unfold inner in H; destruct n; discriminate|].
      apply Hl in H. destruct H as [H|(t & _ & H)]; [eapply IH, H | discriminate]. }
    destruct (has_prefix n (s2b "map<"%string)).
    { apply Hl in H. destruct H as [H|(r & _ & H)]; [unfold inner in H; destruct n; discriminate|].
      destruct (split_composite_types r) as [|k [|v [|x l]]]; try discriminate.
      apply Hl in H. destruct H as [H|(kt & _ & H)]; [eapply IH, H|].
      apply Hl in H. destruct H as [H|(vt & _ & H)]; [eapply IH, H | discriminate]. }
    destruct (has_prefix n (s2b "tuple<"%string)); [|discriminate].
    apply Hl in H. destruct H as [H|(r & _ & H)]; [unfold inner in H; destruct n; discriminate|].
    apply Hl in H. destruct H as [H|(ts & _ & H)]; [|discriminate].
    revert H. generalize (split_composite_types r) as l. induction l as [|x l IHl]; intros H; [discriminate|].
    apply Hl in H. destruct H as [H|(t & _ & H)]; [eapply IH, H|].
    match type of H with lift ?g _ = _ => destruct g as [ts|e0|c0] eqn:Eg end; cbn [lift] in H; try discriminate.
    inversion H; subst. apply IHl. reflexivity. }
  destruct (get_cassandra_type (S (length name)) name) as [t|e|c] eqn:E; [eauto | | exfalso; eapply Hc; reflexivity].
  exfalso. apply Hf. rewrite (Hne _ _ _ E). reflexivity.
Qed.

(* ---- Unmarshal: the fuel of the list / map loops is never exhausted ---------------------------------------- *)
Lemma lift_err {A B} (r : res A) (k : A -> res B) e :
  lift r k = Err e -> r = Err e \/ exists a, r = Ok a /\ k a = Err e.
Proof. destruct r as [a|e'|c']; cbn [lift]; intros H; [right; eauto | inversion H; left; reflexivity | discriminate]. Qed.

Lemma read_coll_size_consumes proto d n d1 : out (read_coll_size proto) d = Ok (n, d1) -> (length d1 + 2 <= length d)%nat.
Proof.
  unfold read_coll_size. destruct (proto >? K.protoVersion2); rewrite out_bind; unfold rbind; rewrite out_get_len.
  - destruct (Z.ltb_spec (blen d) 4) as [Hlt|Hge]; [discriminate|]. rewrite out_bind. unfold rbind. rewrite out_take_ok by lia.
    rewrite out_ret. remember (skipn (Z.to_nat 4) d) as r eqn:Er. intros H.
    assert (d1 = r) by congruence. subst d1 r. rewrite skipn_length. unfold blen in *. lia.
  - destruct (Z.ltb_spec (blen d) 2) as [Hlt|Hge]; [discriminate|]. rewrite out_bind. unfold rbind. rewrite out_take_ok by lia.
    rewrite out_ret. remember (skipn (Z.to_nat 2) d) as r eqn:Er. intros H.
    assert (d1 = r) by congruence. subst d1 r. rewrite skipn_length. unfold blen in *. lia.
Qed.

Lemma read_coll_size_err proto d e : out (read_coll_size proto) d = Err e -> e = EUnmarshal.
Proof.
  unfold read_coll_size. destruct (proto >? K.protoVersion2); rewrite out_bind; unfold rbind; rewrite out_get_len.
  - destruct (Z.ltb_spec (blen d) 4) as [Hlt|Hge]; [intros H; inversion H; reflexivity|]. rewrite out_bind. unfold rbind. rewrite out_take_ok by lia. discriminate.
  - destruct (Z.ltb_spec (blen d) 2) as [Hlt|Hge]; [intros H; inversion H; reflexivity|]. rewrite out_bind. unfold rbind. rewrite out_take_ok by lia. discriminate.
Qed.

Lemma read_coll_elem_consumes proto d o d' : out (read_coll_elem proto) d = Ok (o, d') -> (length d' < length d)%nat.
Proof.
  unfold read_coll_elem. rewrite out_bind. unfold rbind.
  destruct (out (read_coll_size proto) d) as [[m d1]|e|c] eqn:E; try discriminate. apply read_coll_size_consumes in E.
  destruct (Z.geb_spec m 0) as [Hm|Hm]; [|rewrite out_ret; intros H; inversion H; subst; lia].
  rewrite out_bind. unfold rbind. rewrite out_get_len. destruct (Z.ltb_spec (blen d1) m) as [Hlt|Hge]; [discriminate|].
  rewrite out_bind. unfold rbind. rewrite out_take_ok by lia. rewrite out_ret. remember (skipn (Z.to_nat m) d1) as r eqn:Er. intros H.
  assert (d' = r) by congruence. subst d' r. rewrite skipn_length. lia.
Qed.

Lemma read_coll_elem_err proto d e : out (read_coll_elem proto) d = Err e -> e = EUnmarshal.
Proof.
  unfold read_coll_elem. rewrite out_bind. unfold rbind.
  destruct (out (read_coll_size proto) d) as [[m d1]|e0|c] eqn:E; try discriminate.
  - destruct (Z.geb_spec m 0) as [Hm|Hm]; [|discriminate]. rewrite out_bind. unfold rbind. rewrite out_get_len.
    destruct (Z.ltb_spec (blen d1) m) as [Hlt|Hge]; [intros H; inversion H; reflexivity|].
    rewrite out_bind. unfold rbind. rewrite out_take_ok by lia. discriminate.
  - intros H. inversion H; subst. eapply read_coll_size_err, E.
Qed.

Lemma list_loop_fuel um proto : (forall d, um d <> Err EFuel) ->
  forall fuel n d, (length d < fuel)%nat -> list_loop um proto fuel n d <> Err EFuel.
Proof.
  intros Hum. induction fuel as [|fuel IH]; intros n d Hl; [lia|]. cbn [list_loop]. destruct (n <=? 0); [discriminate|].
  intros H. apply lift_err in H. destruct H as [H|(ed & He & H)]; [apply read_coll_elem_err in H; discriminate|].
  destruct ed as [o d']. apply read_coll_elem_consumes in He. cbn [fst snd] in H.
  apply lift_err in H. destruct H as [H|(u & _ & H)]; [eapply Hum, H|]. eapply IH; [|exact H]. lia.
Qed.

Lemma map_loop_fuel uk uv proto : (forall d, uk d <> Err EFuel) -> (forall d, uv d <> Err EFuel) ->
  forall fuel n d, (length d < fuel)%nat -> map_loop uk uv proto fuel n d <> Err EFuel.
Proof.
  intros Huk Huv. induction fuel as [|fuel IH]; intros n d Hl; [lia|]. cbn [map_loop]. destruct (n <=? 0); [discriminate|].
  intros H. apply lift_err in H. destruct H as [H|(kd & Hk & H)]; [apply read_coll_elem_err in H; discriminate|].
  destruct kd as [ko d1]. apply read_coll_elem_consumes in Hk. cbn [fst snd] in H.
  apply lift_err in H. destruct H as [H|(u & _ & H)]; [eapply Huk, H|].
  apply lift_err in H. destruct H as [H|(vd & Hv & H)]; [apply read_coll_elem_err in H; discriminate|].
  destruct vd as [vo d2]. apply read_coll_elem_consumes in Hv. cbn [fst snd] in H.
  apply lift_err in H. destruct H as [H|(u2 & _ & H)]; [eapply Huv, H|]. eapply IH; [|exact H]. lia.
Qed.

Lemma unmarshal_leaf_no_fuel typ data : unmarshal_leaf typ data <> Err EFuel.
Proof.
  unfold unmarshal_leaf. cbv zeta.
  destruct (typ =? K.TypeDecimal). { destruct (_ =? 0); [discriminate|]. destruct (_ <? 4); discriminate. }
  destruct (typ =? K.TypeDate). { destruct (_ =? 0); [discriminate|]. destruct (_ <? 4); discriminate. }
  destruct ((typ =? K.TypeUUID) || (typ =? K.TypeTimeUUID)). { destruct ((_ =? 0) || (_ =? 16)); discriminate. }
  destruct (typ =? K.TypeDuration); [|discriminate].
  destruct (_ =? 0); [discriminate|].
  destruct (dec_vint _ 0) as [i|]; [|discriminate]. destruct (dec_vint _ i) as [j|]; [|discriminate]. destruct (dec_vint _ j); discriminate.
Qed.

Lemma tuple_read_bytes_err d e : out tuple_read_bytes d = Err e -> e = EUnmarshal.
Proof.
  unfold tuple_read_bytes. rewrite out_bind. unfold rbind. unfold out at 1, take.
  destruct ((4 <? 0) || (blen d <? 4)); cbn [fst]; [discriminate|].
  match goal with |- context [?x <? 0] => destruct (x <? 0) end; [discriminate|]. rewrite out_bind. unfold rbind. rewrite out_get_len.
  match goal with |- context [blen ?r <? ?x] => destruct (Z.ltb_spec (blen r) x) as [Hlt|Hge] end; [intros H; inversion H; reflexivity|].
  rewrite out_bind. unfold rbind. unfold out at 1, take.
  match goal with |- context [if ?c then _ else _] => destruct c end; cbn [fst]; discriminate.
Qed.

Lemma unmarshal_no_fuel proto : forall t data, unmarshal proto t data <> Err EFuel.
Proof.
  induction t as [typ cu | typ cu k e IHk IHe | cu es IH | cu ks n fs IH] using tinfo_ind2; intros data.
  - apply unmarshal_leaf_no_fuel.
  - cbn [unmarshal]. destruct data as [d|]; [|discriminate]. destruct (typ =? K.TypeMap).
    + destruct k as [k'|]; [|discriminate]. intros H. apply lift_err in H. destruct H as [H|(nd & Hn & H)]; [apply read_coll_size_err in H; discriminate|].
      destruct (fst nd <? 0); [discriminate|]. destruct (fst nd >? _); [discriminate|]. revert H. apply map_loop_fuel; [apply (IHk k' eq_refl) | apply IHe | lia].
    + intros H. apply lift_err in H. destruct H as [H|(nd & Hn & H)]; [apply read_coll_size_err in H; discriminate|].
      destruct (fst nd <? 0); [discriminate|]. destruct (fst nd >? _); [discriminate|]. revert H. apply list_loop_fuel; [apply IHe | lia].
  - cbn [unmarshal]. generalize (opt_bytes data) as d. induction IH as [|e es IHe IHes IHl]; intros d; [discriminate|].
    intros H. apply lift_err in H. destruct H as [H|(pd & _ & H)].
    { destruct (blen d >=? 4); [apply tuple_read_bytes_err in H; discriminate | discriminate]. }
    apply lift_err in H. destruct H as [H|(u0 & _ & H)]; [destruct (go_type e); discriminate|].
    apply lift_err in H. destruct H as [H|(u1 & _ & H)]; [eapply IHe, H | eapply IHl, H].
  - cbn [unmarshal]. destruct data as [d|]; [|discriminate]. revert d. induction IH as [|f fs IHf IHfs IHl]; intros d; [discriminate|].
    destruct f as [fnm ft]. cbn [snd] in *. destruct (blen d =? 0); [discriminate|]. destruct (blen d <? 4); [discriminate|].
    intros H. apply lift_err in H. destruct H as [H|(u0 & _ & H)]; [destruct (go_type ft); discriminate|].
    apply lift_err in H. destruct H as [H|(pd & _ & H)]; [apply tuple_read_bytes_err in H; discriminate|].
    apply lift_err in H. destruct H as [H|(u1 & _ & H)]; [eapply IHf, H | eapply IHl, H].
Qed.
