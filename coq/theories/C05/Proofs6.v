(* C05/Proofs6.v -- allocation in proportion to the bytes received.
   [lin F s K p]: on every byte string, when p succeeds the bytes it asked the allocator for, plus a slack
   s (which may depend on the value read), are at most 80 per byte consumed; when it fails they are at most
   F per byte of the buffer plus the constant K.  K only pays for allocations sized by a 16-bit or otherwise
   bounded count before the elements are read (string lists, maps, up to 999 column specs); the slack lets the
   elements read afterwards pay for them when the parse goes on. *)
From GocqlV Require Import Lib.Base Gen.Consts C04.Model C04.Proofs1 C05.Model C05.Proofs1.

Arguments Z.mul : simpl never.
Arguments Z.add : simpl never.
Arguments Z.pow : simpl never.
Arguments Z.of_nat : simpl never.
Arguments Z.to_nat : simpl never.
Arguments Z.ltb : simpl never.
Arguments Z.leb : simpl never.
Arguments Z.eqb : simpl never.
Arguments Z.gtb : simpl never.
Arguments Z.geb : simpl never.
Arguments Z.land : simpl never.
Arguments Z.max : simpl never.

Definition lin {T} (F : Z) (s : T -> Z) (K : Z) (p : P T) : Prop :=
  forall b, wf_bytes b ->
    match out p b with
    | Ok (a, b') => cost p b + s a <= 80 * (blen b - blen b')
    | _ => cost p b <= F * blen b + K
    end.

Lemma cost_bind {A B} (p : P A) (f : A -> P B) b :
  cost (bind p f) b = match out p b with Ok (a, b') => cost p b + cost (f a) b' | _ => cost p b end.
Proof.
  unfold cost, out, bind. destruct (p b) as [[[a b']|e|c] k]; cbn [fst snd]; try reflexivity.
  destruct (f a b'); reflexivity.
Qed.

Lemma suffix_blen b' b : suffix_of b' b -> blen b' <= blen b.
Proof. intros H. apply suffix_len in H. unfold blen. lia. Qed.

Lemma lin_ret {T} F (s : T -> Z) K (a : T) : s a <= 0 -> lin F s K (ret a).
Proof. intros H b _. rewrite out_ret. unfold cost, ret. cbn [snd]. lia. Qed.

Lemma lin_fail {T} F (s : T -> Z) K e : 0 <= F -> 0 <= K -> lin F s K (fail e).
Proof. intros HF HK b _. rewrite out_fail. unfold cost, fail. cbn [snd]. pose proof (blen_nonneg b). nia. Qed.

Lemma lin_weaken {T} F F' (s s' : T -> Z) K K' p :
  lin F s K p -> F <= F' -> (forall a, s' a <= s a) -> K <= K' -> lin F' s' K' p.
Proof.
  intros H HF Hs HK b Hb. specialize (H b Hb). pose proof (blen_nonneg b).
  destruct (out p b) as [[a b']|e|c]; [specialize (Hs a); lia | nia | nia].
Qed.

(* sequencing: the first part must not be in debt (it may fail afterwards) *)
Lemma lin_bind {A B} F (Q : A -> Prop) (s1 : A -> Z) (r : B -> Z) K (p : P A) (f : A -> P B) :
  80 <= F -> good [] Q p -> lin F s1 K p -> (forall a, Q a -> 0 <= s1 a) ->
  (forall a, Q a -> lin F (fun y => r y - s1 a) K (f a)) -> lin F r K (bind p f).
Proof.
  intros HF Hg Hp Hs Hf b Hb. rewrite out_bind, cost_bind. unfold rbind. specialize (Hg b Hb). specialize (Hp b Hb).
  destruct (out p b) as [[a b1]|e|c]; try assumption.
  destruct Hg as [Ha Hsuf]. pose proof (suffix_blen _ _ Hsuf) as Hl. pose proof (suffix_wf _ _ Hsuf Hb) as Hb1.
  specialize (Hs a Ha). specialize (Hf a Ha b1 Hb1). pose proof (blen_nonneg b1).
  destruct (out (f a) b1) as [[y b2]|e|c]; [lia | nia | nia].
Qed.

(* an allocation followed by a plain return: paid by whatever slack precedes it *)
Lemma lin_alloc_ret {T} F K c (x : T) (s : T -> Z) : s x <= - c -> lin F s K (alloc c ;;; ret x).
Proof. intros H b _. unfold out, cost, bind, alloc, ret. cbn [fst snd]. lia. Qed.

(* an allocation sized by a bounded count before the elements are read *)
Lemma lin_alloc_then {T} F (s : T -> Z) K c cmax (q : P T) :
  c <= cmax -> lin F s K q -> lin F (fun y => s y - c) (K + cmax) (alloc c ;;; q).
Proof.
  intros Hc Hq b Hb. rewrite out_bind, cost_bind. unfold rbind. rewrite out_alloc. specialize (Hq b Hb).
  assert (cost (alloc c) b = c) by reflexivity.
  destruct (out q b) as [[y b2]|e|c0]; lia.
Qed.

Lemma blen_skipn n b : 0 <= n <= blen b -> blen (skipn (Z.to_nat n) b) = blen b - n.
Proof. intros H. unfold blen in *. rewrite skipn_length. lia. Qed.

(* need n; x := take n; f x *)
Lemma lin_need_take {T} F (r : T -> Z) K n (f : bytes -> P T) :
  80 <= F -> 0 <= K -> 0 <= n -> (forall x, wf_bytes x -> blen x = n -> lin F (fun y => r y - 80 * n) K (f x)) ->
  lin F r K (bind (need n) (fun _ => bind (take CGuarded n) f)).
Proof.
  intros HF HK Hn Hf b Hb. rewrite out_bind, cost_bind. unfold rbind. pose proof (blen_nonneg b).
  destruct (Z.ltb_spec (blen b) n) as [Hlt|Hge].
  - rewrite out_need_short by assumption. unfold cost, need. destruct (blen b <? n); cbn [snd]; nia.
  - rewrite out_need_ok by assumption. rewrite out_bind, cost_bind. unfold rbind. rewrite out_take_ok by lia.
    assert (Hx : wf_bytes (firstn (Z.to_nat n) b)) by (apply wf_firstn, Hb).
    assert (Hl : blen (firstn (Z.to_nat n) b) = n) by (unfold blen in *; rewrite firstn_length; lia).
    specialize (Hf _ Hx Hl (skipn (Z.to_nat n) b) (wf_skipn _ _ Hb)).
    assert (C1 : cost (need n) b = 0) by (unfold cost, need; destruct (blen b <? n); reflexivity).
    assert (C2 : cost (take CGuarded n) b = 0) by (unfold cost, take; destruct ((n <? 0) || (blen b <? n)); reflexivity).
    rewrite C1, C2. rewrite blen_skipn in Hf by lia.
    destruct (out (f (firstn (Z.to_nat n) b)) (skipn (Z.to_nat n) b)) as [[y b2]|e|c]; [lia | nia | nia].
Qed.

Lemma lin_need_take0 F K n : 80 <= F -> 0 <= K -> 0 <= n ->
  lin F (fun _ => 80 * n) K (bind (need n) (fun _ => take CGuarded n)).
Proof.
  intros HF HK Hn b Hb. rewrite out_bind, cost_bind. unfold rbind. pose proof (blen_nonneg b).
  assert (C1 : cost (need n) b = 0) by (unfold cost, need; destruct (blen b <? n); reflexivity).
  assert (C2 : cost (take CGuarded n) b = 0) by (unfold cost, take; destruct ((n <? 0) || (blen b <? n)); reflexivity).
  destruct (Z.ltb_spec (blen b) n) as [Hlt|Hge].
  - rewrite out_need_short by assumption. nia.
  - rewrite out_need_ok by assumption. rewrite out_take_ok by lia. rewrite blen_skipn by lia. lia.
Qed.

(* counted loops: every element leaves the slack s *)
Lemma lin_read_loop {T} F (Q : T -> Prop) s K (p : P T) : 80 <= F -> 0 <= K -> 0 <= s ->
  good [] Q p -> lin F (fun _ => s) K p -> forall fuel n, lin F (fun _ => s * Z.max n 0) K (read_loop fuel p n).
Proof.
  intros HF HK Hs Hg Hp fuel. induction fuel as [|fuel IH]; intros n; cbn [read_loop]; destruct (Z.leb_spec n 0) as [Hn|Hn].
  - apply lin_ret. nia.
  - apply lin_fail; lia.
  - apply lin_ret. nia.
  - eapply lin_bind with (Q := Q) (s1 := fun _ => s); [lia | exact Hg | exact Hp | intros; lia|].
    intros x _. eapply lin_bind with (Q := Forall Q) (s1 := fun _ => s * Z.max (n - 1) 0);
      [lia | apply good_read_loop, Hg | apply IH | intros; nia|].
    intros xs _. apply lin_ret. nia.
Qed.

Lemma lin_read_count {T} F (Q : T -> Prop) s K (p : P T) n : 80 <= F -> 0 <= K -> 0 <= s ->
  good [] Q p -> lin F (fun _ => s) K p -> lin F (fun _ => s * Z.max n 0) K (read_count p n).
Proof.
  intros HF HK Hs Hg Hp b Hb. unfold read_count, out, cost.
  exact (lin_read_loop F Q s K p HF HK Hs Hg Hp (S (length b)) n b Hb).
Qed.

(* ---- primitives ------------------------------------------------------------------------------------------- *)
Section prims.
  Variables (F K : Z).
  Hypothesis HF : 80 <= F.
  Hypothesis HK : 0 <= K.

  Lemma lin_read_byte : lin F (fun _ => 80) K read_byte.
  Proof. unfold read_byte. apply lin_need_take; try lia. intros x _ _. apply lin_ret. lia. Qed.
  Lemma lin_read_short : lin F (fun _ => 160) K read_short.
  Proof. unfold read_short. apply lin_need_take; try lia. intros x _ _. apply lin_ret. lia. Qed.
  Lemma lin_read_int : lin F (fun _ => 320) K read_int.
  Proof. unfold read_int. apply lin_need_take; try lia. intros x _ _. apply lin_ret. lia. Qed.

  (* string(f.buf[:size]) allocates size bytes for size + 2 consumed *)
  Lemma lin_read_string : lin F (fun x => 160 + 79 * blen x) K read_string.
  Proof.
    unfold read_string. eapply lin_bind with (s1 := fun _ => 160); [lia | apply good_read_short | apply lin_read_short | intros; lia|].
    intros size Hs. cbv beta in Hs. apply lin_need_take; try lia. intros x _ Hl. apply lin_alloc_ret. lia.
  Qed.

  Lemma lin_read_bytes : lin F (fun o => 320 + 80 * blen (opt_bytes o)) K read_bytes.
  Proof.
    unfold read_bytes. eapply lin_bind with (s1 := fun _ => 320); [lia | apply good_read_int | apply lin_read_int | intros; lia|].
    intros size _. destruct (Z.ltb_spec size 0); [apply lin_ret; cbn [opt_bytes]; rewrite blen_nil; lia|].
    apply lin_need_take; try lia. intros x _ Hl. apply lin_ret. cbn [opt_bytes]. lia.
  Qed.

  Lemma lin_read_short_bytes : lin F (fun x => 160 + 80 * blen x) K read_short_bytes.
  Proof.
    unfold read_short_bytes. intros b Hb. rewrite out_bind, cost_bind. unfold rbind.
    pose proof (lin_read_short b Hb) as H1. pose proof (good_read_short [] b Hb) as G1. pose proof (blen_nonneg b).
    destruct (out read_short b) as [[size b1]|e|c]; try assumption.
    destruct G1 as [Hs Hsuf]. cbv beta in Hs. pose proof (suffix_blen _ _ Hsuf). pose proof (suffix_wf _ _ Hsuf Hb) as Hb1.
    pose proof (lin_need_take0 F K size HF HK ltac:(lia) b1 Hb1) as H2. pose proof (blen_nonneg b1).
    pose proof (good_need_take0 [] size ltac:(lia) b1 Hb1) as G2.
    destruct (out (need size;;; take CGuarded size) b1) as [[x b2]|e|c]; [|nia|nia].
    destruct G2 as [[_ Hx] _]. lia.
  Qed.

  Lemma lin_read_uuid : lin F (fun _ => 0) K read_uuid.
  Proof. unfold read_uuid. apply lin_need_take; try lia. intros x _ _. apply lin_alloc_ret. lia. Qed.

  Lemma lin_read_inet_addr : lin F (fun _ => 80) K read_inet_addr.
  Proof.
    unfold read_inet_addr. apply lin_need_take; try lia. intros sz Hsz Hl. cbv zeta.
    destruct (Z.eqb_spec (be_dec sz) 4) as [E4|E4]; [|destruct (Z.eqb_spec (be_dec sz) 16) as [E16|E16]]; cbn [orb negb];
      try (apply lin_fail; lia).
    all: intros b Hb; rewrite out_bind, cost_bind; unfold rbind; pose proof (blen_nonneg b);
      assert (C1 : cost (need (be_dec sz)) b = 0) by (unfold cost, need; destruct (blen b <? be_dec sz); reflexivity);
      (destruct (Z.ltb_spec (blen b) (be_dec sz)) as [Hlt|Hge]; [rewrite out_need_short by assumption; nia|]);
      rewrite out_need_ok by assumption; rewrite out_bind, cost_bind; unfold rbind; rewrite out_alloc;
      rewrite out_take_ok by lia; rewrite blen_skipn by lia;
      assert (C2 : cost (alloc (be_dec sz)) b = be_dec sz) by reflexivity;
      assert (C3 : cost (take CGuarded (be_dec sz)) b = 0) by (unfold cost, take; destruct ((be_dec sz <? 0) || (blen b <? be_dec sz)); reflexivity);
      lia.
  Qed.

  Lemma lin_read_inet : lin F (fun _ => 0) K read_inet.
  Proof.
    unfold read_inet. eapply lin_bind with (s1 := fun _ => 80); [lia | apply good_read_inet_addr | apply lin_read_inet_addr | intros; lia|].
    intros ip _. eapply lin_bind with (s1 := fun _ => 320); [lia | apply good_read_int | apply lin_read_int | intros; lia|].
    intros port _. apply lin_ret. lia.
  Qed.
End prims.

Lemma lin_string_16 F K : 80 <= F -> 0 <= K -> lin F (fun _ => 160) K read_string.
Proof.
  intros HF HK. eapply lin_weaken; [apply (lin_read_string F K HF HK) | lia | | lia].
  intros x. cbv beta. pose proof (blen_nonneg x). lia.
Qed.

(* make([]string, size) before the strings are read: paid by the strings (16 <= 80 * 2), or by K *)
Lemma lin_read_string_list F K : 80 <= F -> 16 * 65535 <= K -> lin F (fun _ => 160) K read_string_list.
Proof.
  intros HF HK. unfold read_string_list.
  eapply lin_bind with (s1 := fun _ => 160); [lia | apply good_read_short | apply lin_read_short; lia | intros; lia|].
  intros size Hs. cbv beta in Hs.
  eapply lin_weaken; [eapply (lin_alloc_then F _ (K - 16 * 65535) (16 * size) (16 * 65535)); [lia|]
                     | lia | | lia].
  - eapply (lin_read_count F wf_bytes 16); [lia | lia | lia | apply good_read_string|].
    eapply lin_weaken; [apply (lin_string_16 F (K - 16 * 65535)); lia | lia | intros; cbv beta; lia | lia].
  - intros l. cbv beta. rewrite Z.max_l by lia. lia.
Qed.

Lemma lin_read_bytes_map F K : 80 <= F -> 48 * 65535 <= K -> lin F (fun _ => 0) K read_bytes_map.
Proof.
  intros HF HK. unfold read_bytes_map.
  eapply lin_bind with (s1 := fun _ => 160); [lia | apply good_read_short | apply lin_read_short; lia | intros; lia|].
  intros size Hs. cbv beta in Hs.
  eapply lin_weaken; [eapply (lin_alloc_then F _ (K - 48 * 65535) (48 * size) (48 * 65535)); [lia|] | lia | | lia].
  - eapply (lin_read_count F (fun _ => True) 48); [lia | lia | lia | |].
    + eapply good_bind; [apply good_read_string|]. intros k _. eapply good_bind; [apply good_read_bytes|]. intros v _. apply good_ret. exact I.
    + eapply lin_bind with (s1 := fun _ => 160); [lia | apply good_read_string | apply lin_string_16; lia | intros; lia|].
      intros k _. eapply lin_bind with (s1 := fun o => 320 + 80 * blen (opt_bytes o));
        [lia | apply good_read_bytes | apply lin_read_bytes; lia | intros o _; pose proof (blen_nonneg (opt_bytes o)); lia|].
      intros v _. apply lin_ret. pose proof (blen_nonneg (opt_bytes v)). lia.
  - intros l. cbv beta. rewrite Z.max_l by lia. lia.
Qed.

Lemma lin_read_string_multimap F K : 80 <= F -> 64 * 65535 <= K -> lin F (fun _ => 0) K read_string_multimap.
Proof.
  intros HF HK. unfold read_string_multimap.
  eapply lin_bind with (s1 := fun _ => 160); [lia | apply good_read_short | apply lin_read_short; lia | intros; lia|].
  intros size Hs. cbv beta in Hs.
  eapply lin_weaken; [eapply (lin_alloc_then F _ (K - 48 * 65535) (48 * size) (48 * 65535)); [lia|] | lia | | lia].
  - eapply (lin_read_count F (fun _ => True) 48); [lia | lia | lia | |].
    + eapply good_bind; [apply good_read_string|]. intros k _. eapply good_bind; [apply good_read_string_list|]. intros v _. apply good_ret. exact I.
    + eapply lin_bind with (s1 := fun _ => 160); [lia | apply good_read_string | apply lin_string_16; lia | intros; lia|].
      intros k _. eapply lin_bind with (s1 := fun _ => 160);
        [lia | apply good_read_string_list | apply lin_read_string_list; lia | intros; lia|].
      intros v _. apply lin_ret. lia.
  - intros l. cbv beta. rewrite Z.max_l by lia. lia.
Qed.

(* ---- types: the element slices grow with what has been read (80 per element, 160 per UDT field) ------------- *)
Lemma lin_read_type F K : 80 <= F -> 0 <= K -> forall fuel, lin F (fun _ => 80) K (read_type fuel).
Proof.
  intros HF HK. induction fuel as [|fuel IH]; cbn [read_type]; [apply lin_fail; lia|].
  eapply lin_bind with (s1 := fun _ => 160); [lia | apply good_read_short | apply lin_read_short; lia | intros; lia|].
  intros id _.
  eapply lin_bind with (Q := fun _ => True) (s1 := fun _ => 0); [lia | | | intros; lia |].
  { destruct (id =? K.TypeCustom); [|apply good_ret; exact I].
    eapply good_bind; [apply good_read_string|]. intros c _. apply good_ret. exact I. }
  { destruct (id =? K.TypeCustom); [|apply lin_ret; lia].
    eapply lin_bind with (s1 := fun _ => 160); [lia | apply good_read_string | apply lin_string_16; lia | intros; lia|].
    intros c _. apply lin_ret. lia. }
  intros ct _. cbv zeta.
  assert (Helem : lin F (fun _ => 0) K (t <- read_type fuel ;; alloc 80 ;;; ret t)).
  { eapply lin_bind with (s1 := fun _ => 80); [lia | apply (good_read_type [] fuel) | apply IH | intros; lia|].
    intros t _. apply lin_alloc_ret. lia. }
  assert (Gelem : good [] (fun _ => True) (t <- read_type fuel ;; alloc 80 ;;; ret t)).
  { eapply good_bind; [apply (good_read_type [] fuel)|]. intros t _. eapply good_bind; [apply good_alloc|]. intros _ _. apply good_ret. exact I. }
  destruct (snd ct =? K.TypeTuple).
  { eapply lin_bind with (s1 := fun _ => 160); [lia | apply good_read_short | apply lin_read_short; lia | intros; lia|].
    intros n _. eapply lin_bind with (Q := Forall (fun _ => True)) (s1 := fun _ => 0 * Z.max n 0);
      [lia | apply good_read_count, Gelem | apply (lin_read_count F (fun _ => True) 0); try lia; assumption | intros; lia|].
    intros elems _. apply lin_ret. lia. }
  destruct (snd ct =? K.TypeUDT).
  { eapply lin_bind with (s1 := fun _ => 160); [lia | apply good_read_string | apply lin_string_16; lia | intros; lia|].
    intros ks _. eapply lin_bind with (s1 := fun _ => 160); [lia | apply good_read_string | apply lin_string_16; lia | intros; lia|].
    intros nm _. eapply lin_bind with (s1 := fun _ => 160); [lia | apply good_read_short | apply lin_read_short; lia | intros; lia|].
    intros n _.
    assert (Gf : good [] (fun _ => True) (fnm <- read_string ;; t <- read_type fuel ;; alloc 160 ;;; ret (fnm, t))).
    { eapply good_bind; [apply good_read_string|]. intros fnm _. eapply good_bind; [apply (good_read_type [] fuel)|]. intros t _.
      eapply good_bind; [apply good_alloc|]. intros _ _. apply good_ret. exact I. }
    assert (Hfield : lin F (fun _ => 0) K (fnm <- read_string ;; t <- read_type fuel ;; alloc 160 ;;; ret (fnm, t))).
    { eapply lin_bind with (s1 := fun _ => 160); [lia | apply good_read_string | apply lin_string_16; lia | intros; lia|].
      intros fnm _. eapply lin_bind with (s1 := fun _ => 80); [lia | apply (good_read_type [] fuel) | apply IH | intros; lia|].
      intros t _. apply lin_alloc_ret. lia. }
    eapply lin_bind with (Q := Forall (fun _ => True)) (s1 := fun _ => 0 * Z.max n 0);
      [lia | apply good_read_count, Gf | apply (lin_read_count F (fun _ => True) 0); try lia; assumption | intros; lia|].
    intros fields _. apply lin_ret. lia. }
  destruct ((snd ct =? K.TypeMap) || (snd ct =? K.TypeList) || (snd ct =? K.TypeSet)); [|apply lin_ret; lia].
  eapply lin_bind with (Q := fun _ => True) (s1 := fun _ => 0); [lia | | | intros; lia |].
  { destruct (snd ct =? K.TypeMap); [|apply good_ret; exact I].
    eapply good_bind; [apply (good_read_type [] fuel)|]. intros k _. apply good_ret. exact I. }
  { destruct (snd ct =? K.TypeMap); [|apply lin_ret; lia].
    eapply lin_bind with (s1 := fun _ => 80); [lia | apply (good_read_type [] fuel) | apply IH | intros; lia|].
    intros k _. apply lin_ret. lia. }
  intros key _. eapply lin_bind with (s1 := fun _ => 80); [lia | apply (good_read_type [] fuel) | apply IH | intros; lia|].
  intros elem _. apply lin_ret. lia.
Qed.

Lemma lin_read_type_info F K : 80 <= F -> 0 <= K -> lin F (fun _ => 80) K read_type_info.
Proof. intros HF HK b Hb. unfold read_type_info, out, cost. exact (lin_read_type F K HF HK (S (length b)) b Hb). Qed.

Lemma lin_read_col F K g ks tb : 80 <= F -> 0 <= K -> lin F (fun _ => 64) K (read_col g ks tb).
Proof.
  intros HF HK. unfold read_col.
  eapply lin_bind with (Q := fun _ => True) (s1 := fun _ => 0); [lia | | | intros; lia |].
  { destruct g; [apply good_ret; exact I|]. eapply good_bind; [apply good_read_string|]. intros k _.
    eapply good_bind; [apply good_read_string|]. intros t _. apply good_ret. exact I. }
  { destruct g; [apply lin_ret; lia|].
    eapply lin_bind with (s1 := fun _ => 160); [lia | apply good_read_string | apply lin_string_16; lia | intros; lia|].
    intros k _. eapply lin_bind with (s1 := fun _ => 160); [lia | apply good_read_string | apply lin_string_16; lia | intros; lia|].
    intros t _. apply lin_ret. lia. }
  intros kt _. eapply lin_bind with (s1 := fun _ => 160); [lia | apply good_read_string | apply lin_string_16; lia | intros; lia|].
  intros nm _. eapply lin_bind with (s1 := fun _ => 80); [lia | apply (good_read_type_info []) | apply lin_read_type_info; lia | intros; lia|].
  intros ty _. apply lin_ret. lia.
Qed.

(* ---- metadata ------------------------------------------------------------------------------------------------ *)
Lemma lin_read_meta_tail F K flags cc : 80 <= F -> 64000 <= K -> lin F (fun _ => 0) K (read_meta_tail flags cc).
Proof.
  intros HF HK. unfold read_meta_tail.
  eapply lin_bind with (Q := fun _ => True) (s1 := fun _ => 0); [lia | | | intros; lia |].
  { destruct (has_flag flags K.flagHasMorePages); [|apply good_ret; exact I].
    eapply good_bind; [apply good_read_bytes|]. intros b _. eapply good_bind; [apply good_alloc|]. intros _ _. apply good_ret. exact I. }
  { destruct (has_flag flags K.flagHasMorePages); [|apply lin_ret; lia].
    eapply lin_bind with (s1 := fun o => 320 + 80 * blen (opt_bytes o));
      [lia | apply good_read_bytes | apply lin_read_bytes; lia | intros o _; pose proof (blen_nonneg (opt_bytes o)); lia|].
    intros o _. apply lin_alloc_ret. pose proof (blen_nonneg (opt_bytes o)). lia. }
  intros paging _. destruct (has_flag flags K.flagNoMetaData); [apply lin_ret; lia|]. cbv zeta.
  eapply lin_bind with (Q := fun _ => True) (s1 := fun _ => 0); [lia | | | intros; lia |].
  { destruct (has_flag flags K.flagGlobalTableSpec); [|apply good_ret; exact I].
    eapply good_bind; [apply good_read_string|]. intros k _. eapply good_bind; [apply good_read_string|]. intros t _. apply good_ret. exact I. }
  { destruct (has_flag flags K.flagGlobalTableSpec); [|apply lin_ret; lia].
    eapply lin_bind with (s1 := fun _ => 160); [lia | apply good_read_string | apply lin_string_16; lia | intros; lia|].
    intros k _. eapply lin_bind with (s1 := fun _ => 160); [lia | apply good_read_string | apply lin_string_16; lia | intros; lia|].
    intros t _. apply lin_ret. lia. }
  intros kt _.
  assert (Hcols : lin F (fun _ => 64 * Z.max cc 0) (K - 64000) (read_count (read_col (has_flag flags K.flagGlobalTableSpec) (fst kt) (snd kt)) cc)).
  { eapply (lin_read_count F (fun c => tinfo_ok (c_type c)) 64); [lia | lia | lia | apply good_read_col | apply lin_read_col; lia]. }
  assert (Htail : lin F (fun _ => 0) (K - 64000)
            (cols <- read_count (read_col (has_flag flags K.flagGlobalTableSpec) (fst kt) (snd kt)) cc ;;
             ret ({| m_flags := flags; m_paging := paging; m_cols := cols; m_colcount := cc;
                     m_actual := cc + fold_right (fun c a => col_extra c + a) 0 cols |}, kt))).
  { eapply lin_bind with (s1 := fun _ => 64 * Z.max cc 0); [lia | apply good_read_count, good_read_col | exact Hcols | intros; lia|].
    intros cols _. apply lin_ret. lia. }
  destruct (Z.ltb_spec cc 1000) as [Hc|Hc].
  - (* make([]ColumnInfo, colCount) for fewer than 1000 columns *)
    eapply lin_weaken; [eapply (lin_alloc_then F _ (K - 64000) (64 * cc) 64000); [lia|] | lia | | lia].
    + eapply lin_bind with (s1 := fun _ => 64 * Z.max cc 0); [lia | apply good_read_count, good_read_col | exact Hcols | intros; lia|].
      intros cols _. apply lin_ret. cbv beta. instantiate (1 := fun _ => 64 * Z.max cc 0). lia.
    + intros y. cbv beta. lia.
  - eapply lin_bind with (Q := fun _ => True) (s1 := fun _ => 0);
      [lia | apply good_ret; exact I | apply lin_ret; lia | intros; lia|].
    intros _ _. eapply lin_weaken; [exact Htail | lia | intros; lia | lia].
Qed.

Lemma lin_parse_result_metadata F K : 80 <= F -> 64000 <= K -> lin F (fun _ => 0) K parse_result_metadata.
Proof.
  intros HF HK. unfold parse_result_metadata.
  eapply lin_bind with (s1 := fun _ => 320); [lia | apply good_read_int | apply lin_read_int; lia | intros; lia|].
  intros flags _. eapply lin_bind with (s1 := fun _ => 320); [lia | apply good_read_int | apply lin_read_int; lia | intros; lia|].
  intros cc _. destruct (cc <? 0); [apply lin_fail; lia|].
  eapply lin_bind with (s1 := fun _ => 0); [lia | apply good_read_meta_tail | apply lin_read_meta_tail; lia | intros; lia|].
  intros r _. apply lin_ret. lia.
Qed.

(* need (2 n); alloc (8 n); q -- the allocation is bounded by four times the bytes that remain *)
Lemma lin_need_alloc {T} F (s : T -> Z) K n (q : P T) : 80 <= F -> 0 <= K -> 0 <= n ->
  lin F s K q -> lin (F + 4) (fun y => s y - 8 * n) K (need (2 * n) ;;; alloc (8 * n) ;;; q).
Proof.
  intros HF HK Hn Hq b Hb. rewrite out_bind, cost_bind. unfold rbind. pose proof (blen_nonneg b).
  assert (C1 : cost (need (2 * n)) b = 0) by (unfold cost, need; destruct (blen b <? 2 * n); reflexivity).
  destruct (Z.ltb_spec (blen b) (2 * n)) as [Hlt|Hge].
  - rewrite out_need_short by assumption. nia.
  - rewrite out_need_ok by assumption. rewrite out_bind, cost_bind. unfold rbind. rewrite out_alloc.
    assert (C2 : cost (alloc (8 * n)) b = 8 * n) by reflexivity. specialize (Hq b Hb).
    destruct (out q b) as [[y b2]|e|c]; [lia | nia | nia].
Qed.

Lemma lin_parse_prepared_metadata F K proto : 80 <= F -> 64000 <= K -> lin (F + 4) (fun _ => 0) K (parse_prepared_metadata proto).
Proof.
  intros HF HK. unfold parse_prepared_metadata.
  eapply lin_bind with (s1 := fun _ => 320); [lia | apply good_read_int | apply lin_read_int; lia | intros; lia|].
  intros flags _. eapply lin_bind with (s1 := fun _ => 320); [lia | apply good_read_int | apply lin_read_int; lia | intros; lia|].
  intros cc _. destruct (cc <? 0); [apply lin_fail; lia|].
  eapply lin_bind with (Q := fun _ => True) (s1 := fun _ => 0); [lia | | | intros; lia |].
  { destruct (proto >=? K.protoVersion4); [|apply good_ret; exact I].
    eapply good_bind; [apply good_read_int|]. intros pkc _. destruct (pkc <? 0); [apply good_fail|].
    eapply good_bind; [apply good_need|]. intros _ _.
    eapply good_bind; [apply good_alloc|]. intros _ _. eapply good_any. apply good_read_count, good_read_short. }
  { destruct (proto >=? K.protoVersion4); [|apply lin_ret; lia].
    eapply lin_bind with (s1 := fun _ => 320); [lia | apply good_read_int | apply lin_read_int; lia | intros; lia|].
    intros pkc _. destruct (Z.ltb_spec pkc 0); [apply lin_fail; lia|].
    eapply lin_weaken; [eapply (lin_need_alloc F _ K pkc); [lia | lia | lia |] | lia | | lia].
    - eapply (lin_read_count F (fun x => 0 <= x < 65536) 8); [lia | lia | lia | apply good_read_short|].
      eapply lin_weaken; [apply (lin_read_short F K); lia | lia | intros; cbv beta; lia | lia].
    - intros y. cbv beta. rewrite Z.max_l by lia. lia. }
  intros pk _. eapply lin_bind with (s1 := fun _ => 0); [lia | apply good_read_meta_tail | | intros; lia|].
  { eapply lin_weaken; [apply (lin_read_meta_tail F K); lia | lia | intros; lia | lia]. }
  intros r _. apply lin_ret. lia.
Qed.

(* ---- frames ---------------------------------------------------------------------------------------------------- *)
Definition KF : Z := 64 * 65535.      (* the largest nest of count-sized allocations: a multimap (48 per entry) of lists (16 per string) *)

Section frames.
  Variable F : Z.
  Hypothesis HF : 84 <= F.

  Ltac lprim :=
    first [ (eapply lin_bind with (s1 := fun _ => 160); [lia | apply good_read_short | apply lin_read_short; unfold KF; lia | intros; lia|])
          | (eapply lin_bind with (s1 := fun _ => 320); [lia | apply good_read_int | apply lin_read_int; unfold KF; lia | intros; lia|])
          | (eapply lin_bind with (s1 := fun _ => 160); [lia | apply good_read_string | apply lin_string_16; unfold KF; lia | intros; lia|])
          | (eapply lin_bind with (s1 := fun _ => 80); [lia | apply good_read_byte | apply lin_read_byte; unfold KF; lia | intros; lia|])
          | (eapply lin_bind with (s1 := fun _ => 160); [lia | apply good_read_string_list | apply lin_read_string_list; unfold KF; lia | intros; lia|])
          | (eapply lin_bind with (s1 := fun o => 320 + 80 * blen (opt_bytes o));
               [lia | apply good_read_bytes | apply lin_read_bytes; unfold KF; lia | intros o _; pose proof (blen_nonneg (opt_bytes o)); lia|])
          | (eapply lin_bind with (s1 := fun _ => 0); [lia | apply good_read_inet | apply lin_read_inet; unfold KF; lia | intros; lia|]) ].
  Ltac lw lem := eapply lin_weaken; [apply lem | lia | intros; cbv beta; lia | lia].
  Ltac lseq := repeat first [ (apply lin_ret; cbv beta; try (match goal with |- context [opt_bytes ?o] => pose proof (blen_nonneg (opt_bytes o)) end); lia)
                            | (apply lin_fail; unfold KF; lia)
                            | (lprim; intros ? ?) ].

  Lemma lin_read_error_map : lin F (fun _ => 0) KF read_error_map.
  Proof.
    unfold read_error_map. lprim. intros n _.
    eapply lin_weaken; [eapply (lin_read_count F (fun _ => True) 0 KF); [lia | unfold KF; lia | lia | |] | lia | intros; cbv beta; lia | lia].
    - eapply good_bind; [apply good_read_inet_addr|]. intros ip _. eapply good_bind; [apply good_read_short|]. intros code _. apply good_ret. exact I.
    - eapply lin_bind with (s1 := fun _ => 80); [lia | apply good_read_inet_addr | apply lin_read_inet_addr; unfold KF; lia | intros; lia|].
      intros ip _. lseq.
  Qed.

  Lemma lin_parse_error_frame proto : lin F (fun _ => 0) KF (parse_error_frame proto).
  Proof.
    unfold parse_error_frame. lprim. intros code _. lprim. intros msg _. cbv zeta.
    repeat match goal with |- lin _ _ _ (if ?c then _ else _) => destruct c end; try (lseq; fail).
    - (* unprepared: the statement id is copied *)
      eapply lin_bind with (s1 := fun x => 160 + 80 * blen x);
        [lia | apply good_read_short_bytes | apply lin_read_short_bytes; unfold KF; lia | intros x _; pose proof (blen_nonneg x); lia|].
      intros id _. apply lin_alloc_ret. pose proof (blen_nonneg id). lia.
    - (* read failure *)
      lprim. intros cl _. lprim. intros rc _. lprim. intros bf _.
      eapply lin_bind with (Q := fun _ => True) (s1 := fun _ => 0); [lia | | | intros; lia |].
      { destruct (proto >? K.protoVersion4).
        - eapply good_bind; [apply good_read_error_map|]. intros m _. apply good_ret. exact I.
        - eapply good_bind; [apply good_read_int|]. intros n _. apply good_ret. exact I. }
      { destruct (proto >? K.protoVersion4).
        - eapply lin_bind with (s1 := fun _ => 0); [lia | apply good_read_error_map | apply lin_read_error_map | intros; lia|]. intros m _. lseq.
        - lseq. }
      intros me _. lseq.
    - (* write failure *)
      lprim. intros cl _. lprim. intros rc _. lprim. intros bf _.
      eapply lin_bind with (Q := fun _ => True) (s1 := fun _ => 0); [lia | | | intros; lia |].
      { destruct (proto >? K.protoVersion4).
        - eapply good_bind; [apply good_read_error_map|]. intros m _. apply good_ret. exact I.
        - eapply good_bind; [apply good_read_int|]. intros n _. apply good_ret. exact I. }
      { destruct (proto >? K.protoVersion4).
        - eapply lin_bind with (s1 := fun _ => 0); [lia | apply good_read_error_map | apply lin_read_error_map | intros; lia|]. intros m _. lseq.
        - lseq. }
      intros me _. lseq.
  Qed.

  Lemma lin_parse_schema_change proto : lin F (fun _ => 0) KF (parse_schema_change proto).
  Proof.
    unfold parse_schema_change. destruct (proto <=? K.protoVersion2).
    - lprim. intros ch _. lprim. intros ks _. lprim. intros tb _. destruct tb; apply lin_ret; lia.
    - lprim. intros ch _. lprim. intros tg _.
      repeat match goal with |- lin _ _ _ (if ?c then _ else _) => destruct c end; lseq.
  Qed.

  Lemma lin_parse_result_frame proto : lin F (fun _ => 0) KF (parse_result_frame proto).
  Proof.
    unfold parse_result_frame. lprim. intros kind _.
    repeat match goal with |- lin _ _ _ (if ?c then _ else _) => destruct c end; try (lseq; fail).
    - unfold parse_result_rows.
      eapply lin_bind with (s1 := fun _ => 0); [lia | apply good_parse_result_metadata | apply lin_parse_result_metadata; unfold KF; lia | intros; lia|].
      intros m _. lprim. intros n _. destruct (n <? 0); lseq.
    - unfold parse_result_prepared.
      eapply lin_bind with (s1 := fun x => 160 + 80 * blen x);
        [lia | apply good_read_short_bytes | apply lin_read_short_bytes; unfold KF; lia | intros x _; pose proof (blen_nonneg x); lia|].
      intros id _.
      eapply lin_bind with (s1 := fun _ => 0); [lia | apply good_parse_prepared_metadata | | intros; lia|].
      { eapply lin_weaken; [apply (lin_parse_prepared_metadata 80 KF proto); unfold KF; lia | lia | intros; lia | lia]. }
      intros req _. destruct (proto <? K.protoVersion2); [apply lin_ret; pose proof (blen_nonneg id); lia|].
      eapply lin_bind with (s1 := fun _ => 0); [lia | apply good_parse_result_metadata | apply lin_parse_result_metadata; unfold KF; lia | intros; lia|].
      intros resp _. apply lin_ret. pose proof (blen_nonneg id). lia.
    - lw lin_parse_schema_change.
  Qed.

  Lemma lin_parse_event_frame proto : lin F (fun _ => 0) KF (parse_event_frame proto).
  Proof.
    unfold parse_event_frame. lprim. intros et _.
    repeat match goal with |- lin _ _ _ (if ?c then _ else _) => destruct c end; try (lseq; fail).
    lw lin_parse_schema_change.
  Qed.

  Lemma lin_parse_frame proto hver hflags hop : lin F (fun _ => 0) KF (parse_frame proto hver hflags hop).
  Proof.
    unfold parse_frame. destruct (Z.land hver K.protoDirectionMask =? 0); [apply lin_fail; unfold KF; lia|].
    eapply lin_bind with (Q := fun _ => True) (s1 := fun _ => 0); [lia | | | intros; lia |].
    { destruct (has_flag hflags K.flagTracing); [|apply good_ret; exact I].
      eapply good_bind; [apply good_read_uuid|]. intros u _. apply good_ret. exact I. }
    { destruct (has_flag hflags K.flagTracing); [|apply lin_ret; lia].
      eapply lin_bind with (s1 := fun _ => 0); [lia | apply good_read_uuid | apply lin_read_uuid; unfold KF; lia | intros; lia|]. intros u _. lseq. }
    intros tr _. eapply lin_bind with (Q := fun _ => True) (s1 := fun _ => 0); [lia | | | intros; lia |].
    { destruct (has_flag hflags K.flagWarning); [|apply good_ret; exact I].
      eapply good_bind; [apply good_read_string_list|]. intros l _. apply good_ret. exact I. }
    { destruct (has_flag hflags K.flagWarning); [|apply lin_ret; lia]. lprim. intros l _. lseq. }
    intros wa _. eapply lin_bind with (Q := fun _ => True) (s1 := fun _ => 0); [lia | | | intros; lia |].
    { destruct (has_flag hflags K.flagCustomPayload); [|apply good_ret; exact I].
      eapply good_bind; [apply good_read_bytes_map|]. intros m _. apply good_ret. exact I. }
    { destruct (has_flag hflags K.flagCustomPayload); [|apply lin_ret; lia].
      eapply lin_bind with (s1 := fun _ => 0); [lia | apply good_read_bytes_map | apply lin_read_bytes_map; unfold KF; lia | intros; lia|]. intros m _. lseq. }
    intros pl _.
    eapply lin_bind with (Q := frame_ok) (s1 := fun _ => 0); [lia | | | intros; lia | intros fr _; apply lin_ret; lia].
    - pose proof (good_parse_frame proto hver hflags hop) as G. (* the frame part on its own *)
      destruct (hop =? K.opError); [apply good_parse_error_frame|].
      destruct (hop =? K.opReady); [apply good_ret; exact I|].
      destruct (hop =? K.opResult); [apply good_parse_result_frame|].
      destruct (hop =? K.opSupported).
      { eapply good_bind; [apply good_read_string_multimap|]. intros m _. apply good_ret. exact I. }
      destruct (hop =? K.opAuthenticate); [eapply good_bind; [apply good_read_string|]; intros; apply good_ret; exact I|].
      destruct (hop =? K.opAuthChallenge); [eapply good_bind; [apply good_read_bytes|]; intros; apply good_ret; exact I|].
      destruct (hop =? K.opAuthSuccess); [eapply good_bind; [apply good_read_bytes|]; intros; apply good_ret; exact I|].
      destruct (hop =? K.opEvent); [apply good_parse_event_frame | apply good_fail].
    - destruct (hop =? K.opError); [lw lin_parse_error_frame|].
      destruct (hop =? K.opReady); [apply lin_ret; lia|].
      destruct (hop =? K.opResult); [lw lin_parse_result_frame|].
      destruct (hop =? K.opSupported).
      { eapply lin_bind with (s1 := fun _ => 0); [lia | apply good_read_string_multimap | apply lin_read_string_multimap; unfold KF; lia | intros; lia|].
        intros m _. lseq. }
      destruct (hop =? K.opAuthenticate); [lseq|].
      destruct (hop =? K.opAuthChallenge); [lseq|].
      destruct (hop =? K.opAuthSuccess); [lseq|].
      destruct (hop =? K.opEvent); [lw lin_parse_event_frame | apply lin_fail; unfold KF; lia].
  Qed.
End frames.

(* the bound, for every outcome *)
Lemma parse_frame_alloc_linear proto hver hflags hop body : wf_bytes body ->
  cost (parse_frame proto hver hflags hop) body <= 84 * blen body + 64 * 65535.
Proof.
  intros Hb. pose proof (lin_parse_frame 84 ltac:(lia) proto hver hflags hop body Hb) as H.
  pose proof (good_parse_frame proto hver hflags hop body Hb) as G. pose proof (blen_nonneg body).
  destruct (out (parse_frame proto hver hflags hop) body) as [[p rest]|e|c]; unfold KF in H; try lia.
  destruct G as [_ Hs]. pose proof (suffix_blen _ _ Hs). pose proof (blen_nonneg rest). lia.
Qed.
