(* C05/Proofs5.v -- the exact inputs on which the two crash sites of the frame parsers fire. *)
From GocqlV Require Import Lib.Base Gen.Consts C04.Model C04.Proofs1 C05.Model C05.Proofs1.

Arguments Z.mul : simpl never.
Arguments Z.add : simpl never.
Arguments Z.pow : simpl never.
Arguments Z.of_nat : simpl never.
Arguments Z.to_nat : simpl never.
Arguments Z.ltb : simpl never.
Arguments Z.leb : simpl never.
Arguments Z.eqb : simpl never.
Arguments Z.gtb : simpl never.
Arguments Z.geb : simpl never.
Arguments Z.land : simpl never.

(* readInetAdressOnly panics exactly when the size byte is 4 or 16 and at least one but fewer than
   that many bytes follow *)
Lemma read_inet_addr_crash_iff b c :
  out read_inet_addr b = Crash c <->
  c = CInetSlice /\ exists sz rest, b = sz :: rest /\ (sz = 4 \/ sz = 16) /\ 1 <= blen rest < sz.
Proof.
  unfold read_inet_addr. rewrite out_bind. unfold rbind. destruct b as [|sz rest].
  - rewrite out_need_short by (rewrite blen_nil; lia). split; [discriminate|]. intros (_ & s & r & H & _). discriminate.
  - rewrite out_need_ok by (rewrite blen_cons; pose proof (blen_nonneg rest); lia).
    rewrite out_bind. unfold rbind. change (sz :: rest) with ([sz] ++ rest). rewrite out_take_app by reflexivity.
    cbv zeta. rewrite be_dec_1.
    destruct (Z.eqb_spec sz 4) as [E4|E4]; [|destruct (Z.eqb_spec sz 16) as [E16|E16]]; cbn [orb negb].
    1,2: rewrite out_bind; unfold rbind; destruct (Z.ltb_spec (blen rest) 1) as [H1|H1];
      [ rewrite out_need_short by assumption; split; [discriminate|]; intros (_ & s & r & Hb & _ & Hl); inversion Hb; subst; lia
      | rewrite out_need_ok by assumption; rewrite out_bind; unfold rbind; rewrite out_alloc;
        destruct (Z.ltb_spec (blen rest) sz) as [H2|H2];
        [ rewrite out_take_crash by (right; assumption); split;
          [ intros H; inversion H; split; [reflexivity|]; exists sz, rest; repeat split; auto; lia
          | intros (-> & _); reflexivity ]
        | rewrite out_take_ok by lia; split; [discriminate|]; intros (_ & s & r & Hb & _ & Hl); inversion Hb; subst; lia ] ].
    rewrite out_fail. split; [discriminate|]. intros (_ & s & r & Hb & Hs & _). inversion Hb; subst. lia.
Qed.

(* parsePreparedMetadata panics exactly when, with a framer of protocol 4 or 5, the flags and a
   non-negative column count are followed by a negative partition-key count *)
Lemma parse_prepared_metadata_crash proto b c : wf_bytes b ->
  out (parse_prepared_metadata proto) b = Crash c ->
  c = CPkeyMake /\ proto >= K.protoVersion4
  /\ exists f b1 cc b2 pk b3, out read_int b = Ok (f, b1) /\ out read_int b1 = Ok (cc, b2) /\ 0 <= cc
                              /\ out read_int b2 = Ok (pk, b3) /\ pk < 0.
Proof.
  intros Hb Hc.
  assert (Hsite : c = CPkeyMake /\ proto >= K.protoVersion4).
  { destruct (Z_ge_dec proto K.protoVersion4) as [Hp|Hp].
    - split; [|exact Hp]. pose proof (good_parse_prepared_metadata [CPkeyMake] proto (fun _ => or_introl eq_refl) b Hb) as G.
      rewrite Hc in G. destruct G as [G|[]]. symmetry. exact G.
    - exfalso. pose proof (good_parse_prepared_metadata [] proto (fun H => False_ind _ (Hp H)) b Hb) as G. rewrite Hc in G. exact G. }
  destruct Hsite as [-> Hp]. split; [reflexivity|]. split; [exact Hp|].
  unfold parse_prepared_metadata in Hc. rewrite out_bind in Hc. unfold rbind in Hc.
  pose proof (good_read_int [] b Hb) as G1. destruct (out read_int b) as [[f b1]|e|c1] eqn:E1; try discriminate; [|contradiction].
  destruct G1 as [_ Hs1]. pose proof (suffix_wf _ _ Hs1 Hb) as Hb1.
  rewrite out_bind in Hc. unfold rbind in Hc.
  pose proof (good_read_int [] b1 Hb1) as G2. destruct (out read_int b1) as [[cc b2]|e|c2] eqn:E2; try discriminate; [|contradiction].
  destruct G2 as [_ Hs2]. pose proof (suffix_wf _ _ Hs2 Hb1) as Hb2.
  destruct (Z.ltb_spec cc 0) as [Hcc|Hcc]; [discriminate|].
  rewrite out_bind in Hc. unfold rbind in Hc.
  destruct (Z.geb_spec proto K.protoVersion4) as [_|Hn]; [|lia].
  rewrite out_bind in Hc. unfold rbind in Hc.
  pose proof (good_read_int [] b2 Hb2) as G3. destruct (out read_int b2) as [[pk b3]|e|c3] eqn:E3; try discriminate; [|contradiction].
  destruct G3 as [_ Hs3]. pose proof (suffix_wf _ _ Hs3 Hb2) as Hb3.
  destruct (Z.ltb_spec pk 0) as [Hpk|Hpk].
  - exists f, b1, cc, b2, pk, b3. repeat split; auto.
  - exfalso. rewrite out_bind in Hc. unfold rbind in Hc. rewrite out_alloc in Hc.
    pose proof (good_read_count [] (fun x => 0 <= x < 65536) read_short pk (good_read_short []) b3 Hb3) as G4.
    destruct (out (read_count read_short pk) b3) as [[pks b4]|e|c4] eqn:E4; try discriminate; [|contradiction].
    destruct G4 as [_ Hs4]. pose proof (suffix_wf _ _ Hs4 Hb3) as Hb4.
    rewrite out_bind in Hc. unfold rbind in Hc.
    pose proof (good_read_meta_tail [] f cc b4 Hb4) as G5.
    destruct (out (read_meta_tail f cc) b4) as [[r b5]|e|c5] eqn:E5; try discriminate. contradiction.
Qed.

Lemma good_nil_never {A} (Q : A -> Prop) (p : P A) : good [] Q p -> never_crashes p.
Proof. intros G b c Hb H. specialize (G b Hb). rewrite H in G. exact G. Qed.
