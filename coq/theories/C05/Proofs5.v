(* C05/Proofs5.v -- from the Hoare-style judgement to the plain statement. *)
From GocqlV Require Import Lib.Base Gen.Consts C04.Model C04.Proofs1 C05.Model C05.Proofs1.

Lemma good_nil_never {A} (Q : A -> Prop) (p : P A) : good [] Q p -> never_crashes p.
Proof. intros G b c Hb H. specialize (G b Hb). rewrite H in G. exact G. Qed.
