(* C05/Model.v -- executable models of the remaining decoders that receive bytes from the network
   (the response parsers and Iter.Scan are in C04/Model.v):
     * Unmarshal into the destination TypeInfo.NewWithError creates (what RowData / MapScan / SliceMap
       use), as an outcome: the structural decoders unmarshalList / unmarshalMap / unmarshalTuple /
       unmarshalUDT (marshal.go:1633-1846, 2094-2212, 2318-2387) and the length checks of the leaf decoders;
     * the type-string parsers for schema tables: getCassandraType / splitCompositeTypes (helpers.go:165-236)
       and parseType, the typeParser (metadata.go:1200-1489).
   Definitions only.  Outcomes as in C04/Model.v: Ok / Err (a returned error) / Crash (a panic in the caller). *)
From Coq Require Import String Ascii.
From GocqlV Require Import Lib.Base Gen.Consts C04.Model.

(* the property, for a parser over the framer's buffer: no byte string makes it panic *)
Definition never_crashes {A} (p : P A) : Prop := forall b c, wf_bytes b -> out p b <> Crash c.

(* ======== Unmarshal ======================================================================== *)
(* readCollectionSize: [int] for protocol > 2, [short] otherwise; works on the value's own byte slice *)
Definition read_coll_size (proto : Z) : P Z :=
  if proto >? K.protoVersion2 then
    l <- get_len ;; if l <? 4 then fail EUnmarshal else hd <- take CGuarded 4 ;; ret (signed 32 (be_dec hd))
  else
    l <- get_len ;; if l <? 2 then fail EUnmarshal else hd <- take CGuarded 2 ;; ret (be_dec hd).

(* one element of a list / map: a size, then that many bytes; a negative size is a null element *)
Definition read_coll_elem (proto : Z) : P (option bytes) :=
  m <- read_coll_size proto ;;
  if m >=? 0 then
    l <- get_len ;; if l <? m then fail EUnmarshal else d <- take CGuarded m ;; ret (Some d)
  else ret None.

(* number of leading one bits of a byte (decVint) *)
Definition leading_ones (b : Z) : Z :=
  if b <? 128 then 0 else if b <? 192 then 1 else if b <? 224 then 2 else if b <? 240 then 3
  else if b <? 248 then 4 else if b <? 252 then 5 else if b <? 254 then 6 else if b <? 255 then 7 else 8.

(* decVint: Some next-index, None = error *)
Definition dec_vint (data : bytes) (start : Z) : option Z :=
  if blen data <=? start then None
  else let fb := nth (Z.to_nat start) data 0 in
       if fb <? 128 then Some (start + 1)
       else let nb := leading_ones fb in
            if blen data <? start + nb + 1 then None else Some (start + nb + 1).

(* leaf decoders into the canonical destination: only their length checks matter here *)
Definition unmarshal_leaf (typ : Z) (data : option bytes) : res unit :=
  let d := opt_bytes data in
  if (typ =? K.TypeDecimal) then
    (* **inf.Dec is nullable: nil data sets nil; empty data stores the zero value; otherwise 4 bytes are needed *)
    if blen d =? 0 then Ok tt else if blen d <? 4 then Err EUnmarshal else Ok tt
  else if typ =? K.TypeDate then
    (* zero value for no bytes; otherwise four bytes are needed for binary.BigEndian.Uint32(data) *)
    if blen d =? 0 then Ok tt else if blen d <? 4 then Err EUnmarshal else Ok tt
  else if (typ =? K.TypeUUID) || (typ =? K.TypeTimeUUID) then
    if (blen d =? 0) || (blen d =? 16) then Ok tt else Err EUnmarshal
  else if typ =? K.TypeDuration then
    if blen d =? 0 then Ok tt
    else match dec_vint d 0 with
         | Some i => match dec_vint d i with
                     | Some j => match dec_vint d j with Some _ => Ok tt | None => Err EUnmarshal end
                     | None => Err EUnmarshal
                     end
         | None => Err EUnmarshal
         end
  else Ok tt.    (* varchar ascii text blob boolean int bigint counter smallint tinyint float double
                    varint time timestamp inet: every byte string is accepted *)

Definition run_on {A} (p : P A) (d : bytes) : res A :=
  match out p d with Ok (a, _) => Ok a | Err e => Err e | Crash c => Crash c end.

Definition lift {A B} (r : res A) (k : A -> res B) : res B :=
  match r with Ok a => k a | Err e => Err e | Crash c => Crash c end.

(* for i := 0; i < n; i++ of unmarshalList: an element, then Unmarshal of it; every element consumes
   at least its size field, so the buffer length bounds the iterations *)
Fixpoint list_loop (um : option bytes -> res unit) (proto : Z) (fuel : nat) (n : Z) (d : bytes) : res unit :=
  if n <=? 0 then Ok tt
  else match fuel with
       | O => Err EFuel
       | S f =>
           lift (out (read_coll_elem proto) d) (fun ed =>
           lift (um (fst ed)) (fun _ =>
           list_loop um proto f (n - 1) (snd ed)))
       end.

(* the loop of unmarshalMap: key, value *)
Fixpoint map_loop (uk uv : option bytes -> res unit) (proto : Z) (fuel : nat) (n : Z) (d : bytes) : res unit :=
  if n <=? 0 then Ok tt
  else match fuel with
       | O => Err EFuel
       | S f =>
           lift (out (read_coll_elem proto) d) (fun kd =>
           lift (uk (fst kd)) (fun _ =>
           lift (out (read_coll_elem proto) (snd kd)) (fun vd =>
           lift (uv (fst vd)) (fun _ =>
           map_loop uk uv proto f (n - 1) (snd vd)))))
       end.

(* Unmarshal(info, data, dest) where dest is what info.NewWithError() creates; [proto] is the version
   stored in the CollectionType (readCollectionSize looks at it) *)
Fixpoint unmarshal (proto : Z) (t : tinfo) (data : option bytes) {struct t} : res unit :=
  match t with
  | TNative typ _ => unmarshal_leaf typ data
  | TColl typ _ key elem =>
      match data with
      | None => Ok tt                                   (* nil slice / nil map *)
      | Some d =>
          if typ =? K.TypeMap then
            match key with
            | None => Crash CTypeAssert
            | Some k =>
                lift (out (read_coll_size proto) d) (fun nd =>
                  if fst nd <? 0 then Err EUnmarshal        (* "negative map size" *)
                  else if fst nd >? blen (snd nd) / (2 * (if proto >? K.protoVersion2 then 4 else 2))
                  then Err EUnmarshal                       (* more entries than pairs of size fields could follow *)
                  else map_loop (unmarshal proto k) (unmarshal proto elem) proto (S (length (snd nd))) (fst nd) (snd nd))
            end
          else
            lift (out (read_coll_size proto) d) (fun nd =>
              if fst nd <? 0 then Err EUnmarshal            (* "negative list size" *)
              else if fst nd >? blen (snd nd) / (if proto >? K.protoVersion2 then 4 else 2)
              then Err EUnmarshal                           (* more elements than size fields could follow *)
              else list_loop (unmarshal proto elem) proto (S (length (snd nd))) (fst nd) (snd nd))
      end
  | TTuple _ elems =>
      (* destination *[]interface{}: for each element type, a [bytes] if four bytes are left, then a fresh
         destination for the element (goType can fail or panic), then Unmarshal *)
      (fix go (es : list tinfo) (d : bytes) : res unit :=
         match es with
         | [] => Ok tt
         | e :: es' =>
             lift (if blen d >=? 4 then out tuple_read_bytes d else Ok (None, d)) (fun pd =>
             lift (match go_type e with Ok _ => Ok tt | Err _ => Err EUnmarshal | Crash c => Crash c end) (fun _ =>
             lift (unmarshal proto e (fst pd)) (fun _ =>
             go es' (snd pd))))
         end) elems (opt_bytes data)
  | TUDT _ _ _ fields =>
      match data with
      | None => Ok tt
      | Some d =>
          (fix go (fs : list (bytes * tinfo)) (d : bytes) : res unit :=
             match fs with
             | [] => Ok tt
             | (_, ft) :: fs' =>
                 if blen d =? 0 then Ok tt
                 else if blen d <? 4 then Err EUnmarshal
                 else
                   lift (match go_type ft with Ok _ => Ok tt | Err _ => Err EUnmarshal | Crash c => Crash c end) (fun _ =>
                   lift (out tuple_read_bytes d) (fun pd =>
                   lift (unmarshal proto ft (fst pd)) (fun _ =>
                   go fs' (snd pd))))
             end) fields d
      end
  end.

(* v, err := info.NewWithError(); Unmarshal(info, data, v) *)
Definition unmarshal_new (proto : Z) (t : tinfo) (data : option bytes) : res unit :=
  match go_type t with
  | Ok _ => unmarshal proto t data
  | Err _ => Err EGoType
  | Crash c => Crash c
  end.

(* ======== getCassandraType (helpers.go:165) ================================================ *)
(* ASCII type strings: ranging over a string yields its bytes, TrimSpace trims \t \n \v \f \r and space *)
Definition is_space (c : Z) : bool := ((9 <=? c) && (c <=? 13)) || (c =? 32).
Fixpoint trim_left (s : bytes) : bytes := match s with c :: s' => if is_space c then trim_left s' else s | [] => [] end.
Definition trim_space (s : bytes) : bytes := rev (trim_left (rev (trim_left s))).

Fixpoint contains_byte (c : Z) (s : bytes) : bool := match s with [] => false | x :: s' => (x =? c) || contains_byte c s' end.

(* strings.Split(s, ", ") *)
Fixpoint split_comma_space (s : bytes) (cur : bytes) : list bytes :=
  match s with
  | [] => [rev cur]
  | c :: s' =>
      match s' with
      | c2 :: s'' => if (c =? 44) && (c2 =? 32) then rev cur :: split_comma_space s'' []
                     else split_comma_space s' (c :: cur)
      | [] => split_comma_space s' (c :: cur)
      end
  end.

(* the loop of splitCompositeTypes *)
Fixpoint split_loop (s : bytes) (less : Z) (seg : bytes) (parts : list bytes) : list bytes :=
  match s with
  | [] => match seg with [] => rev parts | _ => rev (trim_space (rev seg) :: parts) end
  | c :: s' =>
      if (c =? 44) && (less =? 0)
      then split_loop s' less [] (match seg with [] => parts | _ => trim_space (rev seg) :: parts end)
      else split_loop s' (if c =? 60 then less + 1 else if c =? 62 then less - 1 else less) (c :: seg) parts
  end.

Definition split_composite_types (name : bytes) : list bytes :=
  if negb (contains_byte 60 name) then split_comma_space name [] else split_loop name 0 [] [].

(* the switch of getCassandraBaseType; the names are string literals there *)
Definition base_names : list (bytes * Z) :=
  [ (s2b "ascii", K.TypeAscii); (s2b "bigint", K.TypeBigInt); (s2b "blob", K.TypeBlob); (s2b "boolean", K.TypeBoolean);
    (s2b "counter", K.TypeCounter); (s2b "date", K.TypeDate); (s2b "decimal", K.TypeDecimal); (s2b "double", K.TypeDouble);
    (s2b "duration", K.TypeDuration); (s2b "float", K.TypeFloat); (s2b "int", K.TypeInt); (s2b "smallint", K.TypeSmallInt);
    (s2b "tinyint", K.TypeTinyInt); (s2b "time", K.TypeTime); (s2b "timestamp", K.TypeTimestamp); (s2b "uuid", K.TypeUUID);
    (s2b "varchar", K.TypeVarchar); (s2b "text", K.TypeText); (s2b "varint", K.TypeVarint); (s2b "timeuuid", K.TypeTimeUUID);
    (s2b "inet", K.TypeInet); (s2b "MapType", K.TypeMap); (s2b "ListType", K.TypeList); (s2b "SetType", K.TypeSet);
    (s2b "TupleType", K.TypeTuple) ].
Definition base_type (name : bytes) : Z :=
  match assoc_bytes name base_names with Some t => t | None => K.TypeCustom end.

(* strings.TrimPrefix(name[:len(name)-1], pre): the slice panics on an empty name *)
Definition inner (name pre : bytes) : res bytes :=
  match name with
  | [] => Crash CGuarded
  | _ => Ok (go_trim_prefix (removelast name) pre)
  end.

Fixpoint get_cassandra_type (fuel : nat) (name : bytes) : res tinfo :=
  match fuel with
  | O => Err EFuel
  | S f =>
      if has_prefix name (s2b "frozen<") then lift (inner name (s2b "frozen<")) (get_cassandra_type f)
      else if has_prefix name (s2b "set<") then
        lift (inner name (s2b "set<")) (fun n => lift (get_cassandra_type f n) (fun e => Ok (TColl K.TypeSet [] None e)))
      else if has_prefix name (s2b "list<") then
        lift (inner name (s2b "list<")) (fun n => lift (get_cassandra_type f n) (fun e => Ok (TColl K.TypeList [] None e)))
      else if has_prefix name (s2b "map<") then
        lift (inner name (s2b "map<")) (fun n =>
          match split_composite_types n with
          | [k; v] => lift (get_cassandra_type f k) (fun kt => lift (get_cassandra_type f v) (fun vt =>
                        Ok (TColl K.TypeMap [] (Some kt) vt)))
          | _ => Ok (TNative K.TypeCustom [])
          end)
      else if has_prefix name (s2b "tuple<") then
        lift (inner name (s2b "tuple<")) (fun n =>
          lift ((fix go (l : list bytes) : res (list tinfo) :=
                   match l with
                   | [] => Ok []
                   | x :: l' => lift (get_cassandra_type f x) (fun t => lift (go l') (fun ts => Ok (t :: ts)))
                   end) (split_composite_types n))
               (fun ts => Ok (TTuple [] ts)))
      else Ok (TNative (base_type name) [])
  end.
(* every recursive call is on a strictly shorter string *)
Definition get_cassandra_type_top (name : bytes) : res tinfo := get_cassandra_type (S (length name)) name.

(* ======== parseType, the typeParser (metadata.go:1200) ======================================= *)
(* the AST: class name, parameters (optional name, class), the input segment that defined the node *)
Inductive cnode := CNode (name : bytes) (params : list (option bytes * cnode)) (input : bytes).
Definition cn_name (c : cnode) := match c with CNode n _ _ => n end.
Definition cn_params (c : cnode) := match c with CNode _ p _ => p end.
Definition cn_input (c : cnode) := match c with CNode _ _ i => i end.

Definition is_ws (c : Z) : bool := (c =? 32) || (c =? 10) || (c =? 9).
Definition is_ident (c : Z) : bool :=
  ((48 <=? c) && (c <=? 57)) || ((97 <=? c) && (c <=? 122)) || ((65 <=? c) && (c <=? 90))
  || (c =? 45) || (c =? 43) || (c =? 46) || (c =? 95) || (c =? 38).

(* the parser state is the index; [inp] is t.input.  skipWhitespace / nextIdentifier scan forward *)
Fixpoint scan_while (f : Z -> bool) (rest : bytes) (idx : nat) : nat :=
  match rest with c :: r => if f c then scan_while f r (S idx) else idx | [] => idx end.
Definition skip_ws (inp : bytes) (idx : nat) : nat := scan_while is_ws (skipn idx inp) idx.
Definition next_ident (inp : bytes) (idx : nat) : option (bytes * nat) :=
  let e := scan_while is_ident (skipn idx inp) idx in
  if (e =? idx)%nat then None else Some (firstn (e - idx) (skipn idx inp), e).

(* t.index < len(t.input) && t.input[t.index] == c *)
Definition char_is (inp : bytes) (idx : nat) (c : Z) : bool :=
  match nth_error inp idx with Some x => x =? c | None => false end.

Section params.
  (* parseClassNode with one unit less of fuel *)
  Variable parse_class : bytes -> nat -> res (option cnode * nat).

  (* the for loop of parseParamNodes, entered after '(' and whitespace; every iteration consumes an identifier;
     it also stops at the end of the input, which the caller turns into "unparsable" *)
  Fixpoint param_loop (fuel : nat) (inp : bytes) (idx : nat) (acc : list (option bytes * cnode))
    : res (option (list (option bytes * cnode)) * nat) :=
    match fuel with
    | O => Err EFuel
    | S f =>
        match nth_error inp idx with
        | None => Ok (None, idx)                              (* the parameter list is not closed *)
        | Some c =>
            if c =? 41 then Ok (Some (rev acc), S idx)        (* consume the ')' *)
            else
              let backup := idx in
              match next_ident inp idx with
              | None => Ok (None, idx)
              | Some (name, idx1) =>
                  let idx2 := skip_ws inp idx1 in
                  let has_name := char_is inp idx2 58 in
                  let idx3 := if has_name then skip_ws inp (S idx2) else backup in
                  lift (parse_class inp idx3) (fun r =>
                  match fst r with
                  | None => Ok (None, snd r)
                  | Some node =>
                      let idx4 := skip_ws inp (snd r) in
                      let idx5 := if char_is inp idx4 44 then skip_ws inp (S idx4) else idx4 in
                      param_loop f inp idx5 ((if has_name then Some name else None, node) :: acc)
                  end)
              end
        end
    end.

  Definition parse_params (fuel : nat) (inp : bytes) (idx : nat) : res (option (list (option bytes * cnode)) * nat) :=
    let idx := skip_ws inp idx in
    match nth_error inp idx with
    | Some 40 => param_loop fuel inp (skip_ws inp (S idx)) []
    | _ => Ok (Some [], idx)                                   (* the params are optional *)
    end.
End params.

Fixpoint parse_class (fuel : nat) (inp : bytes) (idx : nat) : res (option cnode * nat) :=
  match fuel with
  | O => Err EFuel
  | S f =>
      let start := skip_ws inp idx in
      match next_ident inp start with
      | None => Ok (None, start)
      | Some (name, idx1) =>
          lift (parse_params (parse_class f) f inp idx1) (fun r =>
          match fst r with
          | None => Ok (None, snd r)
          | Some ps => Ok (Some (CNode name ps (firstn (snd r - start) (skipn start inp))), snd r)
          end)
      end
  end.

(* asTypeInfo: a List/Set/Map class without the parameters it needs is kept as a custom type *)
Definition custom_of (c : cnode) : tinfo := TNative K.TypeCustom (cn_input c).

Fixpoint as_type_info (fuel : nat) (c : cnode) : res tinfo :=
  match fuel with
  | O => Err EFuel
  | S f =>
      if has_prefix (cn_name c) K.LIST_TYPE then
        match cn_params c with
        | e :: _ => lift (as_type_info f (snd e)) (fun t => Ok (TColl K.TypeList [] None t))
        | [] => Ok (custom_of c)
        end
      else if has_prefix (cn_name c) K.SET_TYPE then
        match cn_params c with
        | e :: _ => lift (as_type_info f (snd e)) (fun t => Ok (TColl K.TypeSet [] None t))
        | [] => Ok (custom_of c)
        end
      else if has_prefix (cn_name c) K.MAP_TYPE then
        match cn_params c with
        | k :: e :: _ =>
            lift (as_type_info f (snd k)) (fun kt => lift (as_type_info f (snd e)) (fun et =>
            Ok (TColl K.TypeMap [] (Some kt) et)))
        | _ => Ok (custom_of c)
        end
      else
        let typ := apache_type (cn_name c) in
        Ok (TNative typ (if typ =? K.TypeCustom then cn_input c else []))
  end.

(* hex.DecodeString: None on odd length or a non-hex digit *)
Definition hex_digit (c : Z) : option Z :=
  if (48 <=? c) && (c <=? 57) then Some (c - 48)
  else if (97 <=? c) && (c <=? 102) then Some (c - 87)
  else if (65 <=? c) && (c <=? 70) then Some (c - 55)
  else None.
Fixpoint hex_decode (s : bytes) : option bytes :=
  match s with
  | [] => Some []
  | a :: b :: s' =>
      match hex_digit a, hex_digit b, hex_decode s' with
      | Some x, Some y, Some r => Some (x * 16 + y :: r)
      | _, _, _ => None
      end
  | _ => None
  end.

Record type_result := {
  tr_composite : bool;
  tr_types : list tinfo;
  tr_reversed : list bool;
  tr_collections : list (bytes * tinfo)       (* in source order; a Go map *)
}.

(* ReversedType(x) stands for x; without a parameter it is left as it is *)
Definition unreverse (cls : cnode) : bool * cnode :=
  if has_prefix (cn_name cls) K.REVERSED_TYPE
  then match cn_params cls with p :: _ => (true, snd p) | [] => (false, cls) end
  else (false, cls).

(* typeParser.parse *)
Definition parse_type (def : bytes) : res type_result :=
  let fuel := S (length def) in
  lift (parse_class fuel def 0) (fun r =>
  match fst r with
  | None => Ok {| tr_composite := false; tr_types := [TNative K.TypeCustom def]; tr_reversed := [false]; tr_collections := [] |}
  | Some ast =>
      let non_composite :=
        let rc := unreverse ast in
        lift (as_type_info fuel (snd rc)) (fun t =>
        Ok {| tr_composite := false; tr_types := [t]; tr_reversed := [fst rc]; tr_collections := [] |}) in
      if has_prefix (cn_name ast) K.COMPOSITE_TYPE then
        match rev (cn_params ast) with
        | [] => non_composite                         (* a composite without parameters: one (custom) type *)
        | lastp :: before_rev =>
            let last := snd lastp in
            let has_coll := has_prefix (cn_name last) K.COLLECTION_TYPE in
            lift (if has_coll then
                    (fix go (ps : list (option bytes * cnode)) : res (list (bytes * tinfo)) :=
                       match ps with
                       | [] => Ok []
                       | (nm, cls) :: ps' =>
                           match nm with
                           | None => go ps'                    (* unnamed: skipped *)
                           | Some n =>
                               let key := match hex_decode n with Some d => d | None => n end in
                               lift (as_type_info fuel cls) (fun t => lift (go ps') (fun rest => Ok ((key, t) :: rest)))
                           end
                       end) (cn_params last)
                  else Ok []) (fun colls =>
            (* count == 0: nothing but the collections parameter -- a custom type, like an unparsable definition
               (fix typestring-composite-only-collections; callers index types[0]) *)
            if has_coll && (match before_rev with [] => true | _ => false end)
            then Ok {| tr_composite := false; tr_types := [TNative K.TypeCustom def]; tr_reversed := [false]; tr_collections := [] |}
            else
            lift ((fix go (ps : list (option bytes * cnode)) : res (list (tinfo * bool)) :=
                     match ps with
                     | [] => Ok []
                     | (_, cls) :: ps' =>
                         let rc := unreverse cls in
                         lift (as_type_info fuel (snd rc)) (fun t => lift (go ps') (fun rest => Ok ((t, fst rc) :: rest)))
                     end) (if has_coll then rev before_rev else cn_params ast)) (fun trs =>
            Ok {| tr_composite := true; tr_types := map fst trs; tr_reversed := map snd trs; tr_collections := colls |}))
        end
      else non_composite
  end).
