(* C05/Corr.v -- correspondence cases for property C05: the frame-level cases are C04's (parseFrame,
   Iter.Scan, RowData on truncated / mutated / random bodies); added here: Unmarshal into the canonical
   destination, getCassandraType, splitCompositeTypes, parseType on arbitrary strings.  The compared
   observable is the outcome class (ok / returned error / panic with its site) and, when ok, the value. *)
From GocqlV Require Import Lib.Base Gen.Consts C04.Model C04.Spec C04.Corr C05.Model C05.Conn.

Definition type_result_eq_dec : forall a b : type_result, {a = b} + {a <> b}.
Proof. deq. Defined.

Definition res_unit_eqb (a b : res unit) : bool :=
  match a, b with
  | Ok _, Ok _ => true
  | Err e, Err e' => dec (errc_eq_dec e e')
  | Crash c, Crash c' => dec (crashc_eq_dec c c')
  | _, _ => false
  end.

Definition res_tinfo_eqb (a b : res tinfo) : bool :=
  match a, b with
  | Ok x, Ok y => dec (tinfo_eq_dec x y)
  | Err e, Err e' => dec (errc_eq_dec e e')
  | Crash c, Crash c' => dec (crashc_eq_dec c c')
  | _, _ => false
  end.

Definition canon_tr (r : type_result) : type_result :=
  {| tr_composite := tr_composite r; tr_types := tr_types r; tr_reversed := tr_reversed r;
     tr_collections := canon (tr_collections r) |}.

Definition res_tr_eqb (a b : res type_result) : bool :=
  match a, b with
  | Ok x, Ok y => dec (type_result_eq_dec (canon_tr x) y)
  | Err e, Err e' => dec (errc_eq_dec e e')
  | Crash c, Crash c' => dec (crashc_eq_dec c c')
  | _, _ => false
  end.

(* what the parent process observes of a child running a connection scenario *)
Inductive proc_outcome := PEstablished | PError | PCrashed.

Definition proc_eqb (a b : proc_outcome) : bool :=
  match a, b with PEstablished, PEstablished | PError, PError | PCrashed, PCrashed => true | _, _ => false end.

Definition proc_of_handshake (o : houtcome) : proc_outcome :=
  match o with
  | HEstablished => PEstablished
  | HFailed | HWaiting => PError      (* a missing reply ends the attempt with the connect timeout *)
  | HCrash => PCrashed
  end.

(* one heartbeat round: does the process survive, and is a connection closed / replaced *)
Definition heartbeat_obs (control : bool) (k : fkind) : proc_outcome * bool :=
  let conn := hb_run true 0 [k] in
  let ctl := if control then ctl_run true [k] else CtlOk in
  let ctl1 := if control then ctl_step true k else CtlOk in
  match conn, ctl with
  | HbCrash, _ | _, CtlCrash => (PCrashed, true)
  | HbClosed, _ => (PEstablished, true)
  | HbRunning _, _ => (PEstablished, match ctl1 with CtlReconnect => true | _ => false end)
  end.

Inductive case :=
| CF (c : C04.Corr.case)
(* v, err := info.NewWithError(); Unmarshal(info, data, v); proto = the version stored in the type *)
| CUnmarshal (proto : Z) (t : tinfo) (data : option bytes) (impl : res unit)
| CGetType (name : bytes) (impl : res tinfo)               (* getCassandraType, ASCII names *)
| CSplit (name : bytes) (impl : list bytes)                (* splitCompositeTypes, ASCII names *)
| CParseType (def : bytes) (impl : res type_result)        (* parseType *)
(* NewSession against a scripted node answering the handshake requests of the first connection with the given
   kinds, in a child process: outcome of the process and number of handshake requests the node received *)
| CHandshake (a : authcfg) (replies : list fkind) (impl : proc_outcome) (nreq : nat)
(* the first heartbeat round of an established connection answered with one kind: pool connection
   (Conn.heartBeat) or control connection (Conn.heartBeat and controlConn.heartBeat); outcome of the process
   and whether the driver closed a connection *)
| CHeartbeat (control : bool) (k : fkind) (impl : proc_outcome) (closed : bool).

Definition check (c : case) : bool :=
  match c with
  | CF c => C04.Corr.check c
  | CUnmarshal proto t data impl => res_unit_eqb (unmarshal_new proto t data) impl
  | CGetType name impl => res_tinfo_eqb (get_cassandra_type_top name) impl
  | CSplit name impl => dec (list_eq_dec bytes_eq_dec (split_composite_types name) impl)
  | CParseType def impl => res_tr_eqb (parse_type def) impl
  | CHandshake a replies impl nreq =>
      let r := handshake true a replies in
      proc_eqb (proc_of_handshake (fst r)) impl && Nat.eqb (snd r) nreq
  | CHeartbeat control k impl closed =>
      let r := heartbeat_obs control k in
      proc_eqb (fst r) impl && Bool.eqb (snd r) closed
  end.

Definition run (cs : list case) : list N := mismatches check cs.
