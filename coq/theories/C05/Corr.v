(* C05/Corr.v -- correspondence cases for property C05: the frame-level cases are C04's (parseFrame,
   Iter.Scan, RowData on truncated / mutated / random bodies); added here: Unmarshal into the canonical
   destination, getCassandraType, splitCompositeTypes, parseType on arbitrary strings.  The compared
   observable is the outcome class (ok / returned error / panic with its site) and, when ok, the value. *)
From GocqlV Require Import Lib.Base Gen.Consts C04.Model C04.Spec C04.Corr C05.Model.

Definition type_result_eq_dec : forall a b : type_result, {a = b} + {a <> b}.
Proof. deq. Defined.

Definition res_unit_eqb (a b : res unit) : bool :=
  match a, b with
  | Ok _, Ok _ => true
  | Err e, Err e' => dec (errc_eq_dec e e')
  | Crash c, Crash c' => dec (crashc_eq_dec c c')
  | _, _ => false
  end.

Definition res_tinfo_eqb (a b : res tinfo) : bool :=
  match a, b with
  | Ok x, Ok y => dec (tinfo_eq_dec x y)
  | Err e, Err e' => dec (errc_eq_dec e e')
  | Crash c, Crash c' => dec (crashc_eq_dec c c')
  | _, _ => false
  end.

Definition canon_tr (r : type_result) : type_result :=
  {| tr_composite := tr_composite r; tr_types := tr_types r; tr_reversed := tr_reversed r;
     tr_collections := canon (tr_collections r) |}.

Definition res_tr_eqb (a b : res type_result) : bool :=
  match a, b with
  | Ok x, Ok y => dec (type_result_eq_dec (canon_tr x) y)
  | Err e, Err e' => dec (errc_eq_dec e e')
  | Crash c, Crash c' => dec (crashc_eq_dec c c')
  | _, _ => false
  end.

Inductive case :=
| CF (c : C04.Corr.case)
(* v, err := info.NewWithError(); Unmarshal(info, data, v); proto = the version stored in the type *)
| CUnmarshal (proto : Z) (t : tinfo) (data : option bytes) (impl : res unit)
| CGetType (name : bytes) (impl : res tinfo)               (* getCassandraType, ASCII names *)
| CSplit (name : bytes) (impl : list bytes)                (* splitCompositeTypes, ASCII names *)
| CParseType (def : bytes) (impl : res type_result).       (* parseType *)

Definition check (c : case) : bool :=
  match c with
  | CF c => C04.Corr.check c
  | CUnmarshal proto t data impl => res_unit_eqb (unmarshal_new proto t data) impl
  | CGetType name impl => res_tinfo_eqb (get_cassandra_type_top name) impl
  | CSplit name impl => dec (list_eq_dec bytes_eq_dec (split_composite_types name) impl)
  | CParseType def impl => res_tr_eqb (parse_type def) impl
  end.

Definition run (cs : list case) : list N := mismatches check cs.
