(* C05/Props.v -- the proof obligations of property C05 (no bytes from the network can crash the
   application), and nothing else.

   The models (C04/Model.v: parseFrame and everything below it, Iter.Scan, the Scanner API, RowData;
   C05/Model.v: Unmarshal into the canonical destination, getCassandraType, parseType) return Crash c exactly
   where the Go code would panic in the caller's or a driver goroutine.  The defects the first version of
   this file had to exclude (14 known findings: short inet, partition-key count, rows shorter than declared,
   empty tuple column, Scanner cell index, tuple/UDT field length, list length, short date, map key types,
   three in the typeParser, two allocation sites) have been repaired in /repo; the models follow the repaired
   code and every statement below is now unconditional: for ALL byte strings, no Crash. *)
From Coq Require Import String.
From GocqlV Require Import Lib.Base Gen.Consts C04.Model C04.Proofs1 C04.Proofs4
  C05.Model C05.Proofs1 C05.Proofs2 C05.Proofs3 C05.Proofs4 C05.Proofs5 C05.Proofs6 C05.Conn.

(* never_crashes p (C05/Model.v): forall b c, wf_bytes b -> out p b <> Crash c *)

(* Every primitive reader of frame.go:1771-1937 returns a value or a (recovered) error on every byte string. *)
Theorem C05_primitives_safe :
  never_crashes read_byte /\ never_crashes read_short /\ never_crashes read_int /\ never_crashes read_string
  /\ never_crashes read_bytes /\ never_crashes read_short_bytes /\ never_crashes read_uuid
  /\ never_crashes read_string_list /\ never_crashes read_bytes_map /\ never_crashes read_string_multimap
  /\ never_crashes read_inet_addr /\ never_crashes read_inet.
Proof.
  repeat split; eapply good_nil_never;
    first [ apply good_read_byte | apply good_read_short | apply good_read_int | apply good_read_string | apply good_read_bytes
          | apply good_read_short_bytes | apply good_read_uuid | apply good_read_string_list | apply good_read_bytes_map
          | apply good_read_string_multimap | apply good_read_inet_addr | apply good_read_inet ].
Qed.
Print Assumptions C05_primitives_safe.

(* parseFrame, for every framer version, every header (any opcode, any flags, either direction) and every body:
   a frame or an error, never a panic; the error is never the model's own fuel error; on success the unconsumed
   part is a suffix of the body (nothing outside the received bytes is returned as remainder) and the column
   types of a rows frame have the shape goType / Unmarshal expect. *)
Theorem C05_parse_frame_safe : forall proto hver hflags hop body, wf_bytes body ->
  match out (parse_frame proto hver hflags hop) body with
  | Ok (p, rest) => (exists k, rest = skipn k body) /\ frame_ok (p_frame p)
  | Err e => e <> EFuel
  | Crash _ => False
  end.
Proof.
  intros proto hver hflags hop body Hb.
  pose proof (good_parse_frame proto hver hflags hop body Hb) as G.
  pose proof (parse_frame_no_fuel proto hver hflags hop body Hb) as F.
  destruct (out (parse_frame proto hver hflags hop) body) as [[p rest]|e|c].
  - destruct G as [G1 G2]. split; [exact G2 | exact G1].
  - intros ->. apply F. reflexivity.
  - exact G.
Qed.
Print Assumptions C05_parse_frame_safe.

(* Allocation in proportion to the bytes received: whatever the body and whatever the outcome (frame, error),
   the bytes parseFrame asks the allocator for -- every make, copy and string conversion of the modelled code, with
   nominal 64-bit element sizes and five times the final size for slices grown by append -- are at most 84 per
   byte of the body plus 4 MiB (the largest nest of allocations sized by a 16-bit count before the elements are
   read: a string multimap of string lists).  Before the fixes of alloc-nested-tuple-types and
   alloc-prepared-pk-count this was false (200 MB for 821 bytes; 16 GiB for 19 bytes). *)
Theorem C05_alloc_linear : forall proto hver hflags hop body, wf_bytes body ->
  cost (parse_frame proto hver hflags hop) body <= 84 * blen body + 64 * 65535.
Proof. exact parse_frame_alloc_linear. Qed.
Print Assumptions C05_alloc_linear.

(* readTypeInfo: arbitrarily nested, arbitrarily malformed type descriptors never panic; the model's
   recursion fuel (buffer length + 1) is never exhausted; the descriptors it builds have the shape
   (collection ids only on collection types, a key exactly on maps) that excludes goType's type assertions. *)
Theorem C05_read_type_safe : forall b, wf_bytes b ->
  match out read_type_info b with
  | Ok (t, rest) => tinfo_ok t /\ exists k, rest = skipn k b
  | Err e => e <> EFuel
  | Crash _ => False
  end.
Proof.
  intros b Hb. pose proof (good_read_type_info [] b Hb) as G. pose proof (tight_read_type_info (length b) b Hb (le_n _)) as T.
  destruct (out read_type_info b) as [[t rest]|e|c]; [exact G | exact T | exact G].
Qed.
Print Assumptions C05_read_type_safe.

(* Iter.Scan -- any metadata, any number of destinations, any body, any number of calls: true with cells,
   or false (with Iter.err set when the body ends early, a tuple component is longer than its cell, or the
   destinations do not fit), never a panic. *)
Theorem C05_scan_safe : forall k m nrows ndest it, wf_bytes (it_buf it) ->
  Forall (fun o => match o with SPanic _ => False | _ => True end) (iter_scans k m nrows ndest it).
Proof. exact iter_scans_safe. Qed.
Print Assumptions C05_scan_safe.

(* The Scanner API (Next, then Scan): likewise. *)
Theorem C05_scanner_safe : forall k m nrows ndest it, wf_bytes (it_buf it) ->
  Forall (fun o => match o with SPanic _ => False | _ => True end) (scanner_steps k m nrows ndest it).
Proof. exact scanner_steps_safe. Qed.
Print Assumptions C05_scanner_safe.

(* Iter.RowData (MapScan, SliceMap) on the columns of any parsed rows frame never panics (a map column whose key
   type Go cannot use as a map key is an error). *)
Theorem C05_rowdata_safe : forall proto hver hflags hop body p rest m n c, wf_bytes body ->
  out (parse_frame proto hver hflags hop) body = Ok (p, rest) -> p_frame p = FRows m n ->
  row_data (m_cols m) <> Crash c.
Proof.
  intros proto hver hflags hop body p rest m n c Hb Hp Hf.
  pose proof (C05_parse_frame_safe proto hver hflags hop body Hb) as G. rewrite Hp in G. destruct G as [_ G].
  rewrite Hf in G. apply row_data_safe. exact G.
Qed.
Print Assumptions C05_rowdata_safe.

(* Unmarshal of any bytes into the destination NewWithError creates, for every type readTypeInfo can build
   (tinfo_ok, see C05_read_type_safe) and any protocol version: never a panic, and the model's loop fuel is
   never exhausted. *)
Theorem C05_unmarshal_safe : forall proto t data c, tinfo_ok t ->
  unmarshal_new proto t data <> Crash c /\ unmarshal proto t data <> Err EFuel.
Proof. intros proto t data c Hok. split; [apply unmarshal_new_no_crash, Hok | apply unmarshal_no_fuel]. Qed.
Print Assumptions C05_unmarshal_safe.

(* getCassandraType (schema type names, v3+ schema tables): total on every byte string -- it returns a type,
   never panics, and the model's fuel is never exhausted. *)
Theorem C05_get_cassandra_type_total : forall name, exists t, get_cassandra_type_top name = Ok t.
Proof. exact get_cassandra_type_top_total. Qed.
Print Assumptions C05_get_cassandra_type_total.

(* parseType (validator / comparator class strings of the v1/v2 schema tables): never a panic, whatever the string. *)
Theorem C05_typestring_safe : forall def c, parse_type def <> Crash c.
Proof. exact parse_type_no_crash. Qed.
Print Assumptions C05_typestring_safe.

(* ---- non-vacuity ------------------------------------------------------------------------------------ *)
(* ---- the driver's own goroutines (C05/Conn.v) ------------------------------------------------------------
   The startup goroutine of setupConn (options -> startup -> authenticateHandshake), Conn.heartBeat and
   controlConn.heartBeat have no recover.  Whatever sequence of frame kinds the peer answers with --
   for every authenticator configuration (none, PasswordAuthenticator, any user authenticator described by
   which of its callbacks return a challenger / an error) -- none of them panics; the handshake writes at
   most one request per reply consumed (plus the initial OPTIONS). *)
Theorem C05_handshake_safe : forall (a : authcfg) (replies : list fkind),
  fst (handshake true a replies) <> HCrash
  /\ (snd (handshake true a replies) <= 1 + length replies)%nat.
Proof. intros a ks. split; [apply hs_run_no_crash | apply (hs_run_requests true a ks SOptions 1)]. Qed.
Print Assumptions C05_handshake_safe.

Theorem C05_heartbeat_safe : forall (replies : list fkind) (failures : nat),
  hb_run true failures replies <> HbCrash /\ ctl_run true replies <> CtlCrash.
Proof. intros ks f. split; [apply hb_run_no_crash | apply ctl_run_no_crash]. Qed.
Print Assumptions C05_heartbeat_safe.

(* the hypotheses are satisfiable and the conclusions have both remaining outcomes: a body that parses, and the
   formerly crashing inputs, which are now rejected with errors *)
Example C05_nonvacuous :
  wf_bytes [0;0;0;2; 0;0;0;1; 0;0;0;1; 0;1;107; 0;1;116; 0;1;99; 0;33; 0;13; 0;9; 0;0;0;0]
  /\ (exists p, out (parse_frame 4 132 0 K.opResult) [0;0;0;2; 0;0;0;1; 0;0;0;1; 0;1;107; 0;1;116; 0;1;99; 0;33; 0;13; 0;9; 0;0;0;0] = Ok (p, []))
  /\ out (parse_frame 4 132 0 K.opResult) [0;0;0;2; 0;0;0;1; 0;0;0;1; 0;1;107] = Err EShort
  /\ out (parse_frame 4 132 0 K.opEvent) ([0;13] ++ s2b "STATUS_CHANGE" ++ [0;2;85;80;16;1;2]) = Err EShort
  /\ out (parse_frame 4 132 0 K.opResult) [0;0;0;4; 0;1;120; 0;0;0;0; 0;0;0;0; 255;255;255;251] = Err ENegPk
  /\ tinfo_ok (TColl K.TypeMap [] (Some (TNative K.TypeVarchar [])) (TTuple [] [TNative K.TypeInt []; TUDT [] [107] [117] [([102], TNative K.TypeBlob [])]]))
  /\ unmarshal_new 4 (TColl K.TypeList [] None (TNative K.TypeInt [])) (Some [255;255;255;254]) = Err EUnmarshal
  /\ (exists r, parse_type (s2b "A(") = Ok r)
  (* the former allocation witness: 200 nested tuple types of arity 0xFFFF in 821 bytes now cost 67 bytes *)
  /\ cost (parse_frame 4 132 0 K.opResult)
          ([0;0;0;2; 0;0;0;0; 0;0;0;1; 0;1;107; 0;1;116; 0;1;99] ++ concat (repeat [0; 49; 255; 255] 200)) = 67.
Proof.
  split; [apply wf_bytesb_spec; vm_compute; reflexivity|].
  split; [eexists; vm_compute; reflexivity|].
  split; [vm_compute; reflexivity|]. split; [vm_compute; reflexivity|]. split; [vm_compute; reflexivity|].
  split; [vm_compute; intuition discriminate|]. split; [vm_compute; reflexivity|]. split; [eexists; vm_compute; reflexivity|].
  vm_compute. reflexivity.
Qed.
