(* C05/Props.v -- the proof obligations of property C05 (no bytes from the network can crash the
   application), and nothing else.

   The models (C04/Model.v: parseFrame and everything below it, Iter.Scan, RowData; C05/Model.v:
   Unmarshal into the canonical destination, getCassandraType, parseType) return Crash c exactly where the
   Go code panics in the caller's or a driver goroutine, c naming the site.  The full statement "never
   Crash" is FALSE for the code as it is (C05/Refuted.v has one machine-checked witness per site, each
   reproduced on the real code and registered as a known finding).  What is proved, for ALL byte strings:
   every crash is at one of the named sites, the sites each decoder can reach, the exact inputs on
   which the two frame-parser sites fire, and full safety where it holds (every primitive reader,
   every frame kind that reads neither an inet nor a partition-key count, readTypeInfo, getCassandraType). *)
From Coq Require Import String.
From GocqlV Require Import Lib.Base Gen.Consts C04.Model C04.Proofs1 C04.Proofs4
  C05.Model C05.Proofs1 C05.Proofs2 C05.Proofs3 C05.Proofs4 C05.Proofs5.

(* never_crashes p (C05/Model.v): forall b c, wf_bytes b -> out p b <> Crash c *)
(* Every primitive reader of frame.go:1771-1937 but one returns a value or a (recovered) error on
   every byte string. *)
Theorem C05_primitives_safe :
  never_crashes read_byte /\ never_crashes read_short /\ never_crashes read_int /\ never_crashes read_string
  /\ never_crashes read_bytes /\ never_crashes read_short_bytes /\ never_crashes read_uuid
  /\ never_crashes read_string_list /\ never_crashes read_bytes_map /\ never_crashes read_string_multimap.
Proof.
  repeat split; eapply good_nil_never;
    first [ apply good_read_byte | apply good_read_short | apply good_read_int | apply good_read_string | apply good_read_bytes
          | apply good_read_short_bytes | apply good_read_uuid | apply good_read_string_list | apply good_read_bytes_map
          | apply good_read_string_multimap ].
Qed.
Print Assumptions C05_primitives_safe.

(* The exception: readInetAdressOnly checks "at least one byte" instead of "at least size bytes".  It
   panics exactly when the size byte is 4 or 16 and between 1 and size-1 bytes follow. *)
Theorem C05_inet_crash_iff : forall b c,
  out read_inet_addr b = Crash c <->
  c = CInetSlice /\ exists sz rest, b = sz :: rest /\ (sz = 4 \/ sz = 16) /\ 1 <= blen rest < sz.
Proof. exact read_inet_addr_crash_iff. Qed.
Print Assumptions C05_inet_crash_iff.

(* parseFrame, for every framer version, header and body: a panic can only be the short inet (EVENT
   frames, and ERROR frames with a protocol-5 framer, whose reason map holds inet addresses) or the
   negative partition-key count (RESULT frames with a protocol 4/5 framer); readTypeInfo, both metadata
   readers and every other body reader never panic; on success the unconsumed part is a suffix of the
   body (nothing outside the received bytes is returned as remainder) and the column types of a rows
   frame have the shape goType / Unmarshal expect. *)
Theorem C05_parse_frame_crash_sites : forall proto hver hflags hop body, wf_bytes body ->
  match out (parse_frame proto hver hflags hop) body with
  | Ok (p, rest) => (exists k, rest = skipn k body) /\ frame_ok (p_frame p)
  | Err e => e <> EFuel
  | Crash c =>
      (c = CInetSlice /\ (hop = K.opEvent \/ (hop = K.opError /\ proto > K.protoVersion4)))
      \/ (c = CPkeyMake /\ hop = K.opResult /\ proto >= K.protoVersion4)
  end.
Proof.
  intros proto hver hflags hop body Hb.
  pose proof (good_parse_frame proto hver hflags hop body Hb) as G.
  pose proof (parse_frame_no_fuel proto hver hflags hop body Hb) as F.
  destruct (out (parse_frame proto hver hflags hop) body) as [[p rest]|e|c].
  - destruct G as [G1 G2]. split; [exact G2 | exact G1].
  - intros ->. apply F. reflexivity.
  - unfold frame_sites in G. apply in_app_or in G. destruct G as [G|G].
    + destruct ((hop =? K.opEvent) || ((hop =? K.opError) && (proto >? K.protoVersion4))) eqn:E; [|contradiction].
      destruct G as [<-|[]]. left. split; [reflexivity|].
      apply orb_true_iff in E. destruct E as [E|E]; [left; apply Z.eqb_eq, E|].
      apply andb_true_iff in E. destruct E as [E1 E2]. right. split; [apply Z.eqb_eq, E1 | apply Z.gtb_lt in E2; lia].
    + destruct ((hop =? K.opResult) && (proto >=? K.protoVersion4)) eqn:E; [|contradiction].
      destruct G as [<-|[]]. right. split; [reflexivity|].
      apply andb_true_iff in E. destruct E as [E1 E2]. split; [apply Z.eqb_eq, E1 | apply Z.geb_le in E2; lia].
Qed.
Print Assumptions C05_parse_frame_crash_sites.

(* Hence: READY, AUTHENTICATE, AUTH_CHALLENGE, AUTH_SUCCESS, SUPPORTED, every unknown opcode, every
   request-direction frame, ERROR below protocol 5 and RESULT below protocol 4 can not make parseFrame panic. *)
Theorem C05_parse_frame_safe : forall proto hver hflags hop body c, wf_bytes body ->
  hop <> K.opEvent -> (hop = K.opError -> proto <= K.protoVersion4) -> (hop = K.opResult -> proto < K.protoVersion4) ->
  out (parse_frame proto hver hflags hop) body <> Crash c.
Proof.
  intros proto hver hflags hop body c Hb H1 H2 H3 Hc.
  pose proof (C05_parse_frame_crash_sites proto hver hflags hop body Hb) as G. rewrite Hc in G.
  destruct G as [(_ & [G | (G & G')]) | (_ & G & G')]; [contradiction | specialize (H2 G); lia | specialize (H3 G); lia].
Qed.
Print Assumptions C05_parse_frame_safe.

(* The partition-key site fires exactly on: flags, a non-negative column count, a negative pk count. *)
Theorem C05_pk_count_crash : forall proto b c, wf_bytes b ->
  out (parse_prepared_metadata proto) b = Crash c ->
  c = CPkeyMake /\ proto >= K.protoVersion4
  /\ exists f b1 cc b2 pk b3, out read_int b = Ok (f, b1) /\ out read_int b1 = Ok (cc, b2) /\ 0 <= cc
                              /\ out read_int b2 = Ok (pk, b3) /\ pk < 0.
Proof. exact parse_prepared_metadata_crash. Qed.
Print Assumptions C05_pk_count_crash.

(* readTypeInfo: arbitrarily nested, arbitrarily malformed type descriptors never panic; the model's
   recursion fuel (buffer length + 1) is never exhausted; the descriptors it builds have the shape
   (collection ids only on collection types, a key exactly on maps) that excludes goType's type assertions. *)
Theorem C05_read_type_safe : forall b, wf_bytes b ->
  match out read_type_info b with
  | Ok (t, rest) => tinfo_ok t /\ exists k, rest = skipn k b
  | Err e => e <> EFuel
  | Crash _ => False
  end.
Proof.
  intros b Hb. pose proof (good_read_type_info [] b Hb) as G. pose proof (tight_read_type_info (length b) b Hb (le_n _)) as T.
  destruct (out read_type_info b) as [[t rest]|e|c]; [exact G | exact T | exact G].
Qed.
Print Assumptions C05_read_type_safe.

(* Iter.Scan (any metadata, any destination count, any body): a panic is one of
   - readColumn with fewer than four bytes left (the body is shorter than the declared rows),
   - an empty destination list (trailing zero-arity tuple columns),
   - a tuple component length larger than the rest of the cell (marshal.go readBytes);
   and a sequence of k calls keeps that property. *)
Theorem C05_scan_crash_sites : forall k m nrows ndest it, wf_bytes (it_buf it) ->
  Forall (fun o => match o with SPanic c => In c [CScanPanic; CScanDest; CTupleField] | _ => True end)
         (iter_scans k m nrows ndest it).
Proof. exact iter_scans_sites. Qed.
Print Assumptions C05_scan_crash_sites.

(* The Scanner API (Next, then Scan): the same three sites, and the index of a row's cell by destination
   position in iterScanner.Scan (a tuple column that is not the last one). *)
Theorem C05_scanner_crash_sites : forall k m nrows ndest it, wf_bytes (it_buf it) ->
  Forall (fun o => match o with SPanic c => In c [CScanPanic; CScanDest; CTupleField; CScannerIdx] | _ => True end)
         (scanner_steps k m nrows ndest it).
Proof. exact scanner_steps_sites. Qed.
Print Assumptions C05_scanner_crash_sites.

(* Without tuple columns and with one destination per column, the only panic left is the short body. *)
Theorem C05_scan_no_tuple : forall cols avail b, Forall no_tuple cols -> Z.of_nat (length cols) <= avail -> wf_bytes b ->
  match out (scan_cols cols avail) b with Crash c => c = CScanPanic | _ => True end.
Proof.
  intros cols avail b Hc Ha Hb. pose proof (good_scan_cols_no_tuple cols Hc avail Ha b Hb) as G.
  destruct (out (scan_cols cols avail) b) as [[x r]|e|c]; try exact I. destruct G as [G|[]]. symmetry. exact G.
Qed.
Print Assumptions C05_scan_no_tuple.

(* Iter.RowData (MapScan, SliceMap) on the columns of any parsed rows frame: the only panic is
   reflect.MapOf on a map type whose key type is not comparable in Go. *)
Theorem C05_rowdata_crash_site : forall proto hver hflags hop body p rest m n c, wf_bytes body ->
  out (parse_frame proto hver hflags hop) body = Ok (p, rest) -> p_frame p = FRows m n ->
  row_data (m_cols m) = Crash c -> c = CMapKey.
Proof.
  intros proto hver hflags hop body p rest m n c Hb Hp Hf Hr.
  pose proof (C05_parse_frame_crash_sites proto hver hflags hop body Hb) as G. rewrite Hp in G. destruct G as [_ G].
  rewrite Hf in G. eapply row_data_sites; eassumption.
Qed.
Print Assumptions C05_rowdata_crash_site.

(* Unmarshal of any bytes into the destination NewWithError creates, for every type readTypeInfo can
   build: the only panics are the negative list length, the tuple / UDT field longer than the value,
   the date of 1-3 bytes, and reflect.MapOf as above. *)
Theorem C05_unmarshal_crash_sites : forall proto t data c, tinfo_ok t ->
  unmarshal_new proto t data = Crash c -> In c [CListNeg; CTupleField; CDateShort; CMapKey].
Proof. exact unmarshal_new_sites. Qed.
Print Assumptions C05_unmarshal_crash_sites.

(* ... and the model's loop fuel (length of the value + 1) is never exhausted, for any type and bytes. *)
Theorem C05_unmarshal_fuel_adequate : forall proto t data, unmarshal proto t data <> Err EFuel.
Proof. exact unmarshal_no_fuel. Qed.
Print Assumptions C05_unmarshal_fuel_adequate.

(* getCassandraType (schema type names, v3+ schema tables): total on every byte string -- it returns a type,
   never panics, and the model's fuel is never exhausted. *)
Theorem C05_get_cassandra_type_total : forall name, exists t, get_cassandra_type_top name = Ok t.
Proof. exact get_cassandra_type_top_total. Qed.
Print Assumptions C05_get_cassandra_type_total.

(* parseType (validator / comparator class strings): a panic is an index past the end of the input
   in parseParamNodes, a missing parameter of a Composite/List/Set/Map/Reversed class, or an unnamed
   collection parameter. *)
Theorem C05_typestring_crash_sites : forall def c,
  parse_type def = Crash c -> In c [CTypeIdx; CTypeParams; CTypeNilName].
Proof. exact parse_type_sites. Qed.
Print Assumptions C05_typestring_crash_sites.

(* ---- non-vacuity ------------------------------------------------------------------------------------ *)
(* the hypotheses are satisfiable and the conclusions have all three outcomes: a body that parses, one
   that is rejected with an error, one that crashes at a named site *)
Example C05_nonvacuous :
  wf_bytes [0;0;0;2; 0;0;0;1; 0;0;0;1; 0;1;107; 0;1;116; 0;1;99; 0;33; 0;13; 0;9; 0;0;0;0]
  /\ (exists p, out (parse_frame 4 132 0 K.opResult) [0;0;0;2; 0;0;0;1; 0;0;0;1; 0;1;107; 0;1;116; 0;1;99; 0;33; 0;13; 0;9; 0;0;0;0] = Ok (p, []))
  /\ out (parse_frame 4 132 0 K.opResult) [0;0;0;2; 0;0;0;1; 0;0;0;1; 0;1;107] = Err EShort
  /\ out (parse_frame 4 132 0 K.opEvent) ([0;13] ++ s2b "STATUS_CHANGE" ++ [0;2;85;80;16;1;2]) = Crash CInetSlice
  /\ tinfo_ok (TColl K.TypeMap [] (Some (TNative K.TypeVarchar [])) (TTuple [] [TNative K.TypeInt []; TUDT [] [107] [117] [([102], TNative K.TypeBlob [])]]))
  /\ Forall no_tuple [{| c_ks := []; c_table := []; c_name := [99]; c_type := TNative K.TypeInt [] |}].
Proof.
  split; [apply wf_bytesb_spec; vm_compute; reflexivity|].
  split; [eexists; vm_compute; reflexivity|].
  split; [vm_compute; reflexivity|]. split; [vm_compute; reflexivity|].
  split; [vm_compute; intuition discriminate|]. repeat constructor.
Qed.
