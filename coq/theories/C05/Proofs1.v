(* C05/Proofs1.v -- no byte string makes the frame parsers crash:
   a Hoare-style judgement [good sites Q p] ("on every byte string p returns a value satisfying Q and a
   suffix of its input, or an error, or crashes at one of [sites]") with one rule per monad operation,
   instantiated for every reader of C04/Model.v. *)
From GocqlV Require Import Lib.Base Gen.Consts C04.Model C04.Proofs1.

Arguments Z.mul : simpl never.
Arguments Z.add : simpl never.
Arguments Z.pow : simpl never.
Arguments Z.of_nat : simpl never.
Arguments Z.to_nat : simpl never.
Arguments Z.ltb : simpl never.
Arguments Z.leb : simpl never.
Arguments Z.eqb : simpl never.
Arguments Z.gtb : simpl never.
Arguments Z.geb : simpl never.
Arguments Z.land : simpl never.

Definition suffix_of (b' b : bytes) : Prop := exists k, b' = skipn k b.

Lemma suffix_refl b : suffix_of b b.
Proof. exists 0%nat. reflexivity. Qed.
Lemma suffix_trans a b c : suffix_of a b -> suffix_of b c -> suffix_of a c.
Proof. intros [k ->] [j ->]. exists (j + k)%nat. apply skipn_skipn. Qed.
Lemma suffix_wf b' b : suffix_of b' b -> wf_bytes b -> wf_bytes b'.
Proof. intros [k ->] H. apply wf_skipn, H. Qed.
Lemma suffix_len b' b : suffix_of b' b -> (length b' <= length b)%nat.
Proof. intros [k ->]. rewrite skipn_length. lia. Qed.

Definition good {A} (sites : list crashc) (Q : A -> Prop) (p : P A) : Prop :=
  forall b, wf_bytes b ->
    match out p b with
    | Ok (a, b') => Q a /\ suffix_of b' b
    | Err _ => True
    | Crash c => In c sites
    end.

Lemma good_ret {A} s (Q : A -> Prop) a : Q a -> good s Q (ret a).
Proof. intros H b _. rewrite out_ret. split; [assumption | apply suffix_refl]. Qed.
Lemma good_fail {A} s (Q : A -> Prop) e : good s Q (fail e).
Proof. intros b _. exact I. Qed.
Lemma good_crash {A} s (Q : A -> Prop) c : In c s -> good s Q (crash c).
Proof. intros H b _. exact H. Qed.
Lemma good_alloc s n : good s (fun _ => True) (alloc n).
Proof. intros b _. rewrite out_alloc. split; [exact I | apply suffix_refl]. Qed.
Lemma good_get_len s : good s (fun l => 0 <= l) get_len.
Proof. intros b _. rewrite out_get_len. split; [apply blen_nonneg | apply suffix_refl]. Qed.
Lemma good_need s n : good s (fun _ => True) (need n).
Proof. intros b _. unfold out, need. destruct (blen b <? n); cbn [fst]; [exact I|]. split; [exact I | apply suffix_refl]. Qed.

Lemma good_bind {A B} s (Q : A -> Prop) (R : B -> Prop) (p : P A) (f : A -> P B) :
  good s Q p -> (forall a, Q a -> good s R (f a)) -> good s R (bind p f).
Proof.
  intros Hp Hf b Hb. rewrite out_bind. unfold rbind. specialize (Hp b Hb).
  destruct (out p b) as [[a b']|e|c]; try assumption.
  destruct Hp as [Ha Hs]. specialize (Hf a Ha b' (suffix_wf _ _ Hs Hb)).
  destruct (out (f a) b') as [[x b'']|e|c]; try assumption.
  destruct Hf as [Hx Hs']. split; [assumption | eapply suffix_trans; eassumption].
Qed.

Lemma good_weaken {A} s s' (Q Q' : A -> Prop) p : good s Q p -> (forall a, Q a -> Q' a) -> incl s s' -> good s' Q' p.
Proof.
  intros H HQ Hi b Hb. specialize (H b Hb). destruct (out p b) as [[a b']|e|c]; try assumption.
  - destruct H. split; auto.
  - apply Hi, H.
Qed.

Lemma good_any {A} s (Q : A -> Prop) p : good s Q p -> good s (fun _ => True) p.
Proof. intros H. eapply good_weaken; [eassumption | auto | apply incl_refl]. Qed.

(* need n; x := take n: the guard makes the slice safe *)
Lemma good_need_take {A} s n (R : A -> Prop) (f : bytes -> P A) :
  0 <= n -> (forall x, wf_bytes x -> blen x = n -> good s R (f x)) ->
  good s R (bind (need n) (fun _ => bind (take CGuarded n) f)).
Proof.
  intros Hn Hf b Hb. rewrite out_bind. unfold rbind.
  destruct (Z.ltb_spec (blen b) n) as [Hlt|Hge].
  - rewrite out_need_short by assumption. exact I.
  - rewrite out_need_ok by assumption. rewrite out_bind. unfold rbind. rewrite out_take_ok by lia.
    assert (Hx : wf_bytes (firstn (Z.to_nat n) b)) by (apply wf_firstn, Hb).
    assert (Hl : blen (firstn (Z.to_nat n) b) = n).
    { unfold blen in *. rewrite firstn_length. lia. }
    specialize (Hf _ Hx Hl (skipn (Z.to_nat n) b) (wf_skipn _ _ Hb)).
    destruct (out (f (firstn (Z.to_nat n) b)) (skipn (Z.to_nat n) b)) as [[a b']|e|c]; try assumption.
    destruct Hf as [Ha Hs]. split; [assumption|]. eapply suffix_trans; [eassumption|]. exists (Z.to_nat n). reflexivity.
Qed.

Lemma good_need_take0 s n : 0 <= n ->
  good s (fun x => wf_bytes x /\ blen x = n) (bind (need n) (fun _ => take CGuarded n)).
Proof.
  intros Hn b Hb. rewrite out_bind. unfold rbind.
  destruct (Z.ltb_spec (blen b) n) as [Hlt|Hge].
  - rewrite out_need_short by assumption. exact I.
  - rewrite out_need_ok by assumption. rewrite out_take_ok by lia. split.
    + split; [apply wf_firstn, Hb|]. unfold blen in *. rewrite firstn_length. lia.
    + exists (Z.to_nat n). reflexivity.
Qed.

(* a slice without a sufficient guard: may crash at its site *)
Lemma good_take_site s c n : In c s -> good s (fun x => wf_bytes x) (take c n).
Proof.
  intros Hc b Hb. unfold out, take. destruct ((n <? 0) || (blen b <? n)); cbn [fst]; [assumption|].
  split; [apply wf_firstn, Hb | exists (Z.to_nat n); reflexivity].
Qed.

Lemma good_read_loop {A} s (Q : A -> Prop) (p : P A) : good s Q p -> forall fuel n, good s (Forall Q) (read_loop fuel p n).
Proof.
  intros Hp fuel. induction fuel as [|fuel IH]; intros n; cbn [read_loop]; destruct (n <=? 0);
    try (apply good_ret; constructor); try apply good_fail.
  eapply good_bind; [exact Hp|]. intros x Hx. eapply good_bind; [apply IH|]. intros xs Hxs. apply good_ret. constructor; assumption.
Qed.

Lemma good_read_count {A} s (Q : A -> Prop) (p : P A) n : good s Q p -> good s (Forall Q) (read_count p n).
Proof. intros Hp b Hb. unfold read_count, out. exact (good_read_loop s Q p Hp (S (length b)) n b Hb). Qed.

(* ---- numbers ----------------------------------------------------------------------------------------- *)
Lemma be_dec_bound bs : wf_bytes bs -> 0 <= be_dec bs < 256 ^ blen bs.
Proof.
  unfold be_dec. intros H.
  assert (G : forall acc, 0 <= acc -> 0 <= fold_left (fun a x => a * 256 + x) bs acc < (acc + 1) * 256 ^ blen bs).
  { induction H as [|x bs Hx Hbs IH]; intros acc Hacc.
    - cbn [fold_left]. rewrite blen_nil. change (256 ^ 0) with 1. lia.
    - cbn [fold_left]. rewrite blen_cons. unfold is_byte in Hx. pose proof (blen_nonneg bs).
      specialize (IH (acc * 256 + x) ltac:(lia)). rewrite Z.pow_add_r by lia. change (256 ^ 1) with 256.
      assert (0 < 256 ^ blen bs) by (apply Z.pow_pos_nonneg; lia). nia. }
  specialize (G 0 ltac:(lia)). lia.
Qed.

Lemma signed32_range x : - 2 ^ 31 <= signed 32 x < 2 ^ 31.
Proof.
  unfold signed. change (2 ^ (32 - 1)) with 2147483648. change (2 ^ 32) with 4294967296. change (2 ^ 31) with 2147483648.
  assert (0 <= x mod 4294967296 < 4294967296) by (apply Z.mod_pos_bound; lia).
  destruct (Z.ltb_spec (x mod 4294967296) 2147483648); lia.
Qed.

(* ---- primitive readers -------------------------------------------------------------------------------- *)
Lemma good_read_byte s : good s (fun x => 0 <= x < 256) read_byte.
Proof.
  unfold read_byte. apply good_need_take; [lia|]. intros x Hx Hl. apply good_ret.
  pose proof (be_dec_bound x Hx) as H. rewrite Hl in H. exact H.
Qed.
Lemma good_read_short s : good s (fun x => 0 <= x < 65536) read_short.
Proof.
  unfold read_short. apply good_need_take; [lia|]. intros x Hx Hl. apply good_ret.
  pose proof (be_dec_bound x Hx) as H. rewrite Hl in H. exact H.
Qed.
Lemma good_read_int s : good s (fun x => - 2 ^ 31 <= x < 2 ^ 31) read_int.
Proof. unfold read_int. apply good_need_take; [lia|]. intros x Hx Hl. apply good_ret. apply signed32_range. Qed.

Lemma good_read_string s : good s wf_bytes read_string.
Proof.
  unfold read_string. eapply good_bind; [apply good_read_short|]. intros size Hs; cbv beta in Hs.
  apply good_need_take; [lia|]. intros x Hx Hl. eapply good_bind; [apply good_alloc|]. intros _ _. apply good_ret, Hx.
Qed.

Definition wf_opt (o : option bytes) : Prop := match o with Some x => wf_bytes x | None => True end.

Lemma good_read_bytes s : good s wf_opt read_bytes.
Proof.
  unfold read_bytes. eapply good_bind; [apply good_read_int|]. intros size Hs; cbv beta in Hs.
  destruct (Z.ltb_spec size 0); [apply good_ret; exact I|].
  apply good_need_take; [lia|]. intros x Hx Hl. apply good_ret, Hx.
Qed.

Lemma good_read_short_bytes s : good s wf_bytes read_short_bytes.
Proof.
  unfold read_short_bytes. eapply good_bind; [apply good_read_short|]. intros size Hs; cbv beta in Hs.
  eapply good_weaken; [apply good_need_take0; lia | intros a [Ha _]; exact Ha | apply incl_refl].
Qed.

Lemma good_read_uuid s : good s wf_bytes read_uuid.
Proof.
  unfold read_uuid. apply good_need_take; [lia|]. intros x Hx Hl. eapply good_bind; [apply good_alloc|]. intros _ _. apply good_ret, Hx.
Qed.

Lemma good_read_string_list s : good s (Forall wf_bytes) read_string_list.
Proof.
  unfold read_string_list. eapply good_bind; [apply good_read_short|]. intros size Hs; cbv beta in Hs.
  eapply good_bind; [apply good_alloc|]. intros _ _. apply good_read_count, good_read_string.
Qed.

Lemma good_read_inet_addr s : good s wf_bytes read_inet_addr.
Proof.
  unfold read_inet_addr. apply good_need_take; [lia|]. intros sz Hsz Hl. cbv zeta.
  destruct (Z.eqb_spec (be_dec sz) 4) as [E4|E4]; [|destruct (Z.eqb_spec (be_dec sz) 16) as [E16|E16]]; cbn [orb negb];
    try apply good_fail.
  all: intros b Hb; rewrite out_bind; unfold rbind;
    (destruct (Z.ltb_spec (blen b) (be_dec sz)) as [Hlt|Hge]; [rewrite out_need_short by assumption; exact I|]);
    rewrite out_need_ok by assumption; rewrite out_bind; unfold rbind; rewrite out_alloc; rewrite out_take_ok by lia;
    (split; [apply wf_firstn, Hb | exists (Z.to_nat (be_dec sz)); reflexivity]).
Qed.

Lemma good_read_inet s : good s (fun _ => True) read_inet.
Proof.
  unfold read_inet. eapply good_bind; [apply good_read_inet_addr|]. intros ip _.
  eapply good_bind; [apply good_read_int|]. intros port _. apply good_ret. exact I.
Qed.

Lemma good_read_bytes_map s : good s (fun _ => True) read_bytes_map.
Proof.
  unfold read_bytes_map. eapply good_bind; [apply good_read_short|]. intros size Hs; cbv beta in Hs.
  eapply good_bind; [apply good_alloc|]. intros _ _. eapply good_any. apply good_read_count with (Q := fun _ => True).
  eapply good_bind; [apply good_read_string|]. intros k _. eapply good_bind; [apply good_read_bytes|]. intros v _. apply good_ret. exact I.
Qed.

Lemma good_read_string_multimap s : good s (fun _ => True) read_string_multimap.
Proof.
  unfold read_string_multimap. eapply good_bind; [apply good_read_short|]. intros size Hs; cbv beta in Hs.
  eapply good_bind; [apply good_alloc|]. intros _ _. eapply good_any. apply good_read_count with (Q := fun _ => True).
  eapply good_bind; [apply good_read_string|]. intros k _. eapply good_bind; [apply good_read_string_list|]. intros v _. apply good_ret. exact I.
Qed.

(* ---- types and metadata --------------------------------------------------------------------------------- *)
Lemma tinfo_ok_tuple_forall cu es : Forall tinfo_ok es -> tinfo_ok (TTuple cu es).
Proof. intros H. cbn [tinfo_ok]. induction H; [exact I | split; assumption]. Qed.
Lemma tinfo_ok_udt_forall cu ks n fs : Forall (fun f => tinfo_ok (snd f)) fs -> tinfo_ok (TUDT cu ks n fs).
Proof. intros H. cbn [tinfo_ok]. induction H; [exact I | split; assumption]. Qed.

(* readTypeInfo never crashes, and builds descriptors of the expected shape *)
Lemma good_read_type s : forall fuel, good s tinfo_ok (read_type fuel).
Proof.
  induction fuel as [|fuel IH]; cbn [read_type]; [apply good_fail|].
  eapply good_bind; [apply good_read_short|]. intros id Hid.
  eapply good_bind with (Q := fun _ => True).
  { destruct (id =? K.TypeCustom); [|apply good_ret; exact I].
    eapply good_bind; [apply good_read_string|]. intros c _. apply good_ret. exact I. }
  intros ct _. cbv zeta.
  destruct (Z.eqb_spec (snd ct) K.TypeTuple) as [Et|Et].
  { eapply good_bind; [apply good_read_short|]. intros n _.
    eapply good_bind with (Q := Forall tinfo_ok).
    { apply good_read_count. eapply good_bind; [apply IH|]. intros t Ht. eapply good_bind; [apply good_alloc|]. intros _ _.
      apply good_ret. exact Ht. }
    intros elems He. apply good_ret. apply tinfo_ok_tuple_forall, He. }
  destruct (Z.eqb_spec (snd ct) K.TypeUDT) as [Eu|Eu].
  { eapply good_bind; [apply good_read_string|]. intros ks _. eapply good_bind; [apply good_read_string|]. intros nm _.
    eapply good_bind; [apply good_read_short|]. intros n _.
    eapply good_bind with (Q := Forall (fun f => tinfo_ok (snd f))).
    { apply good_read_count. eapply good_bind; [apply good_read_string|]. intros fnm _. eapply good_bind; [apply IH|]. intros t Ht.
      eapply good_bind; [apply good_alloc|]. intros _ _. apply good_ret. exact Ht. }
    intros fields Hf. apply good_ret. apply tinfo_ok_udt_forall, Hf. }
  destruct (Z.eqb_spec (snd ct) K.TypeMap) as [Em|Em].
  { cbn [orb]. eapply good_bind with (Q := fun o => match o with Some k => tinfo_ok k | None => False end).
    { eapply good_bind; [apply IH|]. intros k Hk. apply good_ret. exact Hk. }
    intros key Hkey. eapply good_bind; [apply IH|]. intros elem Hel. apply good_ret.
    destruct key as [k|]; [|contradiction]. cbn [tinfo_ok]. split; [left; exact Em|]. split; [split; assumption | exact Hel]. }
  cbn [orb].
  destruct (Z.eqb_spec (snd ct) K.TypeList) as [El|El].
  { cbn [orb]. eapply good_bind with (Q := fun o => o = None); [apply good_ret; reflexivity|].
    intros key ->. eapply good_bind; [apply IH|]. intros elem Hel. apply good_ret.
    cbn [tinfo_ok]. split; [right; left; exact El|]. split; [exact Em | exact Hel]. }
  destruct (Z.eqb_spec (snd ct) K.TypeSet) as [Es|Es].
  { cbn [orb]. eapply good_bind with (Q := fun o => o = None); [apply good_ret; reflexivity|].
    intros key ->. eapply good_bind; [apply IH|]. intros elem Hel. apply good_ret.
    cbn [tinfo_ok]. split; [right; right; exact Es|]. split; [exact Em | exact Hel]. }
  cbn [orb]. apply good_ret. cbn [tinfo_ok]. repeat split; assumption.
Qed.

Lemma good_read_type_info s : good s tinfo_ok read_type_info.
Proof. intros b Hb. unfold read_type_info, out. exact (good_read_type s (S (length b)) b Hb). Qed.

Lemma good_read_col s g ks tb : good s (fun c => tinfo_ok (c_type c)) (read_col g ks tb).
Proof.
  unfold read_col. eapply good_bind with (Q := fun _ => True).
  { destruct g; [apply good_ret; exact I|]. eapply good_bind; [apply good_read_string|]. intros k _.
    eapply good_bind; [apply good_read_string|]. intros t _. apply good_ret. exact I. }
  intros kt _. eapply good_bind; [apply good_read_string|]. intros nm _.
  eapply good_bind; [apply good_read_type_info|]. intros ty Hty. apply good_ret. exact Hty.
Qed.

Definition cols_ok (m : rmeta) : Prop := Forall (fun c => tinfo_ok (c_type c)) (m_cols m).

Lemma good_read_meta_tail s flags cc : good s (fun r => cols_ok (fst r)) (read_meta_tail flags cc).
Proof.
  unfold read_meta_tail. eapply good_bind with (Q := fun _ => True).
  { destruct (has_flag flags K.flagHasMorePages); [|apply good_ret; exact I].
    eapply good_bind; [apply good_read_bytes|]. intros b _. eapply good_bind; [apply good_alloc|]. intros _ _. apply good_ret. exact I. }
  intros paging _. destruct (has_flag flags K.flagNoMetaData); [apply good_ret; constructor|]. cbv zeta.
  eapply good_bind with (Q := fun _ => True).
  { destruct (has_flag flags K.flagGlobalTableSpec); [|apply good_ret; exact I].
    eapply good_bind; [apply good_read_string|]. intros k _. eapply good_bind; [apply good_read_string|]. intros t _. apply good_ret. exact I. }
  intros kt _. eapply good_bind with (Q := fun _ => True).
  { destruct (cc <? 1000); [apply good_alloc | apply good_ret; exact I]. }
  intros _ _. eapply good_bind; [apply good_read_count, good_read_col|]. intros cols Hcols. apply good_ret. exact Hcols.
Qed.

Lemma good_parse_result_metadata s : good s cols_ok parse_result_metadata.
Proof.
  unfold parse_result_metadata. eapply good_bind; [apply good_read_int|]. intros flags _.
  eapply good_bind; [apply good_read_int|]. intros cc _. destruct (cc <? 0); [apply good_fail|].
  eapply good_bind; [apply good_read_meta_tail|]. intros r Hr. apply good_ret. exact Hr.
Qed.

Lemma good_parse_prepared_metadata s proto : good s (fun _ => True) (parse_prepared_metadata proto).
Proof.
  unfold parse_prepared_metadata. eapply good_bind; [apply good_read_int|]. intros flags _.
  eapply good_bind; [apply good_read_int|]. intros cc _. destruct (cc <? 0); [apply good_fail|].
  eapply good_bind with (Q := fun _ => True).
  { destruct (proto >=? K.protoVersion4); [|apply good_ret; exact I].
    eapply good_bind; [apply good_read_int|]. intros pkc _. destruct (pkc <? 0); [apply good_fail|].
    eapply good_bind; [apply good_need|]. intros _ _.
    eapply good_bind; [apply good_alloc|]. intros _ _. eapply good_any. apply good_read_count, good_read_short. }
  intros pk _. eapply good_bind; [apply good_read_meta_tail|]. intros r _. apply good_ret. exact I.
Qed.

(* ---- frames ------------------------------------------------------------------------------------------------ *)
(* the columns of a rows frame have well-shaped types *)
Definition frame_ok (f : frame) : Prop := match f with FRows m _ => cols_ok m | _ => True end.


Lemma good_read_error_map s : good s (fun _ => True) read_error_map.
Proof.
  unfold read_error_map. eapply good_bind; [apply good_read_int|]. intros n _.
  eapply good_any. apply good_read_count with (Q := fun _ => True).
  eapply good_bind; [apply good_read_inet_addr|]. intros ip _. eapply good_bind; [apply good_read_short|]. intros code _.
  apply good_ret. exact I.
Qed.

Ltac gprim :=
  first [ apply good_read_short | apply good_read_int | apply good_read_string | apply good_read_byte
        | apply good_read_short_bytes | apply good_read_string_list | apply good_read_bytes | apply good_alloc ].
Ltac gseq := repeat (first [ (apply good_ret; exact I) | (eapply good_bind; [gprim | intros ? ?]) ]).

Lemma good_parse_error_frame s proto : good s frame_ok (parse_error_frame proto).
Proof.
  unfold parse_error_frame. eapply good_bind; [apply good_read_int|]. intros code _.
  eapply good_bind; [apply good_read_string|]. intros msg _. cbv zeta.
  repeat match goal with |- good _ _ (if ?c then _ else _) => destruct c end; try apply good_fail; try (gseq; fail).
  - (* read failure *)
    gseq. eapply good_bind with (Q := fun _ => True).
    { destruct (proto >? K.protoVersion4).
      - eapply good_bind; [apply good_read_error_map|]. intros m _. apply good_ret. exact I.
      - gseq. }
    intros me _. gseq.
  - (* write failure *)
    gseq. eapply good_bind with (Q := fun _ => True).
    { destruct (proto >? K.protoVersion4).
      - eapply good_bind; [apply good_read_error_map|]. intros m _. apply good_ret. exact I.
      - gseq. }
    intros me _. gseq.
Qed.

Lemma good_parse_schema_change s proto : good s frame_ok (parse_schema_change proto).
Proof.
  unfold parse_schema_change. destruct (proto <=? K.protoVersion2).
  - gseq. match goal with |- good _ _ (match ?t with _ => _ end) => destruct t end; apply good_ret; exact I.
  - gseq. repeat match goal with |- good _ _ (if ?c then _ else _) => destruct c end; try apply good_fail; gseq.
Qed.

Lemma good_parse_result_frame s proto : good s frame_ok (parse_result_frame proto).
Proof.
  unfold parse_result_frame. eapply good_bind; [apply good_read_int|]. intros kind _.
  repeat match goal with |- good _ _ (if ?c then _ else _) => destruct c end; try apply good_fail; try (gseq; fail).
  - unfold parse_result_rows. eapply good_bind; [apply good_parse_result_metadata|]. intros m Hm.
    eapply good_bind; [apply good_read_int|]. intros n _. destruct (n <? 0); [apply good_fail | apply good_ret; exact Hm].
  - unfold parse_result_prepared. eapply good_bind; [apply good_read_short_bytes|]. intros id _.
    eapply good_bind; [apply good_parse_prepared_metadata|]. intros req _.
    destruct (proto <? K.protoVersion2); [apply good_ret; exact I|].
    eapply good_bind; [apply good_parse_result_metadata|]. intros resp _. apply good_ret. exact I.
  - apply good_parse_schema_change.
Qed.

Lemma good_parse_event_frame s proto : good s frame_ok (parse_event_frame proto).
Proof.
  unfold parse_event_frame. eapply good_bind; [apply good_read_string|]. intros et _.
  repeat match goal with |- good _ _ (if ?c then _ else _) => destruct c end; try apply good_fail.
  - eapply good_bind; [apply good_read_string|]. intros ch _. eapply good_bind; [apply good_read_inet|]. intros hp _. apply good_ret. exact I.
  - eapply good_bind; [apply good_read_string|]. intros ch _. eapply good_bind; [apply good_read_inet|]. intros hp _. apply good_ret. exact I.
  - apply good_parse_schema_change.
Qed.

(* parseFrame has no crash site left *)
Lemma good_parse_frame proto hver hflags hop :
  good [] (fun p => frame_ok (p_frame p)) (parse_frame proto hver hflags hop).
Proof.
  unfold parse_frame. destruct (Z.land hver K.protoDirectionMask =? 0); [apply good_fail|].
  eapply good_bind with (Q := fun _ => True).
  { destruct (has_flag hflags K.flagTracing); [|apply good_ret; exact I].
    eapply good_bind; [apply good_read_uuid|]. intros u _. apply good_ret. exact I. }
  intros tr _. eapply good_bind with (Q := fun _ => True).
  { destruct (has_flag hflags K.flagWarning); [|apply good_ret; exact I].
    eapply good_bind; [apply good_read_string_list|]. intros l _. apply good_ret. exact I. }
  intros wa _. eapply good_bind with (Q := fun _ => True).
  { destruct (has_flag hflags K.flagCustomPayload); [|apply good_ret; exact I].
    eapply good_bind; [apply good_read_bytes_map|]. intros m _. apply good_ret. exact I. }
  intros pl _. eapply good_bind with (Q := frame_ok); [|intros fr Hfr; apply good_ret; exact Hfr].
  destruct (hop =? K.opError); [apply good_parse_error_frame|].
  destruct (hop =? K.opReady); [apply good_ret; exact I|].
  destruct (hop =? K.opResult); [apply good_parse_result_frame|].
  destruct (hop =? K.opSupported).
  { eapply good_bind; [apply good_read_string_multimap|]. intros m _. apply good_ret. exact I. }
  destruct (hop =? K.opAuthenticate); [gseq|].
  destruct (hop =? K.opAuthChallenge); [gseq|].
  destruct (hop =? K.opAuthSuccess); [gseq|].
  destruct (hop =? K.opEvent); [apply good_parse_event_frame | apply good_fail].
Qed.
