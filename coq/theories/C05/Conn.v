(* C05/Conn.v -- the connection-level part of C05: what the driver's own goroutines do with a frame of a
   KIND they do not expect.  These goroutines (the one setupConn starts for options -> startup ->
   authenticateHandshake, Conn.heartBeat, controlConn.heartBeat) have no recover: a panic there ends the
   process, whatever the application does.

   Modelled: conn.go startupCoordinator.options / startup / authenticateHandshake, Conn.heartBeat;
   control.go controlConn.heartBeat -- as state machines whose input alphabet is the kind of the frame
   parseFrame produced for the reply (or its failure), with an explicit Crash outcome at the two
   operations that can panic: the method call on the (possibly nil) challenger interface value, and the
   panic() statement that used to be the default branch of the two heartbeat switches.

   The functions take a flag [g]: g = true is the code in /repo (with the guards of fixes
   auth-challenge-nil-challenger and heartbeat-unknown-frame), g = false the code before them.  The
   theorems are about g = true; the g = false lemmas show that the Crash outcome was reachable
   (findings F-C05-7, F-C05-8), i.e. that the model can express the defect at all. *)
From Coq Require Import List ZArith Bool Lia.
Import ListNotations.

(* kind of a reply as the handshake / heartbeat code sees it after framer.parseFrame() *)
Inductive fkind :=
| KReady
| KAuthenticate (approved : bool)   (* approved: the class is one PasswordAuthenticator accepts *)
| KAuthChallenge
| KAuthSuccess
| KSupported
| KErrorF                           (* an ERROR frame: parseFrame returns it as a frame that is an error *)
| KOther                            (* any other well-formed response: RESULT, EVENT *)
| KBad.                             (* exec or parseFrame returned an error (undecodable body, unknown opcode) *)

(* the challenger an Authenticator hands back: what its callbacks will do *)
Record chal := { ch_next : bool;     (* Challenge returns a challenger again (false: nil) *)
                 ch_ok : bool;       (* Challenge returns no error *)
                 ch_succ : bool }.   (* Success returns no error *)

Inductive authcfg :=
| NoAuth                                                   (* ClusterConfig.Authenticator == nil *)
| PasswordAuth                                             (* gocql.PasswordAuthenticator: never a challenger *)
| CustomAuth (init_ok chal0 next chal_ok succ_ok : bool).  (* user code; chal0: first Challenge returns a challenger *)

(* s.conn.auth.Challenge([]byte(authFrame.class)): None = error, Some c = the challenger (None = nil) *)
Definition auth_init (a : authcfg) (approved : bool) : option (option chal) :=
  match a with
  | NoAuth => None                                         (* "authentication required" *)
  | PasswordAuth => if approved then Some None else None   (* "unexpected authenticator" *)
  | CustomAuth init_ok chal0 next chal_ok succ_ok =>
      if init_ok then Some (if chal0 then Some {| ch_next := next; ch_ok := chal_ok; ch_succ := succ_ok |} else None)
      else None
  end.

Inductive hstate :=
| SOptions                 (* OPTIONS written, waiting for its reply *)
| SStartup                 (* STARTUP written *)
| SAuth (c : option chal). (* AUTH_RESPONSE written; c = the current challenger *)

Inductive houtcome :=
| HEstablished   (* setupConn returns nil *)
| HFailed        (* setupConn returns an error: the connection attempt fails *)
| HWaiting       (* no further reply: the attempt ends with the connect timeout *)
| HCrash.        (* panic on the startup goroutine *)

Inductive hres := Next (s : hstate) | Done (o : houtcome).

Definition is_none {A} (o : option A) : bool := match o with None => true | Some _ => false end.

Definition hs_step (g : bool) (a : authcfg) (s : hstate) (k : fkind) : hres :=
  match s with
  | SOptions =>                                    (* options(): frame.( *supportedFrame ) or protocol error *)
      match k with KSupported => Next SStartup | _ => Done HFailed end
  | SStartup =>                                    (* startup(): switch frame.(type) *)
      match k with
      | KReady => Done HEstablished
      | KAuthenticate approved =>
          match auth_init a approved with
          | None => Done HFailed
          | Some c => Next (SAuth c)
          end
      | _ => Done HFailed                          (* error -> returned; default -> protocol error; write failed *)
      end
  | SAuth c =>                                     (* the loop of authenticateHandshake *)
      match k with
      | KAuthSuccess =>
          match c with
          | Some ch => if ch_succ ch then Done HEstablished else Done HFailed    (* challenger.Success(data) *)
          | None => Done HEstablished
          end
      | KAuthChallenge =>
          if g && is_none c then Done HFailed       (* the guard: challenger == nil -> error *)
          else match c with
               | None => Done HCrash                (* challenger.Challenge on a nil interface value *)
               | Some ch =>
                   if ch_ok ch then Next (SAuth (if ch_next ch then Some ch else None))
                   else Done HFailed
               end
      | _ => Done HFailed
      end
  end.

(* the replies in the order they arrive; the nat counts the requests the driver has written *)
Fixpoint hs_run (g : bool) (a : authcfg) (s : hstate) (ks : list fkind) (nreq : nat) : houtcome * nat :=
  match ks with
  | [] => (HWaiting, nreq)
  | k :: ks' =>
      match hs_step g a s k with
      | Done o => (o, nreq)
      | Next s' => hs_run g a s' ks' (S nreq)
      end
  end.

Definition handshake (g : bool) (a : authcfg) (ks : list fkind) : houtcome * nat := hs_run g a SOptions ks 1.

(* ---- Conn.heartBeat ---------------------------------------------------------------------------------- *)

Inductive hb_out :=
| HbRunning (failures : nat)   (* the loop goes on *)
| HbClosed                     (* closeWithError, the goroutine returns *)
| HbCrash.                     (* panic on the heartbeat goroutine *)

(* one iteration: the check at the top of the loop, then the reply to OPTIONS *)
Definition hb_step (g : bool) (failures : nat) (k : fkind) : hb_out :=
  if Nat.ltb 5 failures then HbClosed                 (* "gocql: heartbeat failed" *)
  else match k with
       | KBad => HbRunning (S failures)               (* exec error / invalid frame: failures++ *)
       | KSupported => HbRunning 0
       | KErrorF => HbRunning failures                (* case error: nothing *)
       | _ => if g then HbClosed else HbCrash         (* default: was panic(...) *)
       end.

Fixpoint hb_run (g : bool) (failures : nat) (ks : list fkind) : hb_out :=
  match ks with
  | [] => HbRunning failures
  | k :: ks' =>
      match hb_step g failures k with
      | HbRunning f' => hb_run g f' ks'
      | o => o
      end
  end.

(* ---- controlConn.heartBeat --------------------------------------------------------------------------- *)

Inductive ctl_out := CtlOk | CtlReconnect | CtlCrash.

Definition ctl_step (g : bool) (k : fkind) : ctl_out :=
  match k with
  | KSupported => CtlOk
  | KErrorF | KBad => CtlReconnect
  | _ => if g then CtlReconnect else CtlCrash         (* default: was panic(...) *)
  end.

(* the loop never ends by itself: after every reply it continues (possibly on a new connection) *)
Fixpoint ctl_run (g : bool) (ks : list fkind) : ctl_out :=
  match ks with
  | [] => CtlOk
  | k :: ks' => match ctl_step g k with CtlCrash => CtlCrash | _ => ctl_run g ks' end
  end.

(* ---- proofs ------------------------------------------------------------------------------------------ *)

Lemma hs_step_no_crash a s k : hs_step true a s k <> Done HCrash.
Proof.
  destruct s as [| |c]; destruct k; cbn; try discriminate.
  - destruct (auth_init a approved); discriminate.
  - destruct c as [ch|]; cbn; [destruct (ch_ok ch)|]; discriminate.
  - destruct c as [ch|]; [destruct (ch_succ ch)|]; discriminate.
Qed.

Lemma hs_run_no_crash a : forall ks s n, fst (hs_run true a s ks n) <> HCrash.
Proof.
  induction ks as [|k ks IH]; intros s n; cbn; [discriminate|].
  destruct (hs_step true a s k) as [s'|o] eqn:E; [apply IH|].
  cbn. intros ->. exact (hs_step_no_crash a s k E).
Qed.

(* the number of requests written is at most one more than the replies consumed *)
Lemma hs_run_requests g a : forall ks s n, (snd (hs_run g a s ks n) <= n + length ks)%nat.
Proof.
  induction ks as [|k ks IH]; intros s n; cbn; [lia|].
  destruct (hs_step g a s k); cbn; [specialize (IH s0 (S n)); lia | lia].
Qed.

Lemma hb_step_no_crash f k : hb_step true f k <> HbCrash.
Proof. unfold hb_step. destruct (Nat.ltb 5 f); [discriminate|]. destruct k; discriminate. Qed.

Lemma hb_run_no_crash : forall ks f, hb_run true f ks <> HbCrash.
Proof.
  induction ks as [|k ks IH]; intros f; cbn; [discriminate|].
  destruct (hb_step true f k) eqn:E; [apply IH | discriminate | exfalso; exact (hb_step_no_crash f k E)].
Qed.

Lemma ctl_run_no_crash : forall ks, ctl_run true ks <> CtlCrash.
Proof.
  induction ks as [|k ks IH]; cbn; [discriminate|].
  destruct (ctl_step true k) eqn:E; try exact IH. destruct k; discriminate.
Qed.

(* the failure counter of Conn.heartBeat: six failed rounds in a row close the connection *)
Lemma hb_six_failures_close g : hb_run g 0 (repeat KBad 7) = HbClosed.
Proof. reflexivity. Qed.

(* before the fixes the Crash outcomes were reachable: the findings *)
Lemma handshake_unguarded_crashes :
  fst (handshake false PasswordAuth [KSupported; KAuthenticate true; KAuthChallenge]) = HCrash.
Proof. reflexivity. Qed.

Lemma heartbeat_unguarded_crashes : hb_run false 0 [KReady] = HbCrash /\ ctl_run false [KOther] = CtlCrash.
Proof. split; reflexivity. Qed.
