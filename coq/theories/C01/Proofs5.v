(* C01/Proofs5.v -- Inv1, part 2: registration, what callers were handed. *)
From GocqlV Require Import Lib.Base C01.Model C01.Spec C01.Proofs1 C01.Proofs2 C01.Proofs2b C01.Proofs2c C01.Proofs4.
From Coq Require Import Permutation.

Section step.
Variables (s s' : state) (l : label).
Hypothesis (I0 : Inv0 s) (I1 : Inv1 s) (Hl : lok s l) (Hs : step s l = Some s').

Ltac start :=
  let H := fresh "H" in pose proof Hs as H; clear Hs; step_cases H; simp_state.
Ltac cw c := let T := fresh "W" in pose proof (j_cwf s I1 c) as T; unfold cwf in T.
Ltac hold_prep := unfold holds in *; simp_state; upd_cases; simp_state.

Ltac lists2 :=
  repeat match goal with
  | H : In _ (map snd (rem_key _ _)) |- _ =>
      apply in_map_iff in H; destruct H as [[? ?] [? H]]; cbn [fst snd] in *; subst; apply In_rem_key in H; destruct H; cbn [fst snd] in *
  end; lists.
Ltac usecalls J := repeat match goal with H : In (?a, ?b) (calls s) |- _ => let T := fresh "U" in pose proof (J a b H) as T; revert H end; intros.
Ltac cws := repeat match goal with
  | _ : context [callers s ?c] |- _ => lazymatch goal with _ : mark c |- _ => fail | _ => idtac end; cw c; assert (mark c) by constructor
  | |- context [callers s ?c] => lazymatch goal with _ : mark c |- _ => fail | _ => idtac end; cw c; assert (mark c) by constructor
  end.
Ltac fin1 := try solve [ cws; rew_eqs; cbn in *; intuition (try congruence; try lia) ].

Lemma calls_step : closed s' = false -> forall id c, In (id, c) (calls s') -> sid (callers s' c) = id /\ holds (callers s' c).
Proof.
  start; intros Hc idx cx Hin; try discriminate; lists; in_vals; hold_prep.
  all: assert (Hc' : closed s = false) by (assumption || reflexivity || (rew_eqs; congruence)).
  all: pose proof (j_calls s I1 Hc') as J; pose proof (j_unreg s I1 Hc') as JU; pose proof (k_rcv s I0) as KR; unfold holds in J.
  all: try (apply J; assumption).
  all: usecalls J.
  all: try (match goal with H : In ?c (map snd (calls s)) |- _ => pose proof (JU c) end).
  all: try (match goal with H : rcv s = RRelease ?c |- _ => pose proof (KR c); rewrite H in *; cbn in * end).
  all: clear J KR JU; fin1.
Qed.

Lemma unreg_step : closed s' = false -> forall c, unreg_ph (ph (callers s' c)) = true -> ~ In c (map snd (calls s')).
Proof.
  start; intros Hc cx Hu Hin; try discriminate; lists2; in_vals; hold_prep.
  all: assert (Hc' : closed s = false) by (assumption || reflexivity || (rew_eqs; congruence)).
  all: pose proof (j_calls s I1 Hc') as J; pose proof (j_unreg s I1 Hc') as JU; pose proof (k_rcv s I0) as KR; unfold holds in J.
  all: try (eapply JU; eassumption).
  all: usecalls J.
  all: try (match goal with H : In ?c (map snd (calls s)) |- _ => pose proof (JU c) end).
  all: try (match goal with H : rcv s = RDeliver ?c _ |- _ => pose proof (KR c); rewrite H in *; cbn in * end).
  all: clear J KR JU; fin1.
  all: assert (closed s = true) by (apply (k_closer s I0); congruence); congruence.
Qed.

Lemma handed_step : forall c t, handed (callers s' c) t -> t = c.
Proof.
  pose proof (j_rcv s I1) as JR.
  start; intros cx tx Hh; upd_cases; simp_state; try (eapply (j_handed s I1); eassumption).
  all: unfold handed in *; simp_state; try tauto.
  all: try (match goal with H : rcv s = _ |- _ => rewrite H in JR end).
  all: try (pose proof (j_handed s I1 c tx) as JH; unfold handed in JH; rew_eqs; cbn in * ).
  all: try (destruct r; cbn in *; intuition congruence).
  cw c; rew_eqs; cbn in *. destruct o; intuition congruence.
Qed.

End step.
