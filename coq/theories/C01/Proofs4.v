(* C01/Proofs4.v -- the routing invariant Inv1, which holds as long as the environment keeps its contract
   (lok: honest server, failed body reads are final).  Part 1: definitions, per-caller consistency,
   ownership of stream ids. *)
From GocqlV Require Import Lib.Base C01.Model C01.Spec C01.Proofs1 C01.Proofs2 C01.Proofs2b C01.Proofs2c.
From Coq Require Import Permutation.

(* tokens of the responses that are still due or under way *)
Definition toks (s : state) : list Z := map snd (srv s) ++ map snd (s2c s) ++ rtok (rcv s).

(* phases a caller can be in while its response is still due *)
Definition due_ph (p : phase) : bool :=
  match p with
  | PWait | PGot RCloseErr _ | PDone OTimeout | PDone OCtx | PDone OConnClosed | PDone (OResp RCloseErr) => true
  | _ => false
  end.

Definition due_ok (ca : caller) : Prop :=
  written ca = true /\ released ca = false /\ 0 < sid ca /\ due_ph (ph ca) = true.

(* consistency of one caller's record with its phase *)
Definition cwf (ca : caller) : Prop :=
  match ph ca with
  | PNone | PStart | PDone ORefused | PDone ONoStreams =>
      sid ca = 0 /\ tmo ca = false /\ written ca = false /\ released ca = false
  | PAlloc | PReg | PWriting | PWErr _ | PDone OAddFail =>
      0 < sid ca /\ tmo ca = false /\ written ca = false /\ released ca = false
  | PWait => 0 < sid ca /\ tmo ca = false /\ written ca = true /\ released ca = false
  | PGot r opn => 0 < sid ca /\ tmo ca = false /\ written ca = true /\ released ca = false /\ (r = RCloseErr -> opn = false)
  | PAbortA o | PAbortB o =>
      0 < sid ca /\ tmo ca = true /\ written ca = false /\ released ca = false /\ (o = OBuildErr \/ o = OWriteCtx)
  | PWFail | PClosing | PDone OWriteErr =>
      0 < sid ca /\ tmo ca = true /\ written ca = false /\ released ca = false
  | PDone OBuildErr | PDone OWriteCtx => 0 < sid ca /\ tmo ca = true /\ written ca = false /\ released ca = true
  | PDone _ => 0 < sid ca /\ tmo ca = true /\ written ca = true
  end.

Definition unreg_ph (p : phase) : bool := match p with PAbortB _ | PGot _ _ => true | _ => false end.

Record Inv1 (s : state) : Prop := mkInv1 {
  j_cwf : forall c, cwf (callers s c);
  j_held_nodup : NoDup (held s);
  j_holds_in : forall c, holds (callers s c) -> In (sid (callers s c)) (held s);
  j_owner : forall c1 c2, holds (callers s c1) -> holds (callers s c2) -> sid (callers s c1) = sid (callers s c2) -> c1 = c2;
  j_held_owner : forall id, In id (held s) -> exists c, holds (callers s c) /\ sid (callers s c) = id;
  j_calls : closed s = false -> forall id c, In (id, c) (calls s) -> sid (callers s c) = id /\ holds (callers s c);
  j_unreg : closed s = false -> forall c, unreg_ph (ph (callers s c)) = true -> ~ In c (map snd (calls s));
  j_toks_nodup : NoDup (toks s);
  j_wire : forall id t, In (id, t) (srv s ++ s2c s) -> sid (callers s t) = id /\ due_ok (callers s t);
  j_rcv : match rcv s with
          | RHave c t | RDeliver c (RTok t) | RDeliver c (RBodyErr t) => t = c /\ due_ok (callers s c)
          | RDeliver _ RCloseErr => False
          | RRelease c => due_ok (callers s c) /\ tmo (callers s c) = true /\ ~ In c (toks s)
          | _ => True
          end;
  j_handed : forall c t, handed (callers s c) t -> t = c
}.

Lemma inv1_init n : Inv1 (init n).
Proof.
  constructor; cbn; try (constructor; fail); try tauto; try congruence; try discriminate.
  - intros c [H _]. cbn in H. lia.
  - intros c1 c2 [H _]. cbn in H. lia.
Qed.

(* a token on the wire or in the receiver's hand belongs to a caller whose response is due *)
Lemma tok_due s t : Inv1 s -> In t (toks s) -> due_ok (callers s t).
Proof.
  intros I1 Hin. unfold toks in Hin. rewrite app_assoc, in_app_iff in Hin. destruct Hin as [Hin|Hin].
  - rewrite <- map_app in Hin. apply in_map_iff in Hin. destruct Hin as [[id t'] [E Hin]]. cbn in E; subst.
    apply (j_wire s I1 id t Hin).
  - pose proof (j_rcv s I1) as J. destruct (rcv s) as [|c t'|c r|c| | |]; cbn in Hin; try tauto.
    + destruct Hin as [->|[]]. destruct J as [-> J]. exact J.
    + destruct r; cbn in Hin; try tauto; destruct Hin as [->|[]]; destruct J as [-> J]; exact J.
Qed.

Section step.
Variables (s s' : state) (l : label).
Hypothesis (I0 : Inv0 s) (I1 : Inv1 s) (Hl : lok s l) (Hs : step s l = Some s').

Ltac start :=
  let H := fresh "H" in pose proof Hs as H; clear Hs; step_cases H; simp_state.

Ltac cw c := let T := fresh "W" in pose proof (j_cwf s I1 c) as T; unfold cwf in T.

Lemma cwf_step : forall c, cwf (callers s' c).
Proof.
  pose proof (j_rcv s I1) as JR.
  start; intros cx; upd_cases; simp_state; try apply (j_cwf s I1).
  all: try (match goal with Hr : rcv s = _ |- _ => rewrite Hr in JR end).
  all: try (match goal with H : closer s = Some (WCaller ?c) |- _ => apply (k_closing s I0) in H end).
  all: try (match goal with H : match ph ?x with _ => _ end = true |- _ => destruct (ph x) eqn:?; try discriminate H end).
  all: try (match goal with |- cwf ?x => cw c; unfold cwf, due_ok in *; simp_state; rew_eqs; cbn in *; try solve [intuition (try congruence; try lia)] end).
  all: try (destruct r; cbn in *; solve [intuition (try congruence; try lia)]).
  all: try (destruct o; cbn in *; solve [intuition (try congruence; try lia)]).
  all: try (destruct (ph (callers s c)) as [| | | | | | |[]| | | | |[]]; cbn in *; solve [intuition (try congruence; try lia)]).
Qed.

(* the caller whose stream is released by this step held it (release exactly once) *)
Lemma release_holds c : releases l = Some c -> holds (callers s c).
Proof.
  pose proof (j_rcv s I1) as JR. intros Hr.
  start; cbn in Hr; try discriminate; inversion Hr; subst; cw c; rew_eqs; unfold holds, due_ok in *; cbn in *; intuition.
Qed.

Ltac hold_prep :=
  unfold holds in *; simp_state; upd_cases; simp_state.

Lemma held_nodup_step : NoDup (held s').
Proof.
  pose proof (j_held_nodup s I1) as J.
  start; auto; try (apply NoDup_rem; assumption). constructor; assumption.
Qed.

Ltac rel_holds HR :=
  match goal with c : Z |- _ =>
    let T := fresh "HC" in assert (T : holds (callers s c)) by (apply HR; reflexivity); clear HR; unfold holds in T
  end.

Lemma holds_in_step : forall c, holds (callers s' c) -> In (sid (callers s' c)) (held s').
Proof.
  pose proof (j_holds_in s I1) as J. pose proof (j_owner s I1) as JO. pose proof release_holds as HR.
  start; intros cx Hh; hold_prep; try (apply J; assumption); try (left; reflexivity); try (right; apply J; assumption).
  all: try (cbn in Hh; destruct Hh; discriminate).
  all: try (apply In_rem; split; [apply J; assumption|]).
  all: try (assert (HC : holds (callers s c)) by (apply HR; reflexivity); unfold holds in HC; intros E; apply n; apply JO; auto).
Qed.

Lemma owner_step : forall c1 c2, holds (callers s' c1) -> holds (callers s' c2) -> sid (callers s' c1) = sid (callers s' c2) -> c1 = c2.
Proof.
  pose proof (j_holds_in s I1) as J. pose proof (j_owner s I1) as JO.
  start; intros c1 c2 Ha Hb E; hold_prep; try (apply JO; assumption); try reflexivity.
  all: try (cbn in *; destruct Ha; destruct Hb; discriminate).
  - exfalso. apply H0. rewrite E. apply J. assumption.
  - exfalso. apply H0. rewrite <- E. apply J. assumption.
Qed.

Lemma held_owner_step : forall id, In id (held s') -> exists c, holds (callers s' c) /\ sid (callers s' c) = id.
Proof.
  pose proof (j_held_owner s I1) as J. pose proof (j_cwf s I1) as JW. pose proof release_holds as HR.
  start; intros idx Hin; lists.
  all: try (exists c; hold_prep; cbn; split; [split; [assumption|reflexivity]|reflexivity]).
  all: try (destruct (J idx Hin) as [c' [Hh Hsid]]; exists c'; hold_prep; simp_state; try (split; assumption);
            try (cw c; rew_eqs; cbn in *; intuition (try congruence; try lia))).
  - exists c. rewrite updc_same. unfold holds; cbn. auto.
  - destruct (J idx H) as [c' [Hh Hsid]]. exists c'. assert (c' <> c) by congruence. rewrite updc_other by assumption. auto.
  - destruct (J idx H) as [c' [Hh Hsid]]. exists c'. assert (c' <> c) by (simp_state; congruence). rewrite updc_other by assumption. auto.
  - destruct (J idx H) as [c' [Hh Hsid]]. exists c'. assert (c' <> c) by congruence. rewrite updc_other by assumption. auto.
Qed.

End step.
