(* C01/Proofs6.v -- Inv1, part 3: the tokens on the wire and in the receiver's hand. *)
From GocqlV Require Import Lib.Base C01.Model C01.Spec C01.Proofs1 C01.Proofs2 C01.Proofs2b C01.Proofs2c C01.Proofs4 C01.Proofs5.
From Coq Require Import Permutation.

Lemma nodup_drop_mid (a b r : list Z) t : NoDup (a ++ (t :: b) ++ r) -> NoDup (a ++ b ++ r).
Proof. cbn. apply NoDup_remove_1. Qed.

Lemma nodup_move_mid (a b : list Z) t : NoDup (a ++ (t :: b) ++ []) -> NoDup (a ++ b ++ [t]).
Proof.
  intros H. eapply Permutation_NoDup; [|exact H]. apply Permutation_app_head. rewrite app_nil_r.
  apply Permutation_cons_append.
Qed.

Lemma nodup_drop_last (a b : list Z) t : NoDup (a ++ b ++ [t]) -> NoDup (a ++ b ++ []).
Proof.
  intros H. rewrite app_nil_r. rewrite app_assoc in H. apply NoDup_remove_1 in H. rewrite app_nil_r in H. exact H.
Qed.

Lemma notin_of_last (a b : list Z) t : NoDup (a ++ b ++ [t]) -> ~ In t (a ++ b ++ []).
Proof.
  intros H. rewrite app_nil_r. rewrite app_assoc in H. apply NoDup_remove_2 in H. rewrite app_nil_r in H. exact H.
Qed.

Lemma perm_answer (srv0 s2c0 : list (Z * Z)) id t r :
  In (id, t) srv0 ->
  Permutation (map snd srv0 ++ map snd s2c0 ++ r) (map snd (rem1 id t srv0) ++ map snd (s2c0 ++ [(id, t)]) ++ r).
Proof.
  intros Hin. pose proof (rem1_perm id t srv0 Hin) as P. apply (Permutation_map snd) in P. cbn in P.
  rewrite map_app. cbn. rewrite P. cbn.
  rewrite <- !app_assoc. cbn.
  rewrite (app_assoc (map snd (rem1 id t srv0)) (map snd s2c0) (t :: r)).
  rewrite (app_assoc (map snd (rem1 id t srv0)) (map snd s2c0) r).
  apply Permutation_cons_app. reflexivity.
Qed.

Section step.
Variables (s s' : state) (l : label).
Hypothesis (I0 : Inv0 s) (I1 : Inv1 s) (Hl : lok s l) (Hs : step s l = Some s').

Ltac start :=
  let H := fresh "H" in pose proof Hs as H; clear Hs; step_cases H; simp_state.
Ltac cw c := let T := fresh "W" in pose proof (j_cwf s I1 c) as T; unfold cwf in T.
Ltac cws := repeat match goal with
  | _ : context [callers s ?c] |- _ => lazymatch goal with _ : mark c |- _ => fail | _ => idtac end; cw c; assert (mark c) by constructor
  | |- context [callers s ?c] => lazymatch goal with _ : mark c |- _ => fail | _ => idtac end; cw c; assert (mark c) by constructor
  end.

Lemma toks_nodup_step : NoDup (toks s').
Proof.
  pose proof (j_toks_nodup s I1) as J. unfold toks in *.
  start; simp_state; ph_match; try assumption.
  all: rew_eqs; cbn [rtok map] in *; try assumption.
  all: try (apply nodup_drop_mid in J; exact J).
  all: try (apply nodup_drop_last in J; exact J).
  all: try (apply nodup_move_mid in J; exact J).
  all: try (match goal with r : resp |- _ => destruct r; cbn [rtok] in * end).
  all: try (apply nodup_drop_mid in J; exact J).
  all: try (apply nodup_drop_last in J; exact J).
  all: try assumption.
  all: try (match goal with H : closer s = Some WRecv |- _ => apply (k_rclosing s I0) in H; rewrite H in *; cbn in *; assumption end).
  - (* WriteEnd WOk: the new token is not on the wire yet *)
    rewrite map_app. cbn. rewrite <- app_assoc. cbn.
    apply NoDup_Add with (a := c) (l := map snd (srv s) ++ map snd (s2c s) ++ rtok (rcv s)).
    + apply Add_app. + split; [exact J|].
      intros Hin. apply (tok_due s c I1) in Hin. destruct Hin as [Hw _]. cw c. rewrite Heqp in W. intuition congruence.
  - (* SrvAnswer *)
    eapply Permutation_NoDup; [apply perm_answer; exact Hl | exact J].
Qed.

Lemma in_wire_tok (s0 : state) id t : In (id, t) (srv s0 ++ s2c s0) -> In t (map snd (srv s0) ++ map snd (s2c s0)).
Proof. intros H. rewrite <- map_app. apply (in_map snd) in H. exact H. Qed.

Lemma wire_step : forall id t, In (id, t) (srv s' ++ s2c s') -> sid (callers s' t) = id /\ due_ok (callers s' t).
Proof.
  pose proof (j_rcv s I1) as JR. pose proof (j_toks_nodup s I1) as JN. unfold toks in JN.
  start; intros idx tx Hin; simp_state; ph_match.
  (* WriteEnd WOk: the new entry *)
  all: try (match goal with _ : lok s (WriteEnd _ WOk) |- _ =>
         rewrite <- app_assoc in Hin; apply in_app_iff in Hin; destruct Hin as [Hin|Hin];
         [assert (Hin' : In (idx, tx) (srv s ++ s2c s)) by (apply in_app_iff; left; assumption); clear Hin; rename Hin' into Hin|];
         [|cbn in Hin; destruct Hin as [Hnew|Hin];
           [|assert (Hin' : In (idx, tx) (srv s ++ s2c s)) by (apply in_app_iff; right; assumption); clear Hin; rename Hin' into Hin]] end).
  all: try (match goal with Hnew : (_, _) = (_, _) |- _ =>
         inversion Hnew; subst; rewrite updc_same; unfold due_ok; cbn; cw tx; rew_eqs; cbn in *; intuition end).
  all: assert (Hold : In (idx, tx) (srv s ++ s2c s))
    by first
      [ assumption
      | match goal with E : s2c s = _ :: _ |- _ =>
          rewrite E; apply in_app_iff in Hin; apply in_app_iff; destruct Hin; [left|right; right]; assumption end
      | (* SrvAnswer *)
        apply in_app_iff in Hin; destruct Hin as [Hin|Hin];
        [apply in_app_iff; left; eapply In_rem1; eassumption|];
        apply in_app_iff in Hin; destruct Hin as [Hin|Hin];
        [apply in_app_iff; right; assumption|];
        cbn in Hin; destruct Hin as [Hin|[]]; inversion Hin; subst; apply in_app_iff; left; exact Hl ].
  all: pose proof (j_wire s I1 idx tx Hold) as [Js Jd]; pose proof (in_wire_tok s idx tx Hold) as Htok.
  all: upd_cases; simp_state; try (split; assumption); try congruence.
  all: unfold due_ok in *; simp_state; cws; rew_eqs; cbn in *; try solve [intuition (try congruence; try lia)].
  - (* Deliver: the token in the receiver's hand is not also on the wire *)
    exfalso. destruct r; try tauto; destruct JR as [-> _]; apply (notin_of_last _ _ _ JN); rewrite app_nil_r; exact Htok.
  - (* Finish with release: a caller that holds a closer's error does not release *)
    exfalso. destruct r; cbn in *; try (destruct Jd as [_ [_ [_ Jd]]]; discriminate).
    destruct W as [_ [_ [_ [_ W]]]]. rewrite (W eq_refl) in Heqb. discriminate.
  - (* RecvRelease *)
    exfalso. destruct JR as [_ [_ JR]]. apply JR. unfold toks. rewrite Heqr. cbn. rewrite app_nil_r. exact Htok.
  - (* CloseCancel by a caller: it is in PClosing, not due *)
    exfalso. apply (k_closing s I0) in Heqo. rewrite Heqo in Jd. cbn in Jd. intuition discriminate.
Qed.

Lemma rcv1_step :
  match rcv s' with
  | RHave c t | RDeliver c (RTok t) | RDeliver c (RBodyErr t) => t = c /\ due_ok (callers s' c)
  | RDeliver _ RCloseErr => False
  | RRelease c => due_ok (callers s' c) /\ tmo (callers s' c) = true /\ ~ In c (toks s')
  | _ => True
  end.
Proof.
  pose proof (j_rcv s I1) as JR. pose proof (j_toks_nodup s I1) as JN. unfold toks in *.
  start; simp_state; ph_match; rew_eqs; cbn [rtok] in *; try exact I; try assumption.
  all: try (destruct (rcv s) eqn:Er; try exact I).
  all: repeat match goal with r0 : resp |- _ => destruct r0; try tauto end.
  all: try (match goal with H : RDeliver _ _ = RDeliver _ _ |- _ => inversion H; subst; clear H end; try tauto).
  all: cbn [rtok] in *.
  all: unfold due_ok in *; simp_state; upd_cases; simp_state; cws; rew_eqs; cbn in *; try solve [intuition (try congruence; try lia)].
  all: try (match goal with H : closer s = Some (WCaller ?c) |- _ => apply (k_closing s I0) in H; rewrite H in *; cbn in *; intuition discriminate end).
  (* Finish with release while the receiver has the caller: impossible *)
  all: try (match goal with Hb : (if ?opn then true else _) = true |- _ => fail 1 | Hb : ?opn = true, W : _ /\ _ /\ _ /\ _ /\ (RCloseErr = RCloseErr -> ?opn = false) |- _ =>
              destruct W as [_ [_ [_ [_ W]]]]; rewrite (W eq_refl) in Hb; discriminate end).
  (* WriteEnd WOk while the receiver is about to release c0: the new token is not c0 *)
  all: try (match goal with |- context [srv s ++ [(sid (callers s ?c), ?c)]] =>
         destruct JR as [JA [JB JC]]; split; [exact JA|split; [exact JB|]];
         rewrite map_app; cbn; rewrite <- app_assoc; cbn; intros Hx; apply JC;
         apply in_app_iff in Hx; destruct Hx as [Hx|[Hx|Hx]];
         [apply in_app_iff; left; exact Hx | congruence | apply in_app_iff; right; exact Hx] end).
  (* SrvAnswer while the receiver is about to release c0 *)
  all: try (match goal with |- context [rem1 ?id ?t (srv s)] =>
         destruct JR as [JA [JB JC]]; split; [exact JA|split; [exact JB|]];
         intros Hx; apply JC; eapply Permutation_in; [apply Permutation_sym; apply perm_answer; exact Hl | exact Hx] end).
  (* RecvSawTimeout: the token leaves the receiver's hand *)
  all: try (match goal with JN : NoDup (_ ++ _ ++ [?t]) |- _ /\ _ /\ ~ In ?c _ =>
         destruct JR as [-> JA]; split; [exact JA|split; [assumption|]]; apply notin_of_last; exact JN end).
  (* RecvHeader finds a call: the heart of the routing argument.  The frame (z, z0) is on the wire, so
     request z0 still holds stream z (j_wire); the registered call z1 holds stream z (j_calls); a stream
     has one holder (j_owner). *)
  assert (Hw : In (z, z0) (srv s ++ s2c s)) by (rewrite Heql0; apply in_app_iff; right; left; reflexivity).
  destruct (j_wire s I1 z z0 Hw) as [Hs0 Hd0]. unfold due_ok in Hd0.
  apply lookup_In in Heqo. destruct (j_calls s I1 Heqb2 z z1 Heqo) as [Hs1 Hh1].
  assert (z0 = z1).
  { apply (j_owner s I1); [unfold holds; intuition | exact Hh1 | congruence]. }
  subst z1. intuition.
Qed.

End step.

Lemma inv1_step s l s' : Inv0 s -> Inv1 s -> lok s l -> step s l = Some s' -> Inv1 s'.
Proof.
  intros I0 I1 Hl Hs. constructor.
  - eapply cwf_step; eauto.
  - eapply held_nodup_step; eauto.
  - eapply holds_in_step; eauto.
  - eapply owner_step; eauto.
  - eapply held_owner_step; eauto.
  - eapply calls_step; eauto.
  - eapply unreg_step; eauto.
  - eapply toks_nodup_step; eauto.
  - eapply wire_step; eauto.
  - eapply rcv1_step; eauto.
  - eapply handed_step; eauto.
Qed.

(* both invariants along any run whose environment keeps its contract *)
Lemma inv01_reachable n ls s : env_ok (init n) ls -> run (init n) ls = Some s -> Inv0 s /\ Inv1 s.
Proof.
  intros He Hr.
  apply (invariant_lift (fun s => Inv0 s /\ Inv1 s)) with (ls := ls) (s := init n); auto.
  - intros s0 l0 s1 [A B] Hl Hs. split; [eapply inv0_step; eauto | eapply inv1_step; eauto].
  - split; [apply inv0_init | apply inv1_init].
Qed.
