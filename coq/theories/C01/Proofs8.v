(* C01/Proofs8.v -- the theorems of C01 and C06 from the invariants. *)
From GocqlV Require Import Lib.Base C01.Model C01.Spec C01.Proofs1 C01.Proofs2 C01.Proofs2b C01.Proofs2c C01.Proofs3
  C01.Proofs4 C01.Proofs5 C01.Proofs6 C01.Proofs7.

Lemma reach_inv n ls s : 0 < n -> run (init n) ls = Some s -> honest (init n) ls ->
  Inv0 s /\ Inv1 s /\ Inv2 s.
Proof. intros Hn Hr Hh. eapply inv012_reachable; eauto using env_ok_of. Qed.

Lemma own_response n ls s c t : 0 < n -> run (init n) ls = Some s -> honest (init n) ls ->
  handed (callers s c) t -> t = c.
Proof. intros Hn Hr Hh. destruct (reach_inv n ls s Hn Hr Hh) as [_ [I1 _]]. apply (j_handed s I1). Qed.

Lemma due_holds s id t : Inv1 s -> answer_due s id t ->
  holds (callers s t) /\ sid (callers s t) = id /\ In id (held s) /\ forall c, step s (Alloc c id) = None.
Proof.
  intros I1 Hd.
  assert (H : sid (callers s t) = id /\ due_ok (callers s t)).
  { destruct Hd as [Hd|[Hd|[Hd Hs]]].
    - apply (j_wire s I1). apply in_app_iff. left; exact Hd.
    - apply (j_wire s I1). apply in_app_iff. right; exact Hd.
    - split; [exact Hs|]. apply (tok_due s t I1). unfold toks. rewrite !in_app_iff. right; right; exact Hd. }
  destruct H as [Hs [_ [Hr [Hp _]]]].
  assert (Hh : holds (callers s t)) by (split; assumption).
  assert (Hin : In id (held s)) by (rewrite <- Hs; apply (j_holds_in s I1); exact Hh).
  repeat split; auto.
  intros c. cbn [step]. destruct (ph (callers s c)); auto.
  apply mem_In in Hin. rewrite Hin. rewrite !andb_false_r. reflexivity.
Qed.

(* the instantaneous routing fact: the call registered under the id of the frame at the head of the wire
   is the request that frame answers *)
Lemma lookup_owner s id t rest c : Inv1 s -> closed s = false -> s2c s = (id, t) :: rest -> lookup id (calls s) = Some c -> c = t.
Proof.
  intros I1 Hc Hw Hl.
  assert (Hin : In (id, t) (srv s ++ s2c s)) by (rewrite Hw; apply in_app_iff; right; left; reflexivity).
  destruct (j_wire s I1 id t Hin) as [Hs [_ [Hr [Hp _]]]].
  apply lookup_In in Hl. destruct (j_calls s I1 Hc id c Hl) as [Hs1 Hh1].
  apply (j_owner s I1); auto. - split; assumption. - congruence.
Qed.

Lemma release_once s l s' c : Inv0 s -> Inv1 s -> lok s l -> step s l = Some s' -> releases l = Some c ->
  holds (callers s c) /\ In (sid (callers s c)) (held s) /\ NoDup (held s) /\ ~ In (sid (callers s c)) (held s').
Proof.
  intros I0 I1 Hl Hs Hr. assert (Hh : holds (callers s c)) by (eapply release_holds; eauto).
  split; [exact Hh|]. split; [apply (j_holds_in s I1); exact Hh|]. split; [apply (j_held_nodup s I1)|].
  destruct l; cbn in Hr; try discriminate.
  - inversion Hr; subst. cbn [step] in Hs. destruct (ph (callers s c)); try discriminate. inversion Hs; subst. cbn.
    rewrite In_rem. tauto.
  - destruct rel; [|discriminate]. inversion Hr; subst. cbn [step] in Hs. destruct (ph (callers s c)); try discriminate.
    destruct (if is_err r then opn else true); [|discriminate]. inversion Hs; subst. cbn. rewrite In_rem. tauto.
  - inversion Hr; subst. cbn [step] in Hs. destruct (rcv s); try discriminate. destruct (Z.eqb_spec c0 c); [|discriminate].
    inversion Hs; subst. cbn. rewrite In_rem. tauto.
Qed.

Lemma quiescent_full s : Inv1 s -> Inv2 s -> ~ dying s -> rcv s = RIdle -> calls s = [] ->
  (forall c, ph (callers s c) = PNone \/ exists o, ph (callers s c) = PDone o) -> held s = [].
Proof.
  intros I1 I2 Hd Hr Hc Hq. destruct (held s) as [|id h] eqn:Eh; [reflexivity|]. exfalso.
  destruct (j_held_owner s I1 id) as [c [Hh Hs]]; [rewrite Eh; left; reflexivity|].
  assert (Ht : track_ph (ph (callers s c)) = true).
  { destruct (Hq c) as [Hn|[o Ho]]; [|rewrite Ho; reflexivity].
    pose proof (j_cwf s I1 c) as W. unfold cwf in W. rewrite Hn in W. destruct Hh as [Hh _]. lia. }
  destruct (m_loc s I2 c Hh Ht) as [L|[L|L]]; [exact (Hd L) | rewrite Hc in L; exact L | rewrite Hr in L; exact L].
Qed.

Lemma leak_only_by_silence s c o : Inv0 s -> Inv1 s -> Inv2 s -> ~ dying s ->
  holds (callers s c) -> ph (callers s c) = PDone o ->
  In (sid (callers s c), c) (srv s ++ s2c s) \/ rcv_has (rcv s) c.
Proof.
  intros I0 I1 I2 Hd Hh Hp.
  assert (Ht : track_ph (ph (callers s c)) = true) by (rewrite Hp; reflexivity).
  destruct (m_loc s I2 c Hh Ht) as [L|[L|L]]; [exfalso; exact (Hd L) | | right; exact L]. left.
  assert (Hc : closed s = false) by (destruct (closed s) eqn:E; [exfalso; apply Hd; left; exact E | reflexivity]).
  assert (Hw : written (callers s c) = true).
  { pose proof (j_cwf s I1 c) as W. unfold cwf in W. rewrite Hp in W. destruct Hh as [Hs Hr].
    destruct o; try (intuition congruence); try lia.
    - pose proof (m_addfail s I2 c Hp). congruence.
    - pose proof (m_werr s I2 c Hp). congruence. }
  pose proof (m_wire s I2 Hc _ _ L Hw) as T. apply in_map_iff in T. destruct T as [[id t] [E T]]. cbn in E; subst t.
  destruct (j_wire s I1 id c T) as [Hs _]. rewrite Hs. exact T.
Qed.
