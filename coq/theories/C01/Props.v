(* C01/Props.v -- the proof obligations of property C01 (every response reaches the request that caused
   it, and only that one), over the connection model of C01/Model.v.

   All theorems quantify over every label list ls: every number of callers, every order of caller,
   receiver, closer, timer and server actions (every schedule), every placement of timeouts,
   cancellations, write failures and closes.  The one hypothesis about the environment is a predicate on ls:
     honest (init n) ls      the server answers only requests it has received completely, each at most
                             once, with that request's stream id and content.
   (Until the fix of finding body-timeout-misroute the theorems also needed "after a failed read of a
   response body no further bytes of that body arrive"; recv now closes the connection on such an error
   and the model discharges that by itself.  Refuted.v keeps the pre-fix behaviour as a regression fact.) *)
From GocqlV Require Import Lib.Base C01.Model C01.Spec C01.Proofs1 C01.Proofs2 C01.Proofs2c C01.Proofs3
  C01.Proofs4 C01.Proofs6 C01.Proofs7 C01.Proofs8.

(* Whatever a caller is handed on call.resp - a response frame, an ERROR frame (both RTok), or a body
   read error - is the content the server sent for that caller's own request. *)
Theorem C01_response_to_own_request : forall n ls s c t,
  0 < n -> run (init n) ls = Some s -> honest (init n) ls ->
  handed (callers s c) t -> t = c.
Proof. exact own_response. Qed.
Print Assumptions C01_response_to_own_request.

(* End to end, with no hypothesis on the network, the timers, the callers or the closers: under an honest
   server, for every schedule, whatever exec returned to a caller as a response (a result frame, an ERROR
   frame, or a body that could not be decoded) is the answer to that caller's own request; and whatever
   the receiving goroutine is holding for a call at any moment is that call's own answer. *)
Theorem C01_end_to_end_own_token : forall n ls s c,
  0 < n -> run (init n) ls = Some s -> honest (init n) ls ->
  (forall o, ph (callers s c) = PDone o ->
     match o with OResp (RTok t) | OResp (RBodyErr t) => t = c | _ => True end)
  /\ (forall r opn, ph (callers s c) = PGot r opn ->
     match r with RTok t | RBodyErr t => t = c | RCloseErr => True end)
  /\ (forall r, rcv s = RDeliver c r -> match r with RTok t | RBodyErr t => t = c | RCloseErr => False end).
Proof.
  intros n ls s c Hn Hr Hh. pose proof (own_response n ls s c) as H. destruct (reach_inv n ls s Hn Hr Hh) as [_ [I1 _]].
  split; [|split].
  - intros o Hp. destruct o; auto. destruct r; auto; apply H; auto; unfold handed; rewrite Hp; reflexivity.
  - intros r opn Hp. destruct r; auto; apply H; auto; unfold handed; rewrite Hp; reflexivity.
  - intros r Hrc. pose proof (j_rcv s I1) as J. rewrite Hrc in J. destruct r; intuition.
Qed.
Print Assumptions C01_end_to_end_own_token.

(* The receiver's lookup: whenever a frame is at the head of the wire and a call is registered under its
   stream id, that call is the request the frame answers. *)
Theorem C01_lookup_finds_owner : forall n ls s id t rest c,
  0 < n -> run (init n) ls = Some s -> honest (init n) ls ->
  closed s = false -> s2c s = (id, t) :: rest -> lookup id (calls s) = Some c -> c = t.
Proof.
  intros n ls s id t rest c Hn Hr Hh. destruct (reach_inv n ls s Hn Hr Hh) as [_ [I1 _]].
  apply lookup_owner; exact I1.
Qed.
Print Assumptions C01_lookup_finds_owner.

(* While an answer for request t on stream id is still owed, on the wire, or being read - in particular
   after t has timed out or was cancelled - t still holds the id, the id is reserved in the allocator, and
   no caller can be given it: a late response cannot reach a later request. *)
Theorem C01_no_reuse_while_answer_due : forall n ls s id t,
  0 < n -> run (init n) ls = Some s -> honest (init n) ls ->
  answer_due s id t ->
  holds (callers s t) /\ sid (callers s t) = id /\ In id (held s) /\ forall c, step s (Alloc c id) = None.
Proof.
  intros n ls s id t Hn Hr Hh. destruct (reach_inv n ls s Hn Hr Hh) as [_ [I1 _]].
  apply due_holds; exact I1.
Qed.
Print Assumptions C01_no_reuse_while_answer_due.

(* A stream id has at most one holder (stated separately because C08's allocator contract is its premise). *)
Theorem C01_one_holder_per_id : forall n ls s c1 c2,
  0 < n -> run (init n) ls = Some s -> honest (init n) ls ->
  holds (callers s c1) -> holds (callers s c2) -> sid (callers s c1) = sid (callers s c2) -> c1 = c2.
Proof.
  intros n ls s c1 c2 Hn Hr Hh. destruct (reach_inv n ls s Hn Hr Hh) as [_ [I1 _]].
  apply (j_owner s I1).
Qed.
Print Assumptions C01_one_holder_per_id.

(* Registration never overwrites: c.calls has no duplicate ids in any reachable state (no hypothesis on
   the environment at all), and addCall for an id that is present is refused and leaves the map alone. *)
Theorem C01_dup_registration_refused : forall n ls s,
  run (init n) ls = Some s ->
  NoDup (map fst (calls s)) /\
  forall c res s', step s (AddCall c res) = Some s' ->
    (exists c0, In (sid (callers s c), c0) (calls s)) -> res <> 0 /\ calls s' = calls s.
Proof.
  intros n ls s Hr. pose proof (inv0_reachable n ls s Hr) as I0. split; [apply (k_keys s I0)|].
  intros c res s' Hs Hex. eapply dup_refused; eauto. apply (k_keys s I0).
Qed.
Print Assumptions C01_dup_registration_refused.

(* ---- non-vacuity: the hypotheses are satisfiable by runs that exercise the interesting paths ---------- *)

(* two callers, B answered first (out of order), A times out, its late answer arrives and the receiver
   releases A's stream on A's behalf *)
Definition ex_run : list label :=
  [Start 1; Alloc 1 5; AddCall 1 0; WriteBegin 1; WriteEnd 1 WOk;
   Start 2; Alloc 2 6; AddCall 2 0; WriteBegin 2; WriteEnd 2 WOk;
   SrvAnswer 6 2; RecvHeader; RecvBodyOk; Deliver 2; Finish 2 true;
   Timeout 1; SrvAnswer 5 1; RecvHeader; RecvBodyOk; RecvSawTimeout 1; RecvRelease 1].

Example C01_nonvacuous :
  exists s, run (init 128) ex_run = Some s
    /\ honest (init 128) ex_run
    /\ ph (callers s 2) = PDone (OResp (RTok 2)) /\ ph (callers s 1) = PDone OTimeout /\ held s = [].
Proof.
  eexists. split; [vm_compute; reflexivity|]. split; [apply honestb_sound; vm_compute; reflexivity|].
  vm_compute. auto.
Qed.

(* a state in which an answer is due for a caller that has already given up *)
Example C01_nonvacuous_due :
  exists s, run (init 128) (firstn 16 ex_run ++ [SrvAnswer 5 1]) = Some s /\ answer_due s 5 1
            /\ ph (callers s 1) = PDone OTimeout.
Proof. eexists. split; [vm_compute; reflexivity|]. split; [right; left; vm_compute; auto | vm_compute; reflexivity]. Qed.
