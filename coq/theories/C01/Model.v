(* C01/Model.v -- the connection as a labelled transition system (shared by C01 and C06).

   A transcription of conn.go: exec (1029-1177), addCall (1014-1027), recv (662-756), serve,
   releaseStream (758-772), closeWithError (525-574); the writers are one abstract Write
   (WriteBegin ... WriteEnd with the three outcomes exec distinguishes), the stream-id allocator is
   its abstract specification (GetStream returns any id that is not held: property C08), the server
   and the network are environment labels.

   One label = one atomic action of the real code: one c.mu critical section, one channel operation
   (a rendezvous on call.resp is one label), one close(call.timeout), one Write call returning, one
   server action.  The order of labels is arbitrary: every theorem is an invariant over all label
   lists, i.e. over every schedule of any number of callers, the receiver, closers, timers, the server.

   Identifiers: a caller (one invocation of exec) is a Z; the request's token is the caller's own
   identifier (tokens are unique by construction); stream ids are Z.

   Where this differs from the step table of DESIGN.md Appendix D (read against conn.go line by line):
   * the error paths of exec are several atomic actions, not one: close(call.timeout) [BuildFail /
     WriteErrClose], the guarded delete under c.mu [DelCall], releaseStream [Release]; the return of
     writeContext with an error [WriteEnd] and the close(call.timeout) that follows are separate too;
   * a write error that is not the cancelled-before-start case makes the caller itself run closeWithError
     [PWFail -> CloseBegin (WCaller c) -> ... -> CloseCancel], it returns only when that has finished;
   * closeWithError(nil) (Conn.Close) leaves c.calls as it is and delivers nothing; only a non-nil error
     moves the calls to the closer's work list;
   * recv, finding c.closed at the lookup, returns ErrConnectionClosed: serve then calls closeWithError,
     which is a no-op [RFail -> CloseBegin WRecv -> RGone];
   * readFrame's errors are of two kinds: the connection failed before the body was consumed (a
     frameReadError wrapping the io error, or a net.Error): recv returns it and serve closes the
     connection [RecvBodyErr true]; or the body was consumed and is unusable (too big and discarded, no
     compressor, decompression failed): the error goes to the caller and the receiver goes on
     [RecvBodyErr false].  (Before the fix of finding body-timeout-misroute every io error took the second
     path with part of the body still unread: C01/Refuted.v keeps that behaviour as a regression fact.);
   * whether exec releases the stream after an error response depends on c.Closed() read after the
     rendezvous [PGot _ opn, Finish c rel];
   * the receiver's release on behalf of a departed caller is its own action after the select [RecvRelease];
   * the connection context can be cancelled from outside (the session's context) [ParentCancel];
   * addCall refused leaves the stream id reserved (the code returns without releasing it).

   Executable definitions only; no proofs here. *)
From GocqlV Require Import Lib.Base Gen.Consts.

(* what a caller can be handed on call.resp *)
Inductive resp :=
| RTok (t : Z)        (* a frame whose body was read completely: the content the server sent for request t *)
| RBodyErr (t : Z)    (* readFrame failed (error that is not a net.Error) while reading t's response *)
| RCloseErr.          (* the error closeWithError delivers to every outstanding call *)

(* the outcome classes of exec *)
Inductive outcome :=
| ORefused            (* ctx already done at entry (1030) *)
| ONoStreams          (* ErrNoStreams (1037) *)
| OAddFail            (* addCall refused: connection closed / id in use (1053) *)
| OBuildErr           (* buildFrame failed (1071-1087) *)
| OWriteCtx           (* write cancelled before it started (1095-1105) *)
| OWriteErr           (* write failed; the connection was closed (1112) *)
| OResp (r : resp)    (* a response or an error received on call.resp (1141-1165) *)
| OTimeout            (* ErrTimeoutNoResponse (1166) *)
| OCtx                (* the caller's context (1170) *)
| OConnClosed.        (* ErrConnectionClosed: connection context done (1173) *)

Inductive wres := WOk | WCtx0 | WFail.   (* writeContext: nil / context error with n = 0 / anything else *)

Inductive phase :=
| PNone                         (* never started *)
| PStart                        (* in exec, before GetStream *)
| PAlloc                        (* stream reserved, callReq made, before addCall *)
| PReg                          (* registered in c.calls, before buildFrame/write *)
| PWriting                      (* inside c.w.writeContext *)
| PWErr (fatal : bool)          (* writeContext returned an error (fatal: not the cancelled-before-start case); call.timeout not yet closed *)
| PWait                         (* in the four-way select *)
| PGot (r : resp) (opn : bool)  (* received r from call.resp; opn: the connection was not closed at that moment *)
| PAbortA (o : outcome)         (* error path: call.timeout closed, before the guarded delete *)
| PAbortB (o : outcome)         (* error path: after the delete, before releaseStream *)
| PWFail                        (* write failed, call.timeout closed, about to call closeWithError *)
| PClosing                      (* inside closeWithError as the thread that set closed *)
| PDone (o : outcome).          (* exec returned o *)

Record caller := mkCaller {
  ph : phase;
  sid : Z;            (* stream id (0: none yet) *)
  tmo : bool;         (* call.timeout is closed *)
  written : bool;     (* ghost: the frame was written completely *)
  released : bool     (* ghost: the stream id was given back *)
}.

Definition caller0 : caller := mkCaller PNone 0 false false false.

(* the receiving goroutine (serve / recv) *)
Inductive rstate :=
| RIdle                         (* reading a header *)
| RHave (c t : Z)               (* header read, call c looked up and removed, reading the body of t's response *)
| RDeliver (c : Z) (r : resp)   (* in the select: hand r to c / c has gone / connection context *)
| RRelease (c : Z)              (* saw call.timeout closed: about to release c's stream *)
| RFail                         (* recv returned an error: serve is about to call closeWithError *)
| RClosing                      (* inside closeWithError as the thread that set closed *)
| RGone.                        (* serve has returned *)

(* who runs closeWithError *)
Inductive who := WCaller (c : Z) | WRecv | WExt.

Record state := mkState {
  nstreams : Z;                 (* streams.NumStreams: 128 or 32768 *)
  callers : Z -> caller;
  calls : list (Z * Z);         (* c.calls: stream id -> caller *)
  closed : bool;                (* c.closed *)
  held : list Z;                (* stream ids reserved in the allocator *)
  cctx : bool;                  (* c.ctx is done *)
  rcv : rstate;
  closer : option who;          (* the thread inside closeWithError's delivery loop *)
  todo : list Z;                (* callsToClose not yet visited *)
  srv : list (Z * Z);           (* requests (id, token) completely written and not answered *)
  s2c : list (Z * Z)            (* responses (id, token) sent and not yet read by the receiver *)
}.

Definition init (n : Z) : state :=
  mkState n (fun _ => caller0) [] false [] false RIdle None [] [] [].

Inductive label :=
(* callers *)
| Start (c : Z)
| Refused (c : Z)
| Alloc (c id : Z)
| AllocFail (c : Z)
| AddCall (c res : Z)                    (* res: 0 registered, 1 refused closed, 2 refused id in use *)
| BuildFail (c : Z)
| WriteBegin (c : Z)
| WriteEnd (c : Z) (w : wres)
| WriteErrClose (c : Z)                  (* close(call.timeout) on the write-error path *)
| DelCall (c : Z)
| Release (c : Z)
| Deliver (c : Z)                        (* rendezvous receiver -> caller on call.resp *)
| Finish (c : Z) (rel : bool)            (* close(call.timeout), release or not, return *)
| Timeout (c : Z)
| CtxDone (c : Z)
| ConnDone (c : Z)
(* server and network *)
| SrvAnswer (id t : Z)
(* receiver *)
| RecvHeader
| RecvBodyOk
| RecvBodyErr (fatal : bool)             (* readFrame failed; fatal: the body was not consumed (net.Error / frameReadError) *)
| RecvSawTimeout (c : Z)
| RecvRelease (c : Z)
| RecvCtxDone
| RecvFail
(* closing *)
| CloseBegin (w : who) (haserr : bool)
| CloseDeliver (c : Z)                   (* rendezvous closer -> caller on call.resp *)
| CloseSawTimeout (c : Z)
| CloseCancel
| ParentCancel.

(* ---- helpers ------------------------------------------------------------------------------- *)

Definition updc (f : Z -> caller) (c : Z) (v : caller) : Z -> caller :=
  fun x => if x =? c then v else f x.

Definition set_ph (ca : caller) (p : phase) : caller :=
  mkCaller p (sid ca) (tmo ca) (written ca) (released ca).
Definition set_tmo (ca : caller) : caller :=
  mkCaller (ph ca) (sid ca) true (written ca) (released ca).
Definition set_rel (ca : caller) : caller :=
  mkCaller (ph ca) (sid ca) (tmo ca) (written ca) true.

Fixpoint lookup (id : Z) (l : list (Z * Z)) : option Z :=
  match l with
  | [] => None
  | (k, v) :: l' => if k =? id then Some v else lookup id l'
  end.

Fixpoint rem_key (id : Z) (l : list (Z * Z)) : list (Z * Z) :=
  match l with
  | [] => []
  | (k, v) :: l' => if k =? id then rem_key id l' else (k, v) :: rem_key id l'
  end.

Fixpoint mem (x : Z) (l : list Z) : bool :=
  match l with
  | [] => false
  | y :: l' => (y =? x) || mem x l'
  end.

Fixpoint rem (x : Z) (l : list Z) : list Z :=
  match l with
  | [] => []
  | y :: l' => if y =? x then rem x l' else y :: rem x l'
  end.

(* remove the first occurrence of a pair *)
Fixpoint rem1 (id t : Z) (l : list (Z * Z)) : list (Z * Z) :=
  match l with
  | [] => []
  | (k, v) :: l' => if (k =? id) && (v =? t) then l' else (k, v) :: rem1 id t l'
  end.

Definition is_err (r : resp) : bool := match r with RTok _ => false | _ => true end.

Definition with_callers (s : state) (f : Z -> caller) : state :=
  mkState (nstreams s) f (calls s) (closed s) (held s) (cctx s) (rcv s) (closer s) (todo s) (srv s) (s2c s).
Definition with_calls (s : state) (l : list (Z * Z)) : state :=
  mkState (nstreams s) (callers s) l (closed s) (held s) (cctx s) (rcv s) (closer s) (todo s) (srv s) (s2c s).
Definition with_held (s : state) (h : list Z) : state :=
  mkState (nstreams s) (callers s) (calls s) (closed s) h (cctx s) (rcv s) (closer s) (todo s) (srv s) (s2c s).
Definition with_rcv (s : state) (r : rstate) : state :=
  mkState (nstreams s) (callers s) (calls s) (closed s) (held s) (cctx s) r (closer s) (todo s) (srv s) (s2c s).
Definition with_cctx (s : state) (b : bool) : state :=
  mkState (nstreams s) (callers s) (calls s) (closed s) (held s) b (rcv s) (closer s) (todo s) (srv s) (s2c s).
Definition with_todo (s : state) (l : list Z) : state :=
  mkState (nstreams s) (callers s) (calls s) (closed s) (held s) (cctx s) (rcv s) (closer s) l (srv s) (s2c s).
Definition with_srv (s : state) (l : list (Z * Z)) : state :=
  mkState (nstreams s) (callers s) (calls s) (closed s) (held s) (cctx s) (rcv s) (closer s) (todo s) l (s2c s).
Definition with_s2c (s : state) (l : list (Z * Z)) : state :=
  mkState (nstreams s) (callers s) (calls s) (closed s) (held s) (cctx s) (rcv s) (closer s) (todo s) (srv s) l.
Definition with_close (s : state) (cl : bool) (w : option who) (td : list Z) (cs : list (Z * Z)) : state :=
  mkState (nstreams s) (callers s) cs cl (held s) (cctx s) (rcv s) w td (srv s) (s2c s).
Definition with_closer (s : state) (w : option who) : state :=
  mkState (nstreams s) (callers s) (calls s) (closed s) (held s) (cctx s) (rcv s) w (todo s) (srv s) (s2c s).

Definition set_caller (s : state) (c : Z) (v : caller) : state := with_callers s (updc (callers s) c v).

(* the thread w leaves closeWithError *)
Definition leave_close (s : state) (w : who) : state :=
  match w with
  | WCaller c => set_caller s c (set_ph (callers s c) (PDone OWriteErr))
  | WRecv => with_rcv s RGone
  | WExt => s
  end.

(* the thread w is at a closeWithError call site *)
Definition at_close_site (s : state) (w : who) (haserr : bool) : bool :=
  match w with
  | WCaller c => (match ph (callers s c) with PWFail => true | _ => false end) && haserr
  | WRecv => (match rcv s with RFail => true | _ => false end) && haserr
  | WExt => true
  end.

Definition enter_close (s : state) (w : who) : state :=
  match w with
  | WCaller c => set_caller s c (set_ph (callers s c) PClosing)
  | WRecv => with_rcv s RClosing
  | WExt => s
  end.

(* ---- the step function --------------------------------------------------------------------- *)

Definition step (s : state) (l : label) : option state :=
  match l with
  | Start c =>
      match ph (callers s c) with
      | PNone => Some (set_caller s c (set_ph (callers s c) PStart))
      | _ => None
      end
  | Refused c =>                                         (* conn.go:1030 *)
      match ph (callers s c) with
      | PStart => Some (set_caller s c (set_ph (callers s c) (PDone ORefused)))
      | _ => None
      end
  | Alloc c id =>                                        (* 1035: GetStream returns some id that is not held *)
      match ph (callers s c) with
      | PStart =>
          if (0 <? id) && (id <? nstreams s) && negb (mem id (held s)) then
            Some (with_held (set_caller s c (mkCaller PAlloc id false false false)) (id :: held s))
          else None
      | _ => None
      end
  | AllocFail c =>                                       (* 1036 *)
      match ph (callers s c) with
      | PStart => Some (set_caller s c (set_ph (callers s c) (PDone ONoStreams)))
      | _ => None
      end
  | AddCall c res =>                                     (* 1014-1027, one critical section *)
      match ph (callers s c) with
      | PAlloc =>
          let id := sid (callers s c) in
          let refused := Some (set_caller s c (set_ph (callers s c) (PDone OAddFail))) in   (* the id stays reserved *)
          if closed s then (if res =? 1 then refused else None)
          else match lookup id (calls s) with
               | Some _ => if res =? 2 then refused else None
               | None =>
                   if res =? 0 then Some (with_calls (set_caller s c (set_ph (callers s c) PReg)) ((id, c) :: calls s))
                   else None
               end
      | _ => None
      end
  | BuildFail c =>                                       (* 1071-1075: close(call.timeout) *)
      match ph (callers s c) with
      | PReg => Some (set_caller s c (set_tmo (set_ph (callers s c) (PAbortA OBuildErr))))
      | _ => None
      end
  | WriteBegin c =>                                      (* 1089 *)
      match ph (callers s c) with
      | PReg => Some (set_caller s c (set_ph (callers s c) PWriting))
      | _ => None
      end
  | WriteEnd c w =>                                      (* 1089-1115 *)
      match ph (callers s c) with
      | PWriting =>
          let ca := callers s c in
          match w with
          | WOk => Some (with_srv (set_caller s c (mkCaller PWait (sid ca) (tmo ca) true (released ca)))
                                  (srv s ++ [(sid ca, c)]))
          | WCtx0 => Some (set_caller s c (set_ph ca (PWErr false)))
          | WFail => Some (set_caller s c (set_ph ca (PWErr true)))
          end
      | _ => None
      end
  | WriteErrClose c =>                                   (* 1094: close(call.timeout) *)
      match ph (callers s c) with
      | PWErr false => Some (set_caller s c (set_tmo (set_ph (callers s c) (PAbortA OWriteCtx))))
      | PWErr true => Some (set_caller s c (set_tmo (set_ph (callers s c) PWFail)))
      | _ => None
      end
  | DelCall c =>                                         (* 1078-1082, 1098-1102: if !c.closed { delete } *)
      match ph (callers s c) with
      | PAbortA o =>
          let s1 := set_caller s c (set_ph (callers s c) (PAbortB o)) in
          if closed s then Some s1 else Some (with_calls s1 (rem_key (sid (callers s c)) (calls s)))
      | _ => None
      end
  | Release c =>                                         (* 1085, 1105: releaseStream *)
      match ph (callers s c) with
      | PAbortB o =>
          Some (with_held (set_caller s c (set_rel (set_ph (callers s c) (PDone o)))) (rem (sid (callers s c)) (held s)))
      | _ => None
      end
  | Deliver c =>                                         (* 749 / 1141: call.resp rendezvous *)
      match rcv s, ph (callers s c) with
      | RDeliver c' r, PWait =>
          if c' =? c then Some (with_rcv (set_caller s c (set_ph (callers s c) (PGot r (negb (closed s))))) RIdle)
          else None
      | _, _ => None
      end
  | Finish c rel =>                                      (* 1142-1165 *)
      match ph (callers s c) with
      | PGot r opn =>
          let ok := if is_err r then (if rel then opn else closed s) else rel in
          if ok then
            let ca := set_tmo (set_ph (callers s c) (PDone (OResp r))) in
            if rel then Some (with_held (set_caller s c (set_rel ca)) (rem (sid ca) (held s)))
            else Some (set_caller s c ca)
          else None
      | _ => None
      end
  | Timeout c =>                                         (* 1166-1169 *)
      match ph (callers s c) with
      | PWait => Some (set_caller s c (set_tmo (set_ph (callers s c) (PDone OTimeout))))
      | _ => None
      end
  | CtxDone c =>                                         (* 1170-1172 *)
      match ph (callers s c) with
      | PWait => Some (set_caller s c (set_tmo (set_ph (callers s c) (PDone OCtx))))
      | _ => None
      end
  | ConnDone c =>                                        (* 1173-1175 *)
      match ph (callers s c) with
      | PWait => if cctx s then Some (set_caller s c (set_tmo (set_ph (callers s c) (PDone OConnClosed)))) else None
      | _ => None
      end
  | SrvAnswer id t =>                                    (* the server sends a response for (id, t) *)
      Some (with_s2c (with_srv s (rem1 id t (srv s))) (s2c s ++ [(id, t)]))
  | RecvHeader =>                                        (* 673-733 *)
      match rcv s, s2c s with
      | RIdle, (id, t) :: rest =>
          let s1 := with_s2c s rest in
          if nstreams s <? id then Some (with_rcv s1 RFail)                 (* 692 *)
          else if id =? -1 then Some s1                                     (* 694: event frame *)
          else if id <=? 0 then Some (with_rcv s1 RFail)                    (* 702 *)
          else if closed s then Some (with_rcv s1 RFail)                    (* 721 *)
          else match lookup id (calls s) with
               | None => Some s1                                            (* 728: discard *)
               | Some c => Some (with_rcv (with_calls s1 (rem_key id (calls s))) (RHave c t))
               end
      | _, _ => None
      end
  | RecvBodyOk =>                                        (* 737 *)
      match rcv s with
      | RHave c t => Some (with_rcv s (RDeliver c (RTok t)))
      | _ => None
      end
  | RecvBodyErr fatal =>                                 (* 737-750 *)
      match rcv s with
      | RHave c t =>
          if fatal then Some (with_rcv s RFail)          (* the connection failed mid-body: recv returns the error *)
          else Some (with_rcv s (RDeliver c (RBodyErr t)))   (* found after the whole body was consumed: to the caller *)
      | _ => None
      end
  | RecvSawTimeout c =>                                  (* 750 *)
      match rcv s with
      | RDeliver c' r => if (c' =? c) && tmo (callers s c) then Some (with_rcv s (RRelease c)) else None
      | _ => None
      end
  | RecvRelease c =>                                     (* 751 *)
      match rcv s with
      | RRelease c' =>
          if c' =? c then
            Some (with_rcv (with_held (set_caller s c (set_rel (callers s c))) (rem (sid (callers s c)) (held s))) RIdle)
          else None
      | _ => None
      end
  | RecvCtxDone =>                                       (* 752 *)
      match rcv s with
      | RDeliver c r => if cctx s then Some (with_rcv s RIdle) else None
      | _ => None
      end
  | RecvFail =>                                          (* readHeader / discardFrame error *)
      match rcv s with
      | RIdle => Some (with_rcv s RFail)
      | _ => None
      end
  | CloseBegin w haserr =>                               (* 530-547, one critical section *)
      if at_close_site s w haserr then
        if closed s then Some (leave_close s w)
        else
          let s1 := enter_close s w in
          if haserr then Some (with_close s1 true (Some w) (map snd (calls s)) [])
          else Some (with_close s1 true (Some w) [] (calls s))
      else None
  | CloseDeliver c =>                                    (* 552 *)
      match closer s, ph (callers s c) with
      | Some _, PWait =>
          if mem c (todo s) then
            Some (with_todo (set_caller s c (set_ph (callers s c) (PGot RCloseErr false))) (rem c (todo s)))
          else None
      | _, _ => None
      end
  | CloseSawTimeout c =>                                 (* 553 *)
      match closer s with
      | Some _ => if mem c (todo s) && tmo (callers s c) then Some (with_todo s (rem c (todo s))) else None
      | None => None
      end
  | CloseCancel =>                                       (* 565-566 and return *)
      match closer s, todo s with
      | Some w, [] => Some (leave_close (with_closer (with_cctx s true) None) w)
      | _, _ => None
      end
  | ParentCancel => Some (with_cctx s true)               (* the context the connection was dialled with *)
  end.

Fixpoint run (s : state) (ls : list label) : option state :=
  match ls with
  | [] => Some s
  | l :: ls' => match step s l with Some s' => run s' ls' | None => None end
  end.
