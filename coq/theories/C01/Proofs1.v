(* C01/Proofs1.v -- list lemmas for the model's association lists, and the case-analysis tactic. *)
From GocqlV Require Import Lib.Base C01.Model C01.Spec.
From Coq Require Import Permutation.

Lemma mem_In x l : mem x l = true <-> In x l.
Proof.
  induction l as [|y l IH]; cbn; [split; [discriminate|tauto]|].
  rewrite orb_true_iff, IH, Z.eqb_eq. tauto.
Qed.

Lemma mem_false x l : mem x l = false <-> ~ In x l.
Proof. rewrite <- mem_In. destruct (mem x l); split; congruence. Qed.

Lemma In_rem x y l : In x (rem y l) <-> In x l /\ x <> y.
Proof.
  induction l as [|z l IH]; cbn; [tauto|].
  destruct (Z.eqb_spec z y) as [->|N]; cbn; rewrite IH; intuition congruence.
Qed.

Lemma NoDup_rem y l : NoDup l -> NoDup (rem y l).
Proof.
  induction 1 as [|z l Hn Hd IH]; cbn; [constructor|].
  destruct (Z.eqb_spec z y); auto. constructor; auto. rewrite In_rem. tauto.
Qed.

Lemma rem_notin y l : ~ In y l -> rem y l = l.
Proof.
  induction l as [|z l IH]; cbn; auto. intros H.
  destruct (Z.eqb_spec z y); [subst; tauto|]. f_equal. apply IH. tauto.
Qed.

Lemma lookup_In id l c : lookup id l = Some c -> In (id, c) l.
Proof.
  induction l as [|[k v] l IH]; cbn; [discriminate|].
  destruct (Z.eqb_spec k id); [intros [= ->]; subst; auto|auto].
Qed.

Lemma lookup_None id l : lookup id l = None <-> ~ In id (map fst l).
Proof.
  induction l as [|[k v] l IH]; cbn; [tauto|].
  destruct (Z.eqb_spec k id); [split; [discriminate|tauto]|]. rewrite IH. tauto.
Qed.

Lemma In_lookup id c l : NoDup (map fst l) -> In (id, c) l -> lookup id l = Some c.
Proof.
  induction l as [|[k v] l IH]; cbn; [tauto|]. intros Hn [H|H].
  - inversion H; subst. rewrite Z.eqb_refl. reflexivity.
  - inversion Hn; subst. destruct (Z.eqb_spec k id); [subst|auto].
    exfalso. apply H2. apply (in_map fst) in H. exact H.
Qed.

Lemma In_rem_key p id l : In p (rem_key id l) <-> In p l /\ fst p <> id.
Proof.
  induction l as [|[k v] l IH]; cbn; [tauto|].
  destruct (Z.eqb_spec k id) as [->|N]; cbn; rewrite IH; destruct p as [a b]; cbn;
    intuition (try congruence); inversion H0; subst; tauto.
Qed.

Lemma In_map_rem_key_fst x id l : In x (map fst (rem_key id l)) -> In x (map fst l) /\ x <> id.
Proof.
  rewrite !in_map_iff. intros [p [<- H]]. apply In_rem_key in H. split; [exists p|]; tauto.
Qed.

Lemma In_map_rem_key_snd x id l : In x (map snd (rem_key id l)) -> In x (map snd l).
Proof.
  rewrite !in_map_iff. intros [p [<- H]]. apply In_rem_key in H. exists p; tauto.
Qed.

Lemma NoDup_rem_key_fst id l : NoDup (map fst l) -> NoDup (map fst (rem_key id l)).
Proof.
  induction l as [|[k v] l IH]; cbn; [constructor|]. intros H; inversion H; subst.
  destruct (Z.eqb_spec k id); auto. cbn. constructor; auto.
  intros Hin. apply In_map_rem_key_fst in Hin. tauto.
Qed.

Lemma NoDup_rem_key_snd id l : NoDup (map snd l) -> NoDup (map snd (rem_key id l)).
Proof.
  induction l as [|[k v] l IH]; cbn; [constructor|]. intros H; inversion H; subst.
  destruct (Z.eqb_spec k id); auto. cbn. constructor; auto.
  intros Hin. apply In_map_rem_key_snd in Hin. tauto.
Qed.

(* rem1 removes exactly one occurrence *)
Lemma rem1_perm id t l : In (id, t) l -> Permutation l ((id, t) :: rem1 id t l).
Proof.
  induction l as [|[k v] l IH]; cbn; [tauto|]. intros [H|H].
  - inversion H; subst. rewrite !Z.eqb_refl. cbn. reflexivity.
  - destruct (Z.eqb_spec k id); destruct (Z.eqb_spec v t); subst; cbn; try reflexivity;
      (etransitivity; [apply perm_skip, IH, H| apply perm_swap]).
Qed.

Lemma In_rem1 p id t l : In p (rem1 id t l) -> In p l.
Proof.
  induction l as [|[k v] l IH]; cbn; [tauto|].
  destruct ((k =? id) && (v =? t)); cbn; tauto.
Qed.

Lemma updc_same f c v : updc f c v c = v.
Proof. unfold updc. rewrite Z.eqb_refl. reflexivity. Qed.

Lemma updc_other f c v x : x <> c -> updc f c v x = f x.
Proof. unfold updc. intros H. destruct (Z.eqb_spec x c); congruence. Qed.

(* run and append *)
Lemma run_app s ls1 ls2 : run s (ls1 ++ ls2) = match run s ls1 with Some s' => run s' ls2 | None => None end.
Proof.
  revert s; induction ls1 as [|l ls1 IH]; intros s; cbn; [reflexivity|].
  destruct (step s l); auto.
Qed.

(* invariant lifting: [P] is preserved by every step whose label satisfies [lok] *)
Lemma invariant_lift (P : state -> Prop) :
  (forall s l s', P s -> lok s l -> step s l = Some s' -> P s') ->
  forall ls s s', P s -> env_ok s ls -> run s ls = Some s' -> P s'.
Proof.
  intros Hstep. induction ls as [|l ls IH]; intros s s' HP He Hr; cbn in *.
  - inversion Hr; subst; exact HP.
  - destruct He as [Hl He]. revert He Hr. destruct (step s l) as [s1|] eqn:E; [|discriminate].
    intros He Hr. apply (IH s1 s'); eauto.
Qed.

Lemma invariant_lift0 (P : state -> Prop) :
  (forall s l s', P s -> step s l = Some s' -> P s') ->
  forall ls s s', P s -> run s ls = Some s' -> P s'.
Proof.
  intros Hstep. induction ls as [|l ls IH]; intros s s' HP Hr; cbn in *.
  - inversion Hr; subst; exact HP.
  - destruct (step s l) as [s1|] eqn:E; [|discriminate]. apply (IH s1 s'); eauto.
Qed.

(* the form used in Props: honest is env_ok *)
Lemma env_ok_of s ls : honest s ls -> env_ok s ls.
Proof.
  revert s; induction ls as [|l ls IH]; intros s Hh; cbn in *; [exact I|].
  destruct Hh as [Hl Hh]. split.
  - destruct l; auto.
  - destruct (step s l); auto.
Qed.

(* ---- boolean checkers for the environment hypotheses (used by the non-vacuity examples) -------------- *)

Definition mem2p (id t : Z) (l : list (Z * Z)) : bool := existsb (fun p => (fst p =? id) && (snd p =? t)) l.

Lemma mem2p_In id t l : mem2p id t l = true -> In (id, t) l.
Proof.
  unfold mem2p. rewrite existsb_exists. intros [[a b] [Hin H]]. cbn in H.
  apply andb_true_iff in H. destruct H as [H1 H2]. apply Z.eqb_eq in H1. apply Z.eqb_eq in H2. subst. exact Hin.
Qed.

Fixpoint honestb (s : state) (ls : list label) : bool :=
  match ls with
  | [] => true
  | l :: ls' => (match l with SrvAnswer id t => mem2p id t (srv s) | _ => true end)
                && match step s l with Some s' => honestb s' ls' | None => true end
  end.

Lemma honestb_sound s ls : honestb s ls = true -> honest s ls.
Proof.
  revert s; induction ls as [|l ls IH]; intros s H; cbn in *; [exact I|].
  apply andb_true_iff in H. destruct H as [H1 H2]. split.
  - destruct l; auto. apply mem2p_In; exact H1.
  - destruct (step s l); auto.
Qed.

(* ---- case analysis over a step ------------------------------------------------------------------- *)

Ltac inv_some :=
  repeat match goal with
  | H : Some _ = Some _ |- _ => inversion H; subst; clear H
  | H : None = Some _ |- _ => discriminate H
  | H : (if ?b then _ else _) = Some _ |- _ => destruct b eqn:?; try discriminate H
  | H : match ?x with _ => _ end = Some _ |- _ => destruct x eqn:?; try discriminate H
  end.

Ltac bool_hyps :=
  repeat match goal with
  | H : _ && _ = true |- _ => apply andb_true_iff in H; destruct H
  | H : negb _ = true |- _ => apply negb_true_iff in H
  | H : negb _ = false |- _ => apply negb_false_iff in H
  | H : (_ =? _) = true |- _ => apply Z.eqb_eq in H; subst
  | H : (_ =? _) = false |- _ => apply Z.eqb_neq in H
  | H : (_ <? _) = true |- _ => apply Z.ltb_lt in H
  | H : (_ <? _) = false |- _ => apply Z.ltb_ge in H
  | H : (_ <=? _) = true |- _ => apply Z.leb_le in H
  | H : (_ <=? _) = false |- _ => apply Z.leb_gt in H
  | H : mem _ _ = true |- _ => apply mem_In in H
  | H : mem _ _ = false |- _ => apply mem_false in H
  end.

(* destruct a step hypothesis into its cases; the new state becomes an explicit record *)
Ltac step_cases H :=
  match type of H with
  | step ?s ?l = Some ?s' =>
      destruct l; cbn [step] in H;
      unfold at_close_site, enter_close, leave_close in H;
      inv_some;
      repeat match goal with w : who |- _ => destruct w end;
      inv_some; bool_hyps
  end.

Ltac simp_state :=
  cbn [nstreams callers calls closed held cctx rcv closer todo srv s2c
       set_caller with_callers with_calls with_held with_rcv with_cctx with_todo with_srv with_s2c
       with_close with_closer ph sid tmo written released set_ph set_tmo set_rel] in *.

(* split on whether a caller identifier is the one that was updated *)
Ltac upd_cases :=
  repeat match goal with
  | |- context [updc ?f ?c ?v ?x] =>
      destruct (Z.eq_dec x c);
      [subst; rewrite ?updc_same in * | rewrite ?(updc_other f c v x) in * by assumption]
  | H : context [updc ?f ?c ?v ?x] |- _ =>
      destruct (Z.eq_dec x c);
      [subst; rewrite ?updc_same in * | rewrite ?(updc_other f c v x) in * by assumption]
  end.
