(* C01/Refuted.v -- regression facts about the behaviour BEFORE the fix of finding body-timeout-misroute
   (F-C01-1).  They are about [step_pre], not about the model of the current code.

   Before the fix readFrame wrapped a failed body read with fmt.Errorf("...%v"), so recv's
   err.(net.Error) test was false: the error went to the caller and the receiver kept reading.  After
   Conn.Read's five temporary-timeout retries the rest of the body was still to come and was parsed as
   frames.  [step_pre] adds that action to the model: [inr resid] is a failed body read that is delivered
   to the caller while the rest of the body, shaped like frames on the stream ids [resid], stays on the
   wire.  Trace: A (caller 1, stream 5) and B (caller 2, stream 6) are both waiting; the honest server
   answers A; the body read fails with the rest of A's body shaped like a frame on stream 6; A is handed
   the error and releases stream 5; the receiver finds B under stream 6 and hands B the content of A's
   response.  With the current model (Model.step) no such run exists: C01_response_to_own_request. *)
From GocqlV Require Import Lib.Base C01.Model C01.Spec.

Definition step_pre (s : state) (l : label + list Z) : option state :=
  match l with
  | inl l0 => step s l0
  | inr resid =>
      match rcv s with
      | RHave c t => Some (with_s2c (with_rcv s (RDeliver c (RBodyErr t))) (map (fun id => (id, t)) resid ++ s2c s))
      | _ => None
      end
  end.

Fixpoint run_pre (s : state) (ls : list (label + list Z)) : option state :=
  match ls with
  | [] => Some s
  | l :: ls' => match step_pre s l with Some s' => run_pre s' ls' | None => None end
  end.

(* every SrvAnswer of the run is honest *)
Fixpoint honest_pre (s : state) (ls : list (label + list Z)) : bool :=
  match ls with
  | [] => true
  | l :: ls' =>
      (match l with
       | inl (SrvAnswer id t) => existsb (fun p => (fst p =? id) && (snd p =? t)) (srv s)
       | _ => true
       end) && match step_pre s l with Some s' => honest_pre s' ls' | None => true end
  end.

Definition bad_run : list (label + list Z) :=
  map inl [Start 1; Alloc 1 5; AddCall 1 0; WriteBegin 1; WriteEnd 1 WOk;
           Start 2; Alloc 2 6; AddCall 2 0; WriteBegin 2; WriteEnd 2 WOk;
           SrvAnswer 5 1; RecvHeader]
  ++ [inr [6]]
  ++ map inl [Deliver 1; Finish 1 true; RecvHeader; RecvBodyOk; Deliver 2].

Theorem prefix_routing_refuted_after_body_timeout :
  exists ls s c t, run_pre (init 128) ls = Some s /\ honest_pre (init 128) ls = true /\ handed (callers s c) t /\ t <> c.
Proof.
  exists bad_run. eexists. exists 2, 1. split; [vm_compute; reflexivity|]. split; [vm_compute; reflexivity|].
  split; [vm_compute; reflexivity | discriminate].
Qed.

(* ... and A's stream id had been released although bytes of its response were still to come *)
Theorem prefix_reuse_refuted_after_body_timeout :
  exists ls s id t, run_pre (init 128) ls = Some s /\ honest_pre (init 128) ls = true /\ answer_due s id t
                    /\ ~ In (sid (callers s t)) (held s).
Proof.
  exists (firstn 15 bad_run). eexists. exists 6, 1. split; [vm_compute; reflexivity|]. split; [vm_compute; reflexivity|].
  split; [right; left; vm_compute; auto|]. vm_compute. intuition discriminate.
Qed.
