(* C01/Refuted.v -- the full routing statement (without body_errors_fatal) is false in the faithful model:
   known finding body-timeout-misroute (F-C01-1).

   readFrame wraps a failed body read with fmt.Errorf("...%v"), so recv's err.(net.Error) test is false:
   the error goes to the caller and the receiver keeps reading.  After Conn.Read's five temporary-timeout
   retries the rest of the body is still to come; it is parsed as frames.  Trace: A (caller 1, stream 5)
   and B (caller 2, stream 6) are both waiting; the honest server answers A; the body read fails
   (RecvBodyErr false [6]: not a net.Error, and the rest of A's body is shaped like a frame on stream 6);
   A is handed the error; the receiver finds B under stream 6 and hands B the content of A's response. *)
From GocqlV Require Import Lib.Base C01.Model C01.Spec C01.Proofs1.

Definition bad_run : list label :=
  [Start 1; Alloc 1 5; AddCall 1 0; WriteBegin 1; WriteEnd 1 WOk;
   Start 2; Alloc 2 6; AddCall 2 0; WriteBegin 2; WriteEnd 2 WOk;
   SrvAnswer 5 1; RecvHeader; RecvBodyErr false [6]; Deliver 1; Finish 1 true;
   RecvHeader; RecvBodyOk; Deliver 2].

Theorem routing_refuted_after_body_timeout :
  exists ls s c t, run (init 128) ls = Some s /\ honest (init 128) ls /\ handed (callers s c) t /\ t <> c.
Proof.
  exists bad_run. eexists. exists 2, 1. split; [vm_compute; reflexivity|]. split; [apply honestb_sound; vm_compute; reflexivity|].
  split; [vm_compute; reflexivity | discriminate].
Qed.

(* ... and A's stream id was released although bytes of its response were still to come *)
Theorem reuse_refuted_after_body_timeout :
  exists ls s id t, run (init 128) ls = Some s /\ honest (init 128) ls /\ answer_due s id t /\ ~ In (sid (callers s t)) (held s).
Proof.
  exists (firstn 15 bad_run). eexists. exists 6, 1. split; [vm_compute; reflexivity|]. split; [apply honestb_sound; vm_compute; reflexivity|].
  split; [right; left; vm_compute; auto|]. vm_compute. intuition discriminate.
Qed.
