(* C01/Proofs7.v -- Inv2: where an outstanding request is (used by C06: quiescent => all streams free,
   an id stays reserved only while its answer is still owed). *)
From GocqlV Require Import Lib.Base C01.Model C01.Spec C01.Proofs1 C01.Proofs2 C01.Proofs2b C01.Proofs2c C01.Proofs4 C01.Proofs5 C01.Proofs6.
From Coq Require Import Permutation.

Definition track_ph (p : phase) : bool :=
  match p with PReg | PWriting | PWErr _ | PWait | PDone _ => true | _ => false end.

(* the connection is going down (or its context is gone): nothing is promised about streams any more *)
Definition dying (s : state) : Prop := closed s = true \/ cctx s = true \/ rcv_dead (rcv s).

Definition located (s : state) (c : Z) : Prop :=
  dying s \/ In (sid (callers s c), c) (calls s) \/ rcv_has (rcv s) c.

Record Inv2 (s : state) : Prop := mkInv2 {
  m_loc : forall c, holds (callers s c) -> track_ph (ph (callers s c)) = true -> located s c;
  m_wire : closed s = false -> forall id c, In (id, c) (calls s) -> written (callers s c) = true ->
           In c (map snd (srv s ++ s2c s));
  m_range : forall c, sid (callers s c) < nstreams s;
  m_werr : forall c, ph (callers s c) = PDone OWriteErr -> closed s = true;
  m_addfail : forall c, ph (callers s c) = PDone OAddFail -> closed s = true
}.

Lemma inv2_init n : 0 < n -> Inv2 (init n).
Proof.
  intros Hn. constructor; cbn; try tauto; try discriminate.
Qed.

Lemma vals_unique_key (l : list (Z * Z)) k c1 c2 : NoDup (map fst l) -> In (k, c1) l -> In (k, c2) l -> c1 = c2.
Proof.
  intros Hn H1 H2. apply (In_lookup _ _ _ Hn) in H1. apply (In_lookup _ _ _ Hn) in H2. congruence.
Qed.

Section step.
Variables (s s' : state) (l : label).
Hypothesis (I0 : Inv0 s) (I1 : Inv1 s) (I2 : Inv2 s) (Hl : lok s l) (Hs : step s l = Some s').

Ltac start :=
  let H := fresh "H" in pose proof Hs as H; clear Hs; step_cases H; simp_state.
Ltac cw c := let T := fresh "W" in pose proof (j_cwf s I1 c) as T; unfold cwf in T.
Ltac lists2 :=
  repeat match goal with
  | H : In _ (map snd (rem_key _ _)) |- _ =>
      apply in_map_iff in H; destruct H as [[? ?] [? H]]; cbn [fst snd] in *; subst; apply In_rem_key in H; destruct H; cbn [fst snd] in *
  end; lists.

Lemma nstreams_step : nstreams s' = nstreams s.
Proof. start; reflexivity. Qed.

Lemma range_step : forall c, sid (callers s' c) < nstreams s'.
Proof.
  pose proof (m_range s I2) as J.
  start; intros cx; upd_cases; simp_state; auto.
Qed.

(* closed is monotone *)
Lemma closed_mono : closed s = true -> closed s' = true.
Proof. start; intros Hc; simp_state; try congruence; auto. Qed.

(* a second registration of an id that is held cannot happen *)
Lemma addfail_closed c z : ph (callers s c) = PAlloc -> closed s = false -> lookup (sid (callers s c)) (calls s) = Some z -> False.
Proof.
  intros Hp Hc Hk. apply lookup_In in Hk.
  destruct (j_calls s I1 Hc _ _ Hk) as [Hz Hh]. cw c. rewrite Hp in W.
  assert (z = c). { apply (j_owner s I1); auto. unfold holds. intuition. }
  subst z. pose proof (k_calls s I0 _ _ Hk) as [T|T]; [intuition congruence|]. rewrite Hp in T. discriminate.
Qed.

Lemma werr_step : forall c, ph (callers s' c) = PDone OWriteErr -> closed s' = true.
Proof.
  pose proof (m_werr s I2) as J. pose proof (k_closer s I0) as KC.
  start; intros cx Hp; upd_cases; simp_state; try discriminate; eauto.
  all: try (apply KC; congruence).
  inversion Hp; subst. cw c. rewrite Heqp in W. intuition discriminate.
Qed.

Lemma addfail_step : forall c, ph (callers s' c) = PDone OAddFail -> closed s' = true.
Proof.
  pose proof (m_addfail s I2) as J. pose proof (k_closer s I0) as KC. pose proof addfail_closed as AC.
  start; intros cx Hp; upd_cases; simp_state; try discriminate; eauto.
  all: try (apply KC; congruence).
  all: try (match goal with H : lookup _ _ = Some ?z |- _ => exfalso; apply (AC c z); assumption end).
  all: try (inversion Hp; subst; cw c; rewrite Heqp in W; intuition discriminate).
Qed.

Lemma loc_step : forall c, holds (callers s' c) -> track_ph (ph (callers s' c)) = true -> located s' c.
Proof.
  start; intros cx Hh Ht; unfold located, dying, holds in *; simp_state; ph_match; upd_cases; simp_state; try discriminate.
  all: try (left; left; reflexivity).
  all: try (left; right; left; reflexivity).
  all: try (left; right; right; rew_eqs; exact I).
  all: try (match goal with |- _ \/ _ \/ rcv_has _ ?x =>
            assert (Hto : track_ph (ph (callers s x)) = true) by (first [assumption | rew_eqs; reflexivity]);
            pose proof (m_loc s I2 x Hh Hto) as J; unfold located, dying, holds in J; rew_eqs; cbn [rcv_has rcv_dead] in *;
            try solve [intuition (try congruence)] end).
  all: try (right; left; left; reflexivity).
  all: try (exfalso; cw c; rew_eqs; cbn in *; solve [intuition (try congruence; try lia)]).
  - left; left; assumption.
  - exfalso. eapply addfail_closed; eauto.
  - destruct J as [J|[J|J]]; [left; exact J | right; left; right; exact J | right; right; exact J].
  - (* DelCall: another holder has another stream id *)
    destruct J as [J|[J|J]]; [left; exact J | | right; right; exact J].
    right; left. apply In_rem_key. split; [exact J|]. cbn. intros E.
    apply n. apply (j_owner s I1); unfold holds; auto.
    cw c. rewrite Heqp in W. intuition.
  - left; left. destruct (is_err r); [assumption|discriminate].
  - (* RecvHeader finds z1: every other located call keeps its registration *)
    destruct J as [[J|[J|[]]]|[J|[]]]; [discriminate | left; right; left; exact J |].
    destruct (Z.eq_dec z1 cx) as [E|E]; [right; right; exact E|].
    right; left. apply In_rem_key. split; [exact J|]. cbn. intros E2. apply E.
    apply lookup_In in Heqo. rewrite <- E2 in Heqo.
    eapply vals_unique_key; eauto. apply (k_keys s I0).
  - left; left; assumption.
Qed.

Lemma pop_keeps cx idx z z0 l0 :
  s2c s = (z, z0) :: l0 -> closed s = false -> In (idx, cx) (calls s) -> written (callers s cx) = true ->
  (cx = z0 -> idx = z /\ 0 < z /\ z < nstreams s) /\ (cx <> z0 -> In cx (map snd (srv s ++ l0))).
Proof.
  intros E Hc Hin Hw. pose proof (m_wire s I2 Hc idx cx Hin Hw) as J. split.
  - intros ->. assert (Hwz : In (z, z0) (srv s ++ s2c s)) by (rewrite E; apply in_app_iff; right; left; reflexivity).
    destruct (j_wire s I1 z z0 Hwz) as [Hs0 [_ [_ [Hp _]]]]. destruct (j_calls s I1 Hc idx z0 Hin) as [Hs1 _].
    pose proof (m_range s I2 z0). lia.
  - intros Hne. rewrite E in J. rewrite map_app in *. cbn in J. apply in_app_iff in J. apply in_app_iff.
    destruct J as [J|[J|J]]; [left; exact J | congruence | right; exact J].
Qed.

Lemma mwire_step : closed s' = false -> forall id c, In (id, c) (calls s') -> written (callers s' c) = true ->
  In c (map snd (srv s' ++ s2c s')).
Proof.
  start; intros Hc idx cx Hin Hw; try discriminate; simp_state; ph_match; lists2.
  all: assert (Hc' : closed s = false) by (assumption || reflexivity || (rew_eqs; congruence)).
  all: pose proof (m_wire s I2 Hc') as J.
  all: upd_cases; simp_state; try (eapply J; eassumption); try discriminate; try congruence.
  all: try (match goal with E : s2c s = (?z, ?z0) :: ?l0, Hi : In (?idx, ?cx) (calls s) |- _ =>
         destruct (pop_keeps cx idx z z0 l0 E Hc' Hi Hw) as [PA PB]; destruct (Z.eq_dec cx z0) as [Ez|Ez]; [|exact (PB Ez)];
         destruct (PA Ez) as [? [? ?]]; subst; cbn [fst] in *; try lia; try congruence end).
  - (* AddCall: the new entry's request has not been written *)
    cw cx. rewrite Heqp in W. intuition congruence.
  - (* WriteEnd WOk: the caller's own new token *)
    rewrite <- app_assoc, map_app. apply in_app_iff. right. cbn. left. reflexivity.
  - pose proof (J idx cx Hin Hw) as T. rewrite <- app_assoc. rewrite map_app in *. apply in_app_iff in T. apply in_app_iff.
    destruct T as [T|T]; [left; exact T | right; cbn; right; exact T].
  - (* SrvAnswer: same tokens *)
    pose proof (J idx cx Hin Hw) as T.
    assert (P : Permutation (map snd (srv s ++ s2c s)) (map snd (rem1 id t (srv s) ++ s2c s ++ [(id, t)]))).
    { rewrite !map_app. pose proof (perm_answer (srv s) (s2c s) id t [] Hl) as P. rewrite !app_nil_r in P. rewrite map_app in P. exact P. }
    eapply Permutation_in; eauto.
  - (* RecvHeader discards a frame with no registered call: then its request is not registered *)
    exfalso. apply lookup_None in Heqo. apply Heqo. apply (in_map fst) in Hin. exact Hin.
Qed.

End step.

Lemma inv2_step s l s' : Inv0 s -> Inv1 s -> Inv2 s -> lok s l -> step s l = Some s' -> Inv2 s'.
Proof.
  intros I0 I1 I2 Hl Hs. constructor.
  - eapply loc_step; eauto.
  - eapply mwire_step; eauto.
  - eapply range_step; eauto.
  - eapply werr_step; eauto.
  - eapply addfail_step; eauto.
Qed.

Lemma inv012_reachable n ls s : 0 < n -> env_ok (init n) ls -> run (init n) ls = Some s -> Inv0 s /\ Inv1 s /\ Inv2 s.
Proof.
  intros Hn He Hr.
  apply (invariant_lift (fun s => Inv0 s /\ Inv1 s /\ Inv2 s)) with (ls := ls) (s := init n); auto.
  - intros s0 l0 s1 [A [B C]] Hl Hs. split; [eapply inv0_step; eauto | split; [eapply inv1_step; eauto | eapply inv2_step; eauto]].
  - split; [apply inv0_init | split; [apply inv1_init | apply inv2_init; exact Hn]].
Qed.
