(* C01/Proofs2c.v -- Inv0, continued: the bookkeeping of closeWithError. *)
From GocqlV Require Import Lib.Base C01.Model C01.Spec C01.Proofs1 C01.Proofs2 C01.Proofs2b.

Section step.
Variables (s s' : state) (l : label).
Hypothesis (I0 : Inv0 s) (Hs : step s l = Some s').

Ltac start :=
  let H := fresh "H" in pose proof Hs as H; clear Hs; step_cases H; simp_state.

Ltac sat_ extra :=
  repeat match goal with |- _ /\ _ => split | |- ~ _ => intro | |- _ <-> _ => split; intro end;
  lists; in_vals; use2 (k_calls s I0); use1 (k_todo s I0);
  callers_in_ctx ltac:(fun c => pose proof (k_rcv s I0 c); pose proof (k_closing s I0 c); pose proof (k_early s I0 c));
  try (match goal with H : In ?c (todo s) |- _ =>
         assert (calls s = []) by (apply (k_todo_calls s I0); intros E; rewrite E in H; exact H) end);
  extra;
  unfold w3, rcv_has in *; rew_eqs;
  repeat match goal with H : ?A <-> ?x = ?x |- _ => let T := fresh in assert (T : A) by (apply H; reflexivity); clear H end;
  rew_eqs; clear I0; fin.
Ltac sat := sat_ idtac.


Ltac more := pose proof (k_rclosing s I0); pose proof (k_closed s I0); pose proof (k_closer s I0); pose proof (k_todo_closer s I0);
  pose proof (k_todo_calls s I0).

Lemma rrel_step : forall c, rcv s' = RRelease c -> tmo (callers s' c) = true.
Proof. start; prep; sat_ ltac:(repeat match goal with H : rcv s = RRelease ?c |- _ => pose proof (k_rrel s I0 c H); revert H end; intros). Qed.

Lemma todo_calls_step : todo s' <> [] -> calls s' = [].
Proof. start; prep; sat_ more. Qed.

Lemma closing_step : forall c, ph (callers s' c) = PClosing <-> closer s' = Some (WCaller c).
Proof. start; prep; sat_ more. Qed.

Lemma rclosing_step : rcv s' = RClosing <-> closer s' = Some WRecv.
Proof. start; prep; sat_ more. Qed.

Lemma got_step : forall c r, ph (callers s' c) = PGot r false -> closed s' = true.
Proof. start; prep.
  all: try (match goal with H : PGot _ (negb ?b) = PGot _ false |- _ => inversion H; destruct b; [reflexivity|discriminate] end).
  all: sat_ ltac:(more; repeat match goal with H : ph (callers s ?c) = PGot ?r false |- _ => pose proof (k_got s I0 c r H); revert H end; intros). Qed.

Lemma closed_step : closed s' = true -> closer s' <> None \/ cctx s' = true.
Proof. start; prep; sat_ more. Qed.

Lemma closer_step : closer s' <> None -> closed s' = true.
Proof. start; prep; sat_ more. Qed.

Lemma todo_closer_step : todo s' <> [] -> closer s' <> None.
Proof. start; prep; sat_ more. Qed.

Lemma early_step : forall c, (ph (callers s' c) = PNone \/ ph (callers s' c) = PStart \/ ph (callers s' c) = PAlloc) -> tmo (callers s' c) = false.
Proof. start; prep; sat. Qed.

End step.

Lemma inv0_step s l s' : Inv0 s -> step s l = Some s' -> Inv0 s'.
Proof.
  intros I0 Hs. constructor.
  - eapply keys_step; eauto. apply (k_keys s I0).
  - eapply vals_step; eauto.
  - eapply calls_step_w3; eauto.
  - eapply todo_step_w3; eauto.
  - eapply rcv_step; eauto.
  - eapply rrel_step; eauto.
  - eapply todo_calls_step; eauto.
  - eapply closing_step; eauto.
  - eapply rclosing_step; eauto.
  - eapply got_step; eauto.
  - eapply closed_step; eauto.
  - eapply closer_step; eauto.
  - eapply todo_closer_step; eauto.
  - eapply early_step; eauto.
Qed.

Lemma inv0_init n : Inv0 (init n).
Proof.
  constructor; cbn; try (constructor; fail); try tauto; try congruence; try discriminate.
  - intros c. split; discriminate.
  - split; discriminate.
Qed.

Lemma inv0_reachable n ls s : run (init n) ls = Some s -> Inv0 s.
Proof. intros H. eapply (invariant_lift0 Inv0); eauto using inv0_step, inv0_init. Qed.
