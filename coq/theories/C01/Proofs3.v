(* C01/Proofs3.v -- consequences of the unconditional invariant Inv0: duplicate registration refused,
   outcomes are final, no stuck state, close unblocks. *)
From GocqlV Require Import Lib.Base C01.Model C01.Spec C01.Proofs1 C01.Proofs2 C01.Proofs2b C01.Proofs2c.

Lemma dup_refused s c res s' :
  step s (AddCall c res) = Some s' ->
  (exists c0, In (sid (callers s c), c0) (calls s)) -> NoDup (map fst (calls s)) ->
  res <> 0 /\ calls s' = calls s.
Proof.
  intros H [c0 Hin] Hn. cbn [step] in H.
  destruct (ph (callers s c)); try discriminate.
  destruct (closed s).
  - destruct (Z.eqb_spec res 1); [|discriminate]. inversion H; subst. split; [lia|reflexivity].
  - rewrite (In_lookup _ _ _ Hn Hin) in H. destruct (Z.eqb_spec res 2); [|discriminate].
    inversion H; subst. split; [lia|reflexivity].
Qed.

(* ---- an outcome, once reached, is final ---------------------------------------------------------- *)

Lemma done_stable_step s l s' c o :
  Inv0 s -> step s l = Some s' -> ph (callers s c) = PDone o -> ph (callers s' c) = PDone o.
Proof.
  intros I0 Hs Hd. pose proof (k_closing s I0) as K8.
  step_cases Hs; simp_state; upd_cases; simp_state; try congruence.
  all: try (match goal with H : match ph ?x with _ => _ end = true |- _ => destruct (ph x) eqn:?; try discriminate H end); try congruence.
  all: try (match goal with K : forall c, _ <-> _, Hd : ph (callers _ ?c) = PDone _ |- _ =>
              let K' := fresh in destruct (K c) as [_ K']; rewrite K' in Hd by (reflexivity || assumption); discriminate end).
Qed.

Lemma done_stable s ls s' c o :
  Inv0 s -> run s ls = Some s' -> ph (callers s c) = PDone o -> ph (callers s' c) = PDone o.
Proof.
  revert s; induction ls as [|l ls IH]; intros s I0 Hr Hd; cbn in Hr.
  - inversion Hr; subst; exact Hd.
  - destruct (step s l) as [s1|] eqn:E; [|discriminate].
    apply (IH s1); eauto using inv0_step, done_stable_step.
Qed.

(* a caller identifier is used for one invocation of exec only *)
Lemma start_once s c s' : step s (Start c) = Some s' -> ph (callers s c) = PNone.
Proof. cbn [step]. destruct (ph (callers s c)); try discriminate. reflexivity. Qed.

Lemma not_none_stable_step s l s' c :
  step s l = Some s' -> ph (callers s c) <> PNone -> ph (callers s' c) <> PNone.
Proof.
  intros Hs Hd. step_cases Hs; simp_state; upd_cases; simp_state; try congruence; try discriminate.
Qed.

(* ---- progress ------------------------------------------------------------------------------------- *)

Ltac en := unfold enabled; cbn [step]; simp_state.

Lemma closer_progress s : Inv0 s -> closer s <> None -> closer_can_progress s.
Proof.
  intros I0 Hc. unfold closer_can_progress. destruct (todo s) as [|c0 td] eqn:Et.
  - en. destruct (closer s); [|congruence]. rewrite Et. discriminate.
  - intros c Hin. rewrite <- Et in Hin. pose proof (k_todo s I0 c Hin) as [Ht|Hw].
    + right; left. en. destruct (closer s); [|congruence].
      apply mem_In in Hin. rewrite Hin, Ht. discriminate.
    + unfold will_wait in Hw. destruct (ph (callers s c)) eqn:Ep; try discriminate.
      * right; right; left. en. rewrite Ep. discriminate.
      * right; right; right; left. en. rewrite Ep. discriminate.
      * right; right; right; right. en. rewrite Ep. destruct fatal; discriminate.
      * left. en. destruct (closer s); [|congruence]. rewrite Ep. apply mem_In in Hin. rewrite Hin. discriminate.
Qed.

Lemma caller_progress s c : Inv0 s -> caller_can_progress s c.
Proof.
  intros I0. unfold caller_can_progress. destruct (ph (callers s c)) eqn:Ep; auto.
  - en. rewrite Ep. discriminate.
  - destruct (closed s) eqn:Ec.
    + exists 1. en. rewrite Ep, Ec. discriminate.
    + destruct (lookup (sid (callers s c)) (calls s)) eqn:El.
      * exists 2. en. rewrite Ep, Ec, El. discriminate.
      * exists 0. en. rewrite Ep, Ec, El. discriminate.
  - en. rewrite Ep. discriminate.
  - en. rewrite Ep. discriminate.
  - en. rewrite Ep. destruct fatal; discriminate.
  - split; [en; rewrite Ep; discriminate|]. intros Hx. en. rewrite Ep, Hx. discriminate.
  - destruct r.
    + exists true. en. rewrite Ep. cbn. discriminate.
    + destruct opn.
      * exists true. en. rewrite Ep. cbn. discriminate.
      * exists false. en. rewrite Ep. cbn. rewrite (k_got s I0 c _ Ep). discriminate.
    + destruct opn.
      * exists true. en. rewrite Ep. cbn. discriminate.
      * exists false. en. rewrite Ep. cbn. rewrite (k_got s I0 c _ Ep). discriminate.
  - en. rewrite Ep. destruct (closed s); discriminate.
  - en. rewrite Ep. discriminate.
  - en. unfold at_close_site. rewrite Ep. cbn. destruct (closed s); discriminate.
  - apply (k_closing s I0) in Ep. split; [exact Ep|]. apply closer_progress; auto. congruence.
Qed.

Lemma receiver_progress s : Inv0 s -> receiver_can_progress s.
Proof.
  intros I0. unfold receiver_can_progress. destruct (rcv s) eqn:Er; auto.
  - en. rewrite Er. discriminate.
  - assert (Hh : rcv_has (rcv s) c) by (rewrite Er; reflexivity).
    destruct (k_rcv s I0 c Hh) as [[Ht|Hw] _].
    + right; left. en. rewrite Er, Z.eqb_refl, Ht. discriminate.
    + unfold will_wait in Hw. destruct (ph (callers s c)) eqn:Ep; try discriminate.
      * right; right; left. en. rewrite Ep. discriminate.
      * right; right; right; left. en. rewrite Ep. discriminate.
      * right; right; right; right. en. rewrite Ep. destruct fatal; discriminate.
      * left. en. rewrite Er, Ep, Z.eqb_refl. discriminate.
  - en. rewrite Er, Z.eqb_refl. discriminate.
  - en. unfold at_close_site. rewrite Er. cbn. destruct (closed s); discriminate.
  - apply (k_rclosing s I0) in Er. split; [exact Er|]. apply closer_progress; auto. congruence.
Qed.

Lemma close_unblocks s :
  Inv0 s -> closed s = true ->
  (closer s <> None /\ closer_can_progress s)
  \/ (cctx s = true /\ forall c, ph (callers s c) = PWait -> enabled s (ConnDone c)).
Proof.
  intros I0 Hc. destruct (closer s) eqn:Eo.
  - left. split; [discriminate|]. apply closer_progress; auto. congruence.
  - right. destruct (k_closed s I0 Hc) as [H|H]; [congruence|]. split; [exact H|].
    intros c Ep. en. rewrite Ep, H. discriminate.
Qed.
