(* C01/Corr.v -- event-log conformance (shared by C01 and C06).

   A case is the event log one real connection produced (the c.vConn trace points in conn.go, recorded
   by verif_conn_on.go) plus the allocator's in-use count observed at quiescence.  [check] replays the
   log through Model.step: every recorded action must be enabled in the model state reached so far, and
   at every trace point that holds c.mu the projected observables (number and sum of the keys of
   c.calls, c.closed) must equal the model's.  The server side is not in the log: the response frame
   the receiver found is synthesised (SrvAnswer) just before RecvHeader; likewise the cancellation of the
   context the connection was dialled with (ParentCancel: the session's context) is synthesised when a
   select is seen to take its connection-context branch before closeWithError has cancelled it.

   A rendezvous on call.resp is recorded by both sides (each after it happened); the label is applied
   at whichever record comes first and the other record is a confirmation ([conf]). *)
From GocqlV Require Import Lib.Base Gen.Consts C01.Model.

(* Kinds of the trace points: the numbers of /repo/verif_conn_kinds.go (vcAlloc ... vcFinishErr), typed in
   (tools/constgen skips verif_*.go files).  They are validated by every run of the harness: a log
   recorded with a different numbering does not replay (the first event of every log must be vcAlloc,
   a mutex-held kind must carry observations, ...). *)
Module EvK.
  Definition vcAlloc : Z := 1.
  Definition vcAddCall : Z := 2.
  Definition vcTmoClose : Z := 3.
  Definition vcDelCall : Z := 4.
  Definition vcRelease : Z := 5.
  Definition vcWriteBegin : Z := 6.
  Definition vcWriteEnd : Z := 7.
  Definition vcLookup : Z := 8.
  Definition vcBody : Z := 9.
  Definition vcDelivered : Z := 10.
  Definition vcSawTimeout : Z := 11.
  Definition vcRecvCtxDone : Z := 12.
  Definition vcCloseBegin : Z := 13.
  Definition vcCloseDelivered : Z := 14.
  Definition vcCloseSawTimeout : Z := 15.
  Definition vcCloseCancel : Z := 16.
  Definition vcServeExit : Z := 17.
  Definition vcGotResp : Z := 18.
  Definition vcFinishErr : Z := 19.
End EvK.

Inductive ev := E (k c a b n sm cl : Z).

(* one connection: NumStreams, its events, and (if qpos >= 0) the allocator's in-use count [fin] observed
   when the connection was quiescent and the log had exactly qpos events *)
Inductive log := L (nstr : Z) (evs : list ev) (qpos fin : Z).

(* one history: the logs of all connections of one session *)
Inductive case := CHist (logs : list log).

Record rst := mkRst {
  st : state;
  conf : list (Z * Z);      (* pending confirmations: (0,c) receiver's Delivered, (2,c) closer's CloseDelivered, (1,c) caller's GotResp *)
  known : list Z            (* caller ids seen so far *)
}.

Definition steps (s : state) (ls : list label) : option state := run s ls.

Fixpoint mem2 (k c : Z) (l : list (Z * Z)) : bool :=
  match l with [] => false | (k', c') :: l' => ((k' =? k) && (c' =? c)) || mem2 k c l' end.
Fixpoint rem2 (k c : Z) (l : list (Z * Z)) : list (Z * Z) :=
  match l with [] => [] | (k', c') :: l' => if (k' =? k) && (c' =? c) then l' else (k', c') :: rem2 k c l' end.

Definition sum_keys (l : list (Z * Z)) : Z := fold_right (fun p acc => fst p + acc) 0 l.

Definition obs_ok (s : state) (n sm cl : Z) : bool :=
  (Z.of_nat (length (calls s)) =? n) && (sum_keys (calls s) =? sm) && (Z.b2z (closed s) =? cl).

Definition is_pwfail (s : state) (c : Z) : bool := match ph (callers s c) with PWFail => true | _ => false end.

Definition pick_who (r : rst) (haserr : bool) : who :=
  if haserr then
    match filter (is_pwfail (st r)) (known r) with
    | c :: _ => WCaller c
    | [] => match rcv (st r) with RFail => WRecv | _ => WExt end
    end
  else WExt.

Definition upd_st (r : rst) (s : state) : rst := mkRst s (conf r) (known r).

Definition lift (r : rst) (o : option state) : option rst :=
  match o with Some s => Some (upd_st r s) | None => None end.

Definition lift_obs (r : rst) (o : option state) (n sm cl : Z) : option rst :=
  match o with Some s => if obs_ok s n sm cl then Some (upd_st r s) else None | None => None end.

Definition rcv_delivering (s : state) (c : Z) : bool :=
  match rcv s with RDeliver c' _ => c' =? c | _ => false end.

Definition replay1 (r : rst) (e : ev) : option rst :=
  let 'E k c a b n sm cl := e in
  let s := st r in
  if k =? EvK.vcAlloc then
    match steps s [Start c; Alloc c a] with
    | Some s' => Some (mkRst s' (conf r) (c :: known r))
    | None => None
    end
  else if k =? EvK.vcAddCall then lift_obs r (step s (AddCall c a)) n sm cl
  else if k =? EvK.vcTmoClose then
    if a =? 1 then lift r (step s (BuildFail c))
    else if a =? 2 then lift r (step s (WriteErrClose c))
    else if a =? 4 then lift r (step s (Timeout c))
    else if a =? 5 then lift r (step s (CtxDone c))
    else if a =? 6 then lift r (steps s (if cctx s then [ConnDone c] else [ParentCancel; ConnDone c]))
    else None
  else if k =? EvK.vcDelCall then lift_obs r (step s (DelCall c)) n sm cl
  else if k =? EvK.vcRelease then
    if negb (sid (callers s c) =? a) then None
    else match ph (callers s c) with
         | PAbortB _ => lift r (step s (Release c))
         | PGot _ _ => lift r (step s (Finish c true))
         | _ => lift r (step s (RecvRelease c))
         end
  else if k =? EvK.vcWriteBegin then lift r (step s (WriteBegin c))
  else if k =? EvK.vcWriteEnd then
    lift r (step s (WriteEnd c (if a =? 0 then WOk else if a =? 1 then WCtx0 else WFail)))
  else if k =? EvK.vcLookup then
    match steps s [SrvAnswer a c; RecvHeader] with
    | Some s' =>
        let shape := match rcv s' with
                     | RHave c' _ => (b =? 1) && (c' =? c)
                     | RIdle => b =? 0
                     | RFail => b =? 2
                     | _ => false
                     end in
        if shape && obs_ok s' n sm cl then Some (upd_st r s') else None
    | None => None
    end
  else if k =? EvK.vcBody then
    match rcv s with
    | RHave c' _ =>
        if c' =? c then
          lift r (step s (if a =? 0 then RecvBodyOk else RecvBodyErr (a =? 2)))
        else None
    | _ => None
    end
  else if k =? EvK.vcDelivered then
    if mem2 0 c (conf r) then Some (mkRst s (rem2 0 c (conf r)) (known r))
    else match step s (Deliver c) with
         | Some s' => Some (mkRst s' ((1, c) :: conf r) (known r))
         | None => None
         end
  else if k =? EvK.vcCloseDelivered then
    if mem2 2 c (conf r) then Some (mkRst s (rem2 2 c (conf r)) (known r))
    else match step s (CloseDeliver c) with
         | Some s' => Some (mkRst s' ((1, c) :: conf r) (known r))
         | None => None
         end
  else if k =? EvK.vcGotResp then
    let chk (s' : state) := match ph (callers s' c) with PGot rr _ => Bool.eqb (is_err rr) (a =? 1) | _ => false end in
    if mem2 1 c (conf r) then
      (if chk s then Some (mkRst s (rem2 1 c (conf r)) (known r)) else None)
    else if rcv_delivering s c then
      match step s (Deliver c) with
      | Some s' => if chk s' then Some (mkRst s' ((0, c) :: conf r) (known r)) else None
      | None => None
      end
    else
      match step s (CloseDeliver c) with
      | Some s' => if chk s' then Some (mkRst s' ((2, c) :: conf r) (known r)) else None
      | None => None
      end
  else if k =? EvK.vcFinishErr then
    match ph (callers s c) with
    | PGot _ _ => lift r (step s (Finish c false))
    | PDone (OResp rr) => if is_err rr then Some r else None
    | _ => None
    end
  else if k =? EvK.vcSawTimeout then lift r (step s (RecvSawTimeout c))
  else if k =? EvK.vcRecvCtxDone then
    (if rcv_delivering s c then lift r (steps s (if cctx s then [RecvCtxDone] else [ParentCancel; RecvCtxDone])) else None)
  else if k =? EvK.vcServeExit then
    match rcv s with
    | RIdle => lift r (step s RecvFail)
    | RFail => Some r
    | _ => None
    end
  else if k =? EvK.vcCloseBegin then
    let haserr := a =? 1 in
    if negb (Bool.eqb (closed s) (b =? 0)) then None
    else if (b =? 1) && negb (obs_ok (with_close s true None [] (calls s)) n sm cl) then None
    else if (b =? 0) && negb (obs_ok s n sm cl) then None
    else lift r (step s (CloseBegin (pick_who r haserr) haserr))
  else if k =? EvK.vcCloseSawTimeout then lift r (step s (CloseSawTimeout c))
  else if k =? EvK.vcCloseCancel then lift r (step s CloseCancel)
  else None.

(* at quiescence every caller has returned, so no caller-side record can be outstanding; a sender-side
   record (the receiver's / closer's "delivered", written after the rendezvous) may still lag *)
Definition quiescent_ok (r : rst) (fin : Z) : bool :=
  (Z.of_nat (length (held (st r))) =? fin) && forallb (fun p => negb (fst p =? 1)) (conf r).

(* index of the first event that does not replay (or, as position qpos, of a failed quiescence
   observation), or -1 *)
Fixpoint replay (r : rst) (evs : list ev) (i qpos fin : Z) : Z * rst :=
  if (i =? qpos) && negb (quiescent_ok r fin) then (i, r) else
  match evs with
  | [] => (-1, r)
  | e :: evs' =>
      match replay1 r e with
      | Some r' => replay r' evs' (i + 1) qpos fin
      | None => (i, r)
      end
  end.

Definition where_bad (l : log) : Z :=
  match l with L nstr evs qpos fin => fst (replay (mkRst (init nstr) [] []) evs 0 qpos fin) end.

Definition check_log (l : log) : bool := where_bad l =? -1.

Definition check (c : case) : bool := match c with CHist logs => forallb check_log logs end.

Definition run (cs : list case) : list N := mismatches check cs.
