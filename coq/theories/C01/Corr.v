(* C01/Corr.v -- event-log conformance (shared by C01 and C06).

   A case is the event log one real connection produced (the c.vConn trace points in conn.go, recorded
   by verif_conn_on.go) plus the allocator's in-use count observed at quiescence.  [check] replays the
   log through Model.step: every recorded action must be enabled in the model state reached so far, and
   at every trace point that holds c.mu the projected observables (the key set of c.calls, c.closed) must
   equal the model's; after every event the allocator's in-use count bounds the model's held set from
   above, and at quiescence equals it; finally every caller of the public API is found in the log by the
   request number it carried in its context, the model must have seen its exec return, with an outcome of
   the class the caller observed, and a response it was handed must carry its own request number.  The server side is not in the log: the response frame
   the receiver found is synthesised (SrvAnswer) just before RecvHeader; likewise the cancellation of the
   context the connection was dialled with (ParentCancel: the session's context) is synthesised when a
   select is seen to take its connection-context branch before closeWithError has cancelled it.

   A rendezvous on call.resp is recorded by both sides (each after it happened); the label is applied
   at whichever record comes first and the other record is a confirmation ([conf]). *)
From GocqlV Require Import Lib.Base Gen.Consts C01.Model.

(* Kinds of the trace points: the numbers of /repo/verif_conn_kinds.go (vcAlloc ... vcFinishErr), typed in
   (tools/constgen skips verif_*.go files).  They are validated by every run of the harness: a log
   recorded with a different numbering does not replay (the first event of every log must be vcAlloc,
   a mutex-held kind must carry observations, ...). *)
Module EvK.
  Definition vcAlloc : Z := 1.
  Definition vcAddCall : Z := 2.
  Definition vcTmoClose : Z := 3.
  Definition vcDelCall : Z := 4.
  Definition vcRelease : Z := 5.
  Definition vcWriteBegin : Z := 6.
  Definition vcWriteEnd : Z := 7.
  Definition vcLookup : Z := 8.
  Definition vcBody : Z := 9.
  Definition vcDelivered : Z := 10.
  Definition vcSawTimeout : Z := 11.
  Definition vcRecvCtxDone : Z := 12.
  Definition vcCloseBegin : Z := 13.
  Definition vcCloseDelivered : Z := 14.
  Definition vcCloseSawTimeout : Z := 15.
  Definition vcCloseCancel : Z := 16.
  Definition vcServeExit : Z := 17.
  Definition vcGotResp : Z := 18.
  Definition vcFinishErr : Z := 19.
End EvK.

(* one recorded trace point: kind, call serial, two arguments, then the observations: [cl] = c.closed (1/0)
   and [keys] = the sorted keys of c.calls, both only at trace points that hold c.mu (cl = -1 elsewhere), and
   [iu] = the allocator's in-use count read at the trace point, under the recorder's lock *)
Inductive ev :=
| E (k c a b cl iu : Z) (add rem : list Z)  (* a trace point that holds c.mu; the key set of c.calls is given
                                               as the difference to the previous such trace point of the log *)
| V (k c a b iu : Z).                        (* any other trace point *)

Definition ev_parts (e : ev) : Z * Z * Z * Z * Z * Z * list Z :=
  match e with E k c a b cl iu _ _ => (k, c, a, b, cl, iu, []) | V k c a b iu => (k, c, a, b, -1, iu, []) end.

(* the observed key set after e, given the one before *)
Definition keys_after (ok : list Z) (e : ev) : list Z :=
  match e with
  | E _ _ _ _ _ _ add rem => filter (fun k => negb (existsb (Z.eqb k) rem)) (add ++ ok)
  | V _ _ _ _ _ => ok
  end.

(* one connection: NumStreams, its events, and (if qpos >= 0) the allocator's in-use count [fin] observed
   when the connection was quiescent and the log had exactly qpos events *)
Inductive log := L (nstr : Z) (evs : list ev) (qpos fin : Z).

(* one history: the logs of all connections of one session *)
(* what one caller of the public API observed: its request number (carried to exec in the context and
   recorded with vcAlloc), its outcome class (0 ok, 1 error frame, 2 timeout, 3 context, 4 connection closed,
   5 no streams, 6 no connection, 7 body read error, 8 write/connection error, 9 other, 10 rows without the
   row, 11 response refused for its protocol version), and the request number found inside the response it was handed (-1: none) *)
Inductive result := R (tok cl seen : Z).

(* one history: the logs of all connections of one session, and what every caller got *)
Inductive case := CHist (logs : list log) (results : list result).

Record rst := mkRst {
  st : state;
  conf : list (Z * Z);      (* pending confirmations: (0,c) receiver's Delivered, (2,c) closer's CloseDelivered, (1,c) caller's GotResp *)
  known : list Z            (* caller ids seen so far *)
}.

Definition steps (s : state) (ls : list label) : option state := run s ls.

Fixpoint mem2 (k c : Z) (l : list (Z * Z)) : bool :=
  match l with [] => false | (k', c') :: l' => ((k' =? k) && (c' =? c)) || mem2 k c l' end.
Fixpoint rem2 (k c : Z) (l : list (Z * Z)) : list (Z * Z) :=
  match l with [] => [] | (k', c') :: l' => if (k' =? k) && (c' =? c) then l' else (k', c') :: rem2 k c l' end.

Definition sum_keys (l : list (Z * Z)) : Z := fold_right (fun p acc => fst p + acc) 0 l.

(* the key set of c.calls and the closed flag, exactly *)
Definition obs_ok (s : state) (keys : list Z) (cl : Z) : bool :=
  let mk := map fst (calls s) in
  (Nat.eqb (length mk) (length keys)) && forallb (fun k => existsb (Z.eqb k) mk) keys
  && (Z.b2z (closed s) =? cl).

Definition is_pwfail (s : state) (c : Z) : bool := match ph (callers s c) with PWFail => true | _ => false end.

Definition pick_who (r : rst) (haserr : bool) : who :=
  if haserr then
    match filter (is_pwfail (st r)) (known r) with
    | c :: _ => WCaller c
    | [] => match rcv (st r) with RFail => WRecv | _ => WExt end
    end
  else WExt.

Definition upd_st (r : rst) (s : state) : rst := mkRst s (conf r) (known r).

Definition lift (r : rst) (o : option state) : option rst :=
  match o with Some s => Some (upd_st r s) | None => None end.

Definition lift_obs (r : rst) (o : option state) (keys : list Z) (cl : Z) : option rst :=
  match o with Some s => if obs_ok s keys cl then Some (upd_st r s) else None | None => None end.

Definition rcv_delivering (s : state) (c : Z) : bool :=
  match rcv s with RDeliver c' _ => c' =? c | _ => false end.

Definition replay1 (r : rst) (e : ev) (keys : list Z) : option rst :=
  let '(k, c, a, b, cl, iu, _) := ev_parts e in
  let s := st r in
  if k =? EvK.vcAlloc then
    match steps s [Start c; Alloc c a] with
    | Some s' => Some (mkRst s' (conf r) (c :: known r))
    | None => None
    end
  else if k =? EvK.vcAddCall then lift_obs r (step s (AddCall c a)) keys cl
  else if k =? EvK.vcTmoClose then
    if a =? 1 then lift r (step s (BuildFail c))
    else if a =? 2 then lift r (step s (WriteErrClose c))
    else if a =? 4 then lift r (step s (Timeout c))
    else if a =? 5 then lift r (step s (CtxDone c))
    else if a =? 6 then lift r (steps s (if cctx s then [ConnDone c] else [ParentCancel; ConnDone c]))
    else None
  else if k =? EvK.vcDelCall then lift_obs r (step s (DelCall c)) keys cl
  else if k =? EvK.vcRelease then
    if negb (sid (callers s c) =? a) then None
    else match ph (callers s c) with
         | PAbortB _ => lift r (step s (Release c))
         | PGot _ _ => lift r (step s (Finish c true))
         | _ => lift r (step s (RecvRelease c))
         end
  else if k =? EvK.vcWriteBegin then lift r (step s (WriteBegin c))
  else if k =? EvK.vcWriteEnd then
    lift r (step s (WriteEnd c (if a =? 0 then WOk else if a =? 1 then WCtx0 else WFail)))
  else if k =? EvK.vcLookup then
    match steps s [SrvAnswer a c; RecvHeader] with
    | Some s' =>
        let shape := match rcv s' with
                     | RHave c' _ => (b =? 1) && (c' =? c)
                     | RIdle => b =? 0
                     | RFail => b =? 2
                     | _ => false
                     end in
        if shape && obs_ok s' keys cl then Some (upd_st r s') else None
    | None => None
    end
  else if k =? EvK.vcBody then
    match rcv s with
    | RHave c' _ =>
        if c' =? c then
          lift r (step s (if a =? 0 then RecvBodyOk else RecvBodyErr (a =? 2)))
        else None
    | _ => None
    end
  else if k =? EvK.vcDelivered then
    if mem2 0 c (conf r) then Some (mkRst s (rem2 0 c (conf r)) (known r))
    else match step s (Deliver c) with
         | Some s' => Some (mkRst s' ((1, c) :: conf r) (known r))
         | None => None
         end
  else if k =? EvK.vcCloseDelivered then
    if mem2 2 c (conf r) then Some (mkRst s (rem2 2 c (conf r)) (known r))
    else match step s (CloseDeliver c) with
         | Some s' => Some (mkRst s' ((1, c) :: conf r) (known r))
         | None => None
         end
  else if k =? EvK.vcGotResp then
    let chk (s' : state) := match ph (callers s' c) with PGot rr _ => Bool.eqb (is_err rr) (a =? 1) | _ => false end in
    if mem2 1 c (conf r) then
      (if chk s then Some (mkRst s (rem2 1 c (conf r)) (known r)) else None)
    else if rcv_delivering s c then
      match step s (Deliver c) with
      | Some s' => if chk s' then Some (mkRst s' ((0, c) :: conf r) (known r)) else None
      | None => None
      end
    else
      match step s (CloseDeliver c) with
      | Some s' => if chk s' then Some (mkRst s' ((2, c) :: conf r) (known r)) else None
      | None => None
      end
  else if k =? EvK.vcFinishErr then
    match ph (callers s c) with
    | PGot _ _ => lift r (step s (Finish c false))
    | PDone (OResp rr) => if is_err rr then Some r else None
    | _ => None
    end
  else if k =? EvK.vcSawTimeout then lift r (step s (RecvSawTimeout c))
  else if k =? EvK.vcRecvCtxDone then
    (if rcv_delivering s c then lift r (steps s (if cctx s then [RecvCtxDone] else [ParentCancel; RecvCtxDone])) else None)
  else if k =? EvK.vcServeExit then
    match rcv s with
    | RIdle => lift r (step s RecvFail)
    | RFail => Some r
    | _ => None
    end
  else if k =? EvK.vcCloseBegin then
    let haserr := a =? 1 in
    if negb (Bool.eqb (closed s) (b =? 0)) then None
    else if (b =? 1) && negb (obs_ok (with_close s true None [] (calls s)) keys cl) then None
    else if (b =? 0) && negb (obs_ok s keys cl) then None
    else lift r (step s (CloseBegin (pick_who r haserr) haserr))
  else if k =? EvK.vcCloseSawTimeout then lift r (step s (CloseSawTimeout c))
  else if k =? EvK.vcCloseCancel then lift r (step s CloseCancel)
  else None.

(* at quiescence every caller has returned, so no caller-side record can be outstanding; a sender-side
   record (the receiver's / closer's "delivered", written after the rendezvous) may still lag *)
Definition quiescent_ok (r : rst) (fin : Z) : bool :=
  (Z.of_nat (length (held (st r))) =? fin) && forallb (fun p => negb (fst p =? 1)) (conf r).

(* index of the first event that does not replay (or, as position qpos, of a failed quiescence
   observation), or -1.  After every event the allocator's count read at the trace point must be at least
   the model's: every logged Alloc has happened, every Clear that has happened was logged (Release is
   logged before it), and the count is read under the recorder's lock, so real >= logged allocs - logged
   releases = length held.  (The other direction holds only at quiescence: [fin].) *)
Fixpoint replay (r : rst) (ok : list Z) (evs : list ev) (i qpos fin : Z) : Z * rst :=
  if (i =? qpos) && negb (quiescent_ok r fin) then (i, r) else
  match evs with
  | [] => (-1, r)
  | e :: evs' =>
      let keys := keys_after ok e in
      match replay1 r e keys with
      | Some r' =>
          let '(_, _, _, _, _, iu, _) := ev_parts e in
          if iu <? Z.of_nat (length (held (st r'))) then (i, r) else replay r' keys evs' (i + 1) qpos fin
      | None => (i, r)
      end
  end.

Definition run_log (l : log) : Z * rst :=
  match l with L nstr evs qpos fin => replay (mkRst (init nstr) [] []) [] evs 0 qpos fin end.

Definition where_bad (l : log) : Z := fst (run_log l).

Definition check_log (l : log) : bool := where_bad l =? -1.

(* request number -> call serial, from the vcAlloc records *)
Fixpoint toks_of (evs : list ev) : list (Z * Z) :=
  match evs with
  | [] => []
  | e :: evs' =>
      let '(k, c, _, b, _, _, _) := ev_parts e in
      if (k =? EvK.vcAlloc) && negb (b =? 0) then (b, c) :: toks_of evs' else toks_of evs'
  end.

Definition memz (x : Z) (l : list Z) : bool := existsb (Z.eqb x) l.

(* the outcome the model reached for a call, against the class the caller of the public API observed *)
Definition class_ok (o : outcome) (cl : Z) : bool :=
  match o with
  | OResp (RTok _) => memz cl [0; 1; 10; 11]   (* 11: exec refused the frame: header of another protocol version *)
  | OResp (RBodyErr _) => memz cl [7; 8; 9]
  | OResp RCloseErr => memz cl [4; 7; 8; 9]
  | OTimeout => cl =? 2
  | OCtx | OWriteCtx => cl =? 3
  | OConnClosed => cl =? 4
  | OWriteErr => memz cl [4; 7; 8; 9]
  | OAddFail => memz cl [4; 9]
  | OBuildErr => negb (memz cl [0; 1; 10])
  | ORefused | ONoStreams => false          (* such an exec has no call and no record *)
  end.

Fixpoint find_call (tok : Z) (fs : list (state * list (Z * Z))) : option (state * Z) :=
  match fs with
  | [] => None
  | (s, tk) :: fs' => match lookup tok tk with Some c => Some (s, c) | None => find_call tok fs' end
  end.

Definition result_ok (fs : list (state * list (Z * Z))) (r : result) : bool :=
  let 'R tok cl seen := r in
  (* a response must carry the caller's own request number: the retained value is compared again here *)
  (if memz cl [0; 1] then seen =? tok else true)
  && match find_call tok fs with
     | None => memz cl [3; 5; 6]            (* exec was never entered, or returned before a call existed *)
     | Some (s, c) =>
         match ph (callers s c) with
         | PDone o => class_ok o cl
         | _ => false                       (* the caller has returned; the model must have seen it return *)
         end
     end.

Definition check (c : case) : bool :=
  match c with
  | CHist logs results =>
      let rs := map (fun l => (run_log l, match l with L _ evs _ _ => toks_of evs end)) logs in
      forallb (fun p => fst (fst p) =? -1) rs
      && forallb (result_ok (map (fun p => (st (snd (fst p)), snd p)) rs)) results
  end.

Definition run (cs : list case) : list N := mismatches check cs.
