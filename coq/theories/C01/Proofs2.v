(* C01/Proofs2.v -- the unconditional invariant Inv0 of the connection model (no hypothesis about the
   environment): the shape of c.calls, who can be in the closer's work list or in the receiver's hand,
   the bookkeeping of closeWithError.  Used by C01_dup_registration_refused and by C06's progress and
   exactly-once theorems. *)
From GocqlV Require Import Lib.Base C01.Model C01.Spec C01.Proofs1.

(* the caller is still going to reach the select, or has closed call.timeout *)
Definition will_wait (p : phase) : bool :=
  match p with PReg | PWriting | PWErr _ | PWait => true | _ => false end.
Definition w3 (ca : caller) : Prop := tmo ca = true \/ will_wait (ph ca) = true.

Record Inv0 (s : state) : Prop := mkInv0 {
  k_keys : NoDup (map fst (calls s));
  k_vals : NoDup (map snd (calls s));
  k_calls : forall id c, In (id, c) (calls s) -> w3 (callers s c);
  k_todo : forall c, In c (todo s) -> w3 (callers s c);
  k_rcv : forall c, rcv_has (rcv s) c -> w3 (callers s c) /\ ~ In c (map snd (calls s)) /\ ~ In c (todo s);
  k_rrel : forall c, rcv s = RRelease c -> tmo (callers s c) = true;
  k_todo_calls : todo s <> [] -> calls s = [];
  k_closing : forall c, ph (callers s c) = PClosing <-> closer s = Some (WCaller c);
  k_rclosing : rcv s = RClosing <-> closer s = Some WRecv;
  k_got : forall c r, ph (callers s c) = PGot r false -> closed s = true;
  k_closed : closed s = true -> closer s <> None \/ cctx s = true;
  k_closer : closer s <> None -> closed s = true;
  k_todo_closer : todo s <> [] -> closer s <> None;
  k_early : forall c, (ph (callers s c) = PNone \/ ph (callers s c) = PStart \/ ph (callers s c) = PAlloc) -> tmo (callers s c) = false
}.

Inductive mark (c : Z) : Prop := Mark.

Ltac rew_eqs :=
  repeat match goal with
  | E : rcv ?s = _ |- _ => progress (rewrite E in * )
  | E : closer ?s = _ |- _ => progress (rewrite E in * )
  | E : todo ?s = _ |- _ => progress (rewrite E in * )
  | E : calls ?s = _ |- _ => progress (rewrite E in * )
  | E : closed ?s = _ |- _ => progress (rewrite E in * )
  | E : cctx ?s = _ |- _ => progress (rewrite E in * )
  | E : ph (callers ?s ?c) = _ |- _ => progress (rewrite E in * )
  end.

Ltac use2 K := repeat match goal with H : In (?a, ?b) _ |- _ => first [ let T := fresh "U" in pose proof (K a b H) as T; revert H | fail 1 ] end; intros.
Ltac use1 K := repeat match goal with H : In ?a _ |- _ => first [ let T := fresh "U" in pose proof (K a H) as T; revert H | fail 1 ] end; intros.
Ltac fin := try solve [ cbn in *; intuition (try congruence; try discriminate) ].

Ltac callers_in_ctx tac :=
  repeat match goal with
  | _ : context [callers _ ?c] |- _ => lazymatch goal with _ : mark c |- _ => fail | _ => idtac end; tac c; assert (mark c) by constructor
  | |- context [callers _ ?c] => lazymatch goal with _ : mark c |- _ => fail | _ => idtac end; tac c; assert (mark c) by constructor
  end.

Ltac ph_match :=
  repeat match goal with
  | H : match ph ?x with _ => _ end = true |- _ => destruct (ph x) eqn:?; try discriminate H; clear H
  | H : match rcv ?x with _ => _ end = true |- _ => destruct (rcv x) eqn:?; try discriminate H; clear H
  end.

Ltac prep := intros; simp_state; ph_match; unfold w3, rcv_has in *; cbn [will_wait] in *; simp_state; upd_cases; simp_state; subst.

Ltac lists :=
  cbn [map fst snd] in *;
  repeat match goal with
  | H : In ?x ?l, N : ~ In ?x ?l |- _ => exfalso; exact (N H)
  | H : In _ (rem_key _ _) |- _ => apply In_rem_key in H; destruct H
  | H : In _ (map snd (rem_key _ _)) |- _ => apply In_map_rem_key_snd in H
  | H : In _ (map snd (calls _)) |- _ => apply in_map_iff in H; destruct H as [[? ?] [? H]]; cbn [fst snd] in *; subst
  | H : In _ (map fst (rem_key _ _)) |- _ => apply In_map_rem_key_fst in H; destruct H
  | H : In _ (rem _ _) |- _ => apply In_rem in H; destruct H
  | H : In _ (_ :: _) |- _ => destruct H as [H|H]; [try (inversion H; subst; clear H)|]
  | H : In _ [] |- _ => destruct H
  | H : lookup ?id ?l = Some ?c |- _ =>
      lazymatch goal with _ : In (id, c) l |- _ => fail | _ => pose proof (lookup_In _ _ _ H) end
  end.

Ltac in_vals :=
  repeat match goal with H : In (?a, ?b) ?l |- _ =>
    lazymatch goal with _ : In b (map snd l) |- _ => fail | _ => assert (In b (map snd l)) by (exact (in_map snd _ _ H)) end end.

Ltac todo_calls K7 :=
  try (match goal with H : In ?c (todo ?s) |- _ =>
         assert (calls s = []) by (apply K7; intros E; rewrite E in H; exact H) end).

Lemma keys_step s l s' : step s l = Some s' -> NoDup (map fst (calls s)) -> NoDup (map fst (calls s')).
Proof.
  intros H Hk. step_cases H; simp_state; auto; try (apply NoDup_rem_key_fst; assumption); try constructor; auto.
  apply lookup_None; assumption.
Qed.

Lemma vals_unique (l : list (Z * Z)) k1 k2 c : NoDup (map snd l) -> In (k1, c) l -> In (k2, c) l -> k1 = k2.
Proof.
  induction l as [|[k v] l IH]; cbn; [tauto|]. intros Hn [H1|H1] [H2|H2]; inversion Hn; subst.
  - congruence.
  - inversion H1; subst. exfalso. apply H3. apply (in_map snd) in H2. exact H2.
  - inversion H2; subst. exfalso. apply H3. apply (in_map snd) in H1. exact H1.
  - auto.
Qed.

Lemma rem_key_lookup_notin (l : list (Z * Z)) id c : NoDup (map snd l) -> lookup id l = Some c -> ~ In c (map snd (rem_key id l)).
Proof.
  intros Hn Hl Hin. apply lookup_In in Hl. apply in_map_iff in Hin. destruct Hin as [[k v] [E Hin]]. cbn in E; subst.
  apply In_rem_key in Hin. destruct Hin as [Hin Hne]. cbn in Hne. apply Hne. eapply vals_unique; eauto.
Qed.

Section step.
Variables (s s' : state) (l : label).
Hypothesis (I0 : Inv0 s) (Hs : step s l = Some s').

Ltac start :=
  let H := fresh "H" in pose proof Hs as H; clear Hs; step_cases H; simp_state.

(* [extra] poses the lemma-specific facts; the base set is what most cases need *)
Ltac sat_ extra :=
  repeat match goal with |- _ /\ _ => split | |- ~ _ => intro | |- _ <-> _ => split; intro end;
  lists; in_vals; use2 (k_calls s I0); use1 (k_todo s I0);
  callers_in_ctx ltac:(fun c => pose proof (k_rcv s I0 c); pose proof (k_closing s I0 c); pose proof (k_early s I0 c));
  try (match goal with H : In ?c (todo s) |- _ =>
         assert (calls s = []) by (apply (k_todo_calls s I0); intros E; rewrite E in H; exact H) end);
  extra;
  unfold w3, rcv_has in *; rew_eqs;
  repeat match goal with H : ?A <-> ?x = ?x |- _ => let T := fresh in assert (T : A) by (apply H; reflexivity); clear H end;
  rew_eqs; clear I0; fin.
Ltac sat := sat_ idtac.

Lemma vals_step : NoDup (map snd (calls s')).
Proof.
  start; auto; try (apply (k_vals s I0)); try (apply NoDup_rem_key_snd; apply (k_vals s I0)); try constructor; auto; try (apply (k_vals s I0)).
  intros Hin. apply in_map_iff in Hin. destruct Hin as [[id c'] [E Hin]]. cbn in E; subst.
  apply (k_calls s I0) in Hin. assert (T := k_early s I0 c (or_intror (or_intror Heqp))). unfold w3 in Hin. rewrite Heqp, T in Hin.
  cbn in Hin. intuition discriminate.
Qed.

Lemma calls_step_w3 : forall id c, In (id, c) (calls s') -> w3 (callers s' c).
Proof. start; prep; sat. Qed.

Lemma todo_step_w3 : forall c, In c (todo s') -> w3 (callers s' c).
Proof. start; prep; sat. Qed.

End step.
