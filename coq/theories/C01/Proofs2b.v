(* C01/Proofs2b.v -- Inv0, continued: what the receiver has in hand. *)
From GocqlV Require Import Lib.Base C01.Model C01.Spec C01.Proofs1 C01.Proofs2.

Section step.
Variables (s s' : state) (l : label).
Hypothesis (I0 : Inv0 s) (Hs : step s l = Some s').

Ltac start :=
  let H := fresh "H" in pose proof Hs as H; clear Hs; step_cases H; simp_state.

Ltac sat_ extra :=
  repeat match goal with |- _ /\ _ => split | |- ~ _ => intro | |- _ <-> _ => split; intro end;
  lists; in_vals; use2 (k_calls s I0); use1 (k_todo s I0);
  callers_in_ctx ltac:(fun c => pose proof (k_rcv s I0 c); pose proof (k_closing s I0 c); pose proof (k_early s I0 c));
  try (match goal with H : In ?c (todo s) |- _ =>
         assert (calls s = []) by (apply (k_todo_calls s I0); intros E; rewrite E in H; exact H) end);
  extra;
  unfold w3, rcv_has in *; rew_eqs;
  repeat match goal with H : ?A <-> ?x = ?x |- _ => let T := fresh in assert (T : A) by (apply H; reflexivity); clear H end;
  rew_eqs; clear I0; fin.
Ltac sat := sat_ idtac.

Lemma rcv_step : forall c, rcv_has (rcv s') c -> w3 (callers s' c) /\ ~ In c (map snd (calls s')) /\ ~ In c (todo s').
Proof.
  start; prep.
  all: try (match goal with H : lookup ?z (calls s) = Some ?c |- _ =>
        pose proof (rem_key_lookup_notin _ _ _ (k_vals s I0) H);
        assert (todo s = []) by (destruct (todo s) eqn:Et; [reflexivity|];
           assert (Hc : calls s = []) by (apply (k_todo_calls s I0); rewrite Et; discriminate); rewrite Hc in H; discriminate) end).
  all: sat.
Qed.
End step.
