(* C01/Spec.v -- what the properties C01 and C06 say, as predicates on states and label lists of the
   connection model.  Written from the property texts (and the environment's contract: what an honest
   Cassandra node and a byte stream do), not from conn.go.

   The environment is the set of labels SrvAnswer / RecvBodyErr / RecvFail / Timeout / CtxDone /
   ParentCancel / CloseBegin WExt; hypotheses about it are predicates on the label list of a run. *)
From GocqlV Require Import Lib.Base C01.Model.

(* ---- hypotheses about the environment ---------------------------------------------------------- *)

(* what one step may assume: an honest server answers only a request it has received completely and has
   not answered yet, with that request's stream id and content *)
Definition lok (s : state) (l : label) : Prop :=
  match l with
  | SrvAnswer id t => In (id, t) (srv s)
  | _ => True
  end.

(* the whole run satisfies lok step by step *)
Fixpoint env_ok (s : state) (ls : list label) : Prop :=
  match ls with
  | [] => True
  | l :: ls' => lok s l /\ match step s l with Some s' => env_ok s' ls' | None => True end
  end.

(* the same, spelled out: this is the hypothesis the theorems carry *)
Fixpoint honest (s : state) (ls : list label) : Prop :=
  match ls with
  | [] => True
  | l :: ls' => (match l with SrvAnswer id t => In (id, t) (srv s) | _ => True end)
                /\ match step s l with Some s' => honest s' ls' | None => True end
  end.

(* ---- vocabulary of the statements ---------------------------------------------------------------- *)

Definition enabled (s : state) (l : label) : Prop := step s l <> None.

(* the caller holds a stream id: one was reserved for it and has not been given back *)
Definition holds (ca : caller) : Prop := 0 < sid ca /\ released ca = false.

(* the content a caller was handed (in hand, or returned with it) *)
Definition handed (ca : caller) (t : Z) : Prop :=
  match ph ca with
  | PGot (RTok t') _ | PGot (RBodyErr t') _ | PDone (OResp (RTok t')) | PDone (OResp (RBodyErr t')) => t' = t
  | _ => False
  end.

(* a response for request t on stream id is still due or under way: the request is at the server, or the
   response is on the wire, or the receiver is in the middle of it *)
Definition rtok (r : rstate) : list Z :=
  match r with
  | RHave _ t => [t]
  | RDeliver _ (RTok t) => [t]
  | RDeliver _ (RBodyErr t) => [t]
  | _ => []
  end.

Definition answer_due (s : state) (id t : Z) : Prop :=
  In (id, t) (srv s) \/ In (id, t) (s2c s) \/ (In t (rtok (rcv s)) /\ sid (callers s t) = id).

(* the label gives a stream id back to the allocator, on behalf of caller c *)
Definition releases (l : label) : option Z :=
  match l with
  | Release c => Some c
  | Finish c true => Some c
  | RecvRelease c => Some c
  | _ => None
  end.

(* phases in which exec has not returned yet *)
Definition active (p : phase) : Prop :=
  match p with PNone | PDone _ => False | _ => True end.

(* the receiver has call c in hand *)
Definition rcv_has (r : rstate) (c : Z) : Prop :=
  match r with
  | RHave c' _ | RDeliver c' _ | RRelease c' => c' = c
  | _ => False
  end.

(* the receiving goroutine has stopped (or is about to close the connection) *)
Definition rcv_dead (r : rstate) : Prop :=
  match r with RFail | RClosing | RGone => True | _ => False end.

Definition wait_exit (o : outcome) : Prop :=
  match o with OTimeout | OCtx | OConnClosed => True | _ => False end.

(* ---- progress vocabulary (C06) --------------------------------------------------------------------- *)

(* the thread inside closeWithError can take its next step, or the caller it is waiting for can *)
Definition closer_can_progress (s : state) : Prop :=
  match todo s with
  | [] => enabled s CloseCancel
  | _ => forall c, In c (todo s) ->
           enabled s (CloseDeliver c) \/ enabled s (CloseSawTimeout c)
           \/ enabled s (WriteBegin c) \/ enabled s (WriteEnd c WOk) \/ enabled s (WriteErrClose c)
  end.

Definition caller_can_progress (s : state) (c : Z) : Prop :=
  match ph (callers s c) with
  | PNone | PDone _ => True
  | PStart => enabled s (AllocFail c)
  | PAlloc => exists res, enabled s (AddCall c res)
  | PReg => enabled s (WriteBegin c)
  | PWriting => enabled s (WriteEnd c WOk)                 (* the underlying Write returns *)
  | PWErr _ => enabled s (WriteErrClose c)
  | PWait => enabled s (Timeout c) /\ (cctx s = true -> enabled s (ConnDone c))
  | PGot _ _ => exists rel, enabled s (Finish c rel)
  | PAbortA _ => enabled s (DelCall c)
  | PAbortB _ => enabled s (Release c)
  | PWFail => enabled s (CloseBegin (WCaller c) true)
  | PClosing => closer s = Some (WCaller c) /\ closer_can_progress s
  end.

Definition receiver_can_progress (s : state) : Prop :=
  match rcv s with
  | RIdle | RGone => True                                   (* waiting for bytes / finished *)
  | RHave _ _ => enabled s RecvBodyOk
  | RDeliver c _ => enabled s (Deliver c) \/ enabled s (RecvSawTimeout c)
                    \/ enabled s (WriteBegin c) \/ enabled s (WriteEnd c WOk) \/ enabled s (WriteErrClose c)
  | RRelease c => enabled s (RecvRelease c)
  | RFail => enabled s (CloseBegin WRecv true)
  | RClosing => closer s = Some WRecv /\ closer_can_progress s
  end.
