(* C07/Refuted.v -- full statements of the property that the faithful model (= the code) violates,
   with machine-checked witnesses.  These are the known findings F-C07-1 and F-C07-2. *)
From GocqlV Require Import Lib.Base C07.Model C07.Spec C07.Proofs1.
Local Open Scope nat_scope.

(* a consequence of the wire shape that is easy to test on a concrete wire: a frame of which only a
   proper, non-empty part is on the wire owns the last byte of the wire *)
Lemma bytes_of_whole_notin fr t ts : ~ In t ts -> bytes_of t (whole fr ts) = [].
Proof.
  induction ts as [|t' ts IH]; intros H; simpl in *; [reflexivity|].
  assert (t <> t') by (intros ->; apply H; auto).
  rewrite bytes_of_app, bytes_of_tag_other by assumption. simpl. apply IH. tauto.
Qed.

Lemma bytes_of_whole_in fr t ts : NoDup ts -> In t ts -> bytes_of t (whole fr ts) = fr t.
Proof.
  induction ts as [|t' ts IH]; intros Hnd Hin; simpl in *; [tauto|]. inversion Hnd; subst.
  rewrite bytes_of_app. destruct Hin as [->|Hin].
  - rewrite bytes_of_tag_same, bytes_of_whole_notin by assumption. apply app_nil_r.
  - assert (t <> t') by (intros ->; auto). rewrite bytes_of_tag_other by assumption. simpl. auto.
Qed.

Lemma wire_shape_torn_last fr w t :
  wire_shape fr w -> 0 < length (bytes_of t w) < length (fr t) -> exists w' x, w = w' ++ [(t, x)].
Proof.
  intros [ts [tl [Hw [Hnd Htl]]]] Hlen. subst w. rewrite bytes_of_app in Hlen.
  destruct (in_dec Nat.eq_dec t ts) as [Hin|Hnin].
  - exfalso. rewrite bytes_of_whole_in in Hlen by assumption.
    destruct Htl as [->|[t' [c [Hn' [Hc ->]]]]]; [simpl in Hlen; rewrite app_nil_r in Hlen; lia|].
    assert (t <> t') by (intros ->; auto). rewrite bytes_of_tag_other in Hlen by assumption.
    rewrite app_nil_r in Hlen. lia.
  - rewrite bytes_of_whole_notin in Hlen by assumption. simpl in Hlen.
    destruct Htl as [->|[t' [c [Hn' [Hc ->]]]]]; [simpl in Hlen; lia|].
    destruct (Nat.eq_dec t t') as [<-|Hne]; [|rewrite bytes_of_tag_other in Hlen by assumption; simpl in Hlen; lia].
    assert (Hne : firstn c (fr t) <> []).
    { intros Hx. apply (f_equal (@length Z)) in Hx. rewrite firstn_length in Hx. simpl in Hx. lia. }
    destruct (exists_last Hne) as [l' [x Hl]]. rewrite Hl. exists (whole fr ts ++ tag t l'), x.
    rewrite tag_app, app_assoc. reflexivity.
Qed.

(* ---------------------------------------------------------------------------------------------- *)
(* F-C07-1, direct writer.  Request 0 (frame 10 11 12) gets the semaphore, request 1 (frame 20 21) is
   registered and waits.  Request 0's Write accepts one byte and fails; the semaphore is released; request 1
   acquires it and writes its whole frame -- before request 0's exec has reached closeWithError. *)

Definition f1_direct : list dlabel :=
  [DCall [10; 11; 12]%Z; DCall [20; 21]%Z; DAcquire 0; DStartWrite 0 None; DChunk 0 1; DWriteRet 0 (Some (EOther 5));
   DAcquire 1; DStartWrite 1 None; DChunk 1 2; DWriteRet 1 None].

(* "after a partial write no further frame is written on that connection": refuted *)
Theorem C07_direct_nothing_after_partial_refuted :
  exists ls1 ls2 s1 s2,
    drun true d_init ls1 = Some s1 /\ d_torn s1 = true /\ d_broken s1 = false /\
    drun true s1 ls2 = Some s2 /\ d_broken s2 = false /\ d_wire s2 <> d_wire s1.
Proof.
  exists (firstn 6 f1_direct), (skipn 6 f1_direct).
  eexists. eexists. split; [vm_compute; reflexivity|]. split; [reflexivity|]. split; [reflexivity|].
  split; [vm_compute; reflexivity|]. split; [reflexivity|]. vm_compute. discriminate.
Qed.

(* "the stream is whole frames possibly followed by one incomplete frame": refuted in the same run, with a
   connection that honoured the io.Writer contract *)
Theorem C07_direct_wire_shape_refuted :
  exists ls s, drun true d_init ls = Some s /\ d_broken s = false /\
               ~ wire_shape (frame_of (d_thr s)) (d_wire s).
Proof.
  exists f1_direct. eexists. split; [vm_compute; reflexivity|]. split; [reflexivity|].
  intros Hs. apply (wire_shape_torn_last _ _ 0) in Hs; [|vm_compute; lia].
  destruct Hs as [w' [x Hx]]. vm_compute in Hx.
  apply (f_equal (@rev (nat * Z))) in Hx. rewrite rev_app_distr in Hx. simpl in Hx. discriminate.
Qed.

(* F-C07-1, coalescer.  Request 0 is flushed alone and torn; request 1, registered before, is received by the
   flusher afterwards and flushed whole. *)
Definition f1_coal : list clabel :=
  [CCall [10; 11; 12]%Z; CCall [20; 21]%Z; CEnqueue 0; FTimer; FStartWrite None; FChunk 1; FWriteRet (Some (EOther 5));
   CEnqueue 1; FTimer; FStartWrite None; FChunk 2; FWriteRet None].

Theorem C07_coal_nothing_after_partial_refuted :
  exists ls1 ls2 s1 s2,
    crun true c_init ls1 = Some s1 /\ c_torn s1 = true /\ c_broken s1 = false /\
    crun true s1 ls2 = Some s2 /\ c_broken s2 = false /\ c_wire s2 <> c_wire s1.
Proof.
  exists (firstn 7 f1_coal), (skipn 7 f1_coal).
  eexists. eexists. split; [vm_compute; reflexivity|]. split; [reflexivity|]. split; [reflexivity|].
  split; [vm_compute; reflexivity|]. split; [reflexivity|]. vm_compute. discriminate.
Qed.

Theorem C07_coal_wire_shape_refuted :
  exists ls s, crun true c_init ls = Some s /\ c_broken s = false /\
               ~ wire_shape (frame_of (c_thr s)) (c_wire s).
Proof.
  exists f1_coal. eexists. split; [vm_compute; reflexivity|]. split; [reflexivity|].
  intros Hs. apply (wire_shape_torn_last _ _ 0) in Hs; [|vm_compute; lia].
  destruct Hs as [w' [x Hx]]. vm_compute in Hx.
  apply (f_equal (@rev (nat * Z))) in Hx. rewrite rev_app_distr in Hx. simpl in Hx. discriminate.
Qed.

(* ---------------------------------------------------------------------------------------------- *)
(* F-C07-2.  "A request whose context ended before writing began leaves no bytes": the select may take the
   semaphore / writeCh branch although ctx.Done() is ready. *)

Theorem C07_direct_ctx_done_leaves_nothing_refuted :
  exists ls1 ls2 s1 s t,
    drun true d_init ls1 = Some s1 /\ pc_of (d_thr s1) t = Some PSelect /\
    drun true s1 (DCtxDone t :: ls2) = Some s /\ bytes_of t (d_wire s) <> [].
Proof.
  exists [DCall [10; 11]%Z], [DAcquire 0; DStartWrite 0 None; DChunk 0 2; DWriteRet 0 None].
  eexists. eexists. exists 0. split; [vm_compute; reflexivity|]. split; [reflexivity|].
  split; [vm_compute; reflexivity|]. vm_compute. discriminate.
Qed.

Theorem C07_coal_ctx_done_leaves_nothing_refuted :
  exists ls1 ls2 s1 s t,
    crun true c_init ls1 = Some s1 /\ pc_of (c_thr s1) t = Some PSelect /\
    crun true s1 (CCtxDone t :: ls2) = Some s /\ bytes_of t (c_wire s) <> [].
Proof.
  exists [CCall [10; 11]%Z], [CEnqueue 0; FTimer; FStartWrite None; FChunk 2; FWriteRet None].
  eexists. eexists. exists 0. split; [vm_compute; reflexivity|]. split; [reflexivity|].
  split; [vm_compute; reflexivity|]. vm_compute. discriminate.
Qed.
