(* C07/Refuted.v -- what is left to refute after the fixes of F-C07-1 and F-C07-2, and regression facts.

   Both findings are fixed in /repo (both writers remember a torn Write and refuse later writes; both re-check
   ctx.Err() after the select), the model follows the repaired code, and the statements that used to be refuted
   here are theorems of Props.v now (C07_*_nothing_after_partial, C07_direct_wire_shape without hypothesis,
   C07_*_ctx_done_leaves_nothing).  The schedules that were the witnesses are kept as regression examples: the
   repaired model refuses the second writer.

   The one remaining hypothesis about the environment - the connection honours the io.Writer contract - is
   necessary for the coalescer's wire shape (net.Buffers.WriteTo goes on with the next buffer after a short
   count with a nil error); that is shown here.  It is a fact about the standard library and a misbehaving
   connection, not a defect of the driver. *)
From GocqlV Require Import Lib.Base C07.Model C07.Spec C07.Proofs1.
Local Open Scope nat_scope.

(* a consequence of the wire shape that is easy to test on a concrete wire: a frame of which only a
   proper, non-empty part is on the wire owns the last byte of the wire *)
Lemma bytes_of_whole_notin fr t ts : ~ In t ts -> bytes_of t (whole fr ts) = [].
Proof.
  induction ts as [|t' ts IH]; intros H; simpl in *; [reflexivity|].
  assert (t <> t') by (intros ->; apply H; auto).
  rewrite bytes_of_app, bytes_of_tag_other by assumption. simpl. apply IH. tauto.
Qed.

Lemma bytes_of_whole_in fr t ts : NoDup ts -> In t ts -> bytes_of t (whole fr ts) = fr t.
Proof.
  induction ts as [|t' ts IH]; intros Hnd Hin; simpl in *; [tauto|]. inversion Hnd; subst.
  rewrite bytes_of_app. destruct Hin as [->|Hin].
  - rewrite bytes_of_tag_same, bytes_of_whole_notin by assumption. apply app_nil_r.
  - assert (t <> t') by (intros ->; auto). rewrite bytes_of_tag_other by assumption. simpl. auto.
Qed.

Lemma wire_shape_torn_last fr w t :
  wire_shape fr w -> 0 < length (bytes_of t w) < length (fr t) -> exists w' x, w = w' ++ [(t, x)].
Proof.
  intros [ts [tl [Hw [Hnd Htl]]]] Hlen. subst w. rewrite bytes_of_app in Hlen.
  destruct (in_dec Nat.eq_dec t ts) as [Hin|Hnin].
  - exfalso. rewrite bytes_of_whole_in in Hlen by assumption.
    destruct Htl as [->|[t' [c [Hn' [Hc ->]]]]]; [simpl in Hlen; rewrite app_nil_r in Hlen; lia|].
    assert (t <> t') by (intros ->; auto). rewrite bytes_of_tag_other in Hlen by assumption.
    rewrite app_nil_r in Hlen. lia.
  - rewrite bytes_of_whole_notin in Hlen by assumption. simpl in Hlen.
    destruct Htl as [->|[t' [c [Hn' [Hc ->]]]]]; [simpl in Hlen; lia|].
    destruct (Nat.eq_dec t t') as [<-|Hne]; [|rewrite bytes_of_tag_other in Hlen by assumption; simpl in Hlen; lia].
    assert (Hne : firstn c (fr t) <> []).
    { intros Hx. apply (f_equal (@length Z)) in Hx. rewrite firstn_length in Hx. simpl in Hx. lia. }
    destruct (exists_last Hne) as [l' [x Hl]]. rewrite Hl. exists (whole fr ts ++ tag t l'), x.
    rewrite tag_app, app_assoc. reflexivity.
Qed.

(* ---------------------------------------------------------------------------------------------- *)
(* regression: the former witnesses of F-C07-1 *)

(* direct writer: request 0's Write is torn after one byte; request 1, already registered, gets the semaphore and
   is refused with request 0's error; nothing of it is written *)
Example C07_direct_after_partial_refused :
  exists s, drun true d_init
      [DCall [10; 11; 12]%Z; DCall [20; 21]%Z; DAcquire 0; DStartWrite 0 None; DChunk 0 1; DWriteRet 0 (Some (EOther 5));
       DAcquire 1] = Some s
    /\ result_of (d_thr s) 1 = Some (0, Some (EOther 5)) /\ map snd (d_wire s) = [10%Z]
    /\ dstep true s (DStartWrite 1 None) = None.
Proof. eexists. split; [vm_compute; reflexivity|]. repeat split. Qed.

(* coalescer: request 1 is received by the flusher after the torn flush and answered at once *)
Example C07_coal_after_partial_refused :
  exists s, crun true c_init
      [CCall [10; 11; 12]%Z; CCall [20; 21]%Z; CEnqueue 0; FTimer; FStartWrite None; FChunk 1; FWriteRet (Some (EOther 5));
       CEnqueue 1] = Some s
    /\ result_of (c_thr s) 1 = Some (0, Some (EOther 5)) /\ map snd (c_wire s) = [10%Z]
    /\ cstep true s FTimer = None.
Proof. eexists. split; [vm_compute; reflexivity|]. repeat split. Qed.

(* regression: the former witnesses of F-C07-2: the request whose context is done gets ctx.Err() and writes nothing *)
Example C07_direct_ctx_done_refused :
  exists s, drun true d_init [DCall [10; 11]%Z; DCtxDone 0 ECanceled; DAcquire 0] = Some s
    /\ result_of (d_thr s) 0 = Some (0, Some ECanceled) /\ d_wire s = [] /\ d_sem s = None.
Proof. eexists. split; [vm_compute; reflexivity|]. repeat split. Qed.

Example C07_coal_ctx_done_refused :
  exists s, crun true c_init [CCall [10; 11]%Z; CCtxDone 0 EDeadlineExceeded; CEnqueue 0] = Some s
    /\ result_of (c_thr s) 0 = Some (0, Some EDeadlineExceeded) /\ c_wire s = [] /\ c_queue s = [].
Proof. eexists. split; [vm_compute; reflexivity|]. repeat split. Qed.

(* ---------------------------------------------------------------------------------------------- *)
(* the io.Writer contract is needed for the coalescer's wire shape: a connection that returns a short count with a
   nil error makes WriteTo write the next buffer behind the torn one *)

Theorem C07_coal_wire_shape_without_contract_refuted :
  exists ls s, crun true c_init ls = Some s /\ c_broken s = true /\
               ~ wire_shape (frame_of (c_thr s)) (c_wire s).
Proof.
  exists [CCall [10; 11; 12]%Z; CCall [20; 21]%Z; CEnqueue 0; CEnqueue 1; FTimer; FStartWrite None;
          FChunk 1; FWriteRet None; FChunk 2; FWriteRet None].
  eexists. split; [vm_compute; reflexivity|]. split; [reflexivity|].
  intros Hs. apply (wire_shape_torn_last _ _ 0) in Hs; [|vm_compute; lia].
  destruct Hs as [w' [x Hx]]. vm_compute in Hx.
  apply (f_equal (@rev (nat * Z))) in Hx. rewrite rev_app_distr in Hx. simpl in Hx. discriminate.
Qed.
