(* C07/Corr.v -- correspondence cases.  The harness runs the real writers (deadlineContextWriter,
   writeCoalescer, flush) over an in-memory connection with a scripted write behaviour and records, per
   scenario, the inputs (frames, fault script, which contexts were cancelled), the order in which the
   writers got to the connection (the only timing-dependent datum; read off the recorded Write calls)
   and what came out (per-request (n, err), the bytes the connection accepted, the Write calls).
   [check] replays the scenario through the transition systems of Model.v, with the connection played
   by the script model below, and compares everything observable. *)
From GocqlV Require Import Lib.Base C07.Model.
Local Open Scope nat_scope.

(* ---- the scripted connection of the harness (gocqlverif/node pipe + the harness's wrapper) ---- *)

Inductive fkind :=
| FkErr (code : Z)      (* one-shot: accept the bytes before the offset, return (k, error code) *)
| FkNil                 (* one-shot: short count with a nil error (io.Writer contract broken on purpose) *)
| FkSticky (code : Z).  (* as FkErr, and every later Write returns (0, error code) *)

Record env := mkE {
  e_off : nat;                       (* absolute offset of the next byte *)
  e_faults : list (nat * fkind);     (* sorted by offset *)
  e_sticky : option err;
  e_dlcalls : nat;                   (* SetWriteDeadline calls so far *)
  e_dlfail : list (nat * Z)          (* (ordinal, code): that SetWriteDeadline call fails *)
}.

Definition pipe_write (ev : env) (len : nat) : nat * option err * env :=
  match e_sticky ev with
  | Some er => (0, Some er, ev)
  | None =>
      match e_faults ev with
      | (o, k) :: fs =>
          if (o <? e_off ev + len) || (o <=? e_off ev) then
            let n := o - e_off ev in
            let er := match k with FkErr c | FkSticky c => Some (EOther c) | FkNil => None end in
            let st := match k with FkSticky c => Some (EOther c) | _ => None end in
            (n, er, mkE (e_off ev + n) fs st (e_dlcalls ev) (e_dlfail ev))
          else (len, None, mkE (e_off ev + len) (e_faults ev) None (e_dlcalls ev) (e_dlfail ev))
      | [] => (len, None, mkE (e_off ev + len) [] None (e_dlcalls ev) (e_dlfail ev))
      end
  end.

Fixpoint lookup_code (k : nat) (l : list (nat * Z)) : option Z :=
  match l with
  | [] => None
  | (i, c) :: l' => if i =? k then Some c else lookup_code k l'
  end.

Definition dl_call (has_to : bool) (ev : env) : option err * env :=
  if has_to then
    (option_map EOther (lookup_code (e_dlcalls ev) (e_dlfail ev)),
     mkE (e_off ev) (e_faults ev) (e_sticky ev) (S (e_dlcalls ev)) (e_dlfail ev))
  else (None, ev).

Definition bind {A B} (o : option A) (f : A -> option B) : option B :=
  match o with Some a => f a | None => None end.

(* ---- direct writer scenarios ---- *)

Inductive dev :=
| VCtx (t : Z) (e : err)      (* request t left the select through ctx.Done() *)
| VQuit (t : Z)               (* ... through quit *)
| VWrite (t : Z).             (* request t got the semaphore next *)

Definition drive_dwrite (has_to : bool) (s : dstate) (ev : env) (t : nat) : option (dstate * env) :=
  bind (dstep has_to s (DAcquire t)) (fun s1 =>
  match pc_of (d_thr s1) t with
  | Some PHold =>
  let '(dl, ev1) := dl_call has_to ev in
  match dl with
  | Some e => bind (dstep has_to s1 (DStartWrite t (Some e))) (fun s2 => Some (s2, ev1))
  | None =>
      bind (dstep has_to s1 (DStartWrite t None)) (fun s2 =>
      let '(n, e, ev2) := pipe_write ev1 (length (frame_of (d_thr s2) t)) in
      bind (dstep has_to s2 (DChunk t n)) (fun s3 =>
      bind (dstep has_to s3 (DWriteRet t e)) (fun s4 => Some (s4, ev2))))
  end
  | _ => Some (s1, ev)      (* refused after acquiring the semaphore: context done, or an earlier write was torn *)
  end).

Fixpoint drive_direct (has_to : bool) (s : dstate) (ev : env) (evs : list dev) : option (dstate * env) :=
  match evs with
  | [] => Some (s, ev)
  | VCtx t e :: r => bind (dstep has_to s (DCtx (Z.to_nat t) e)) (fun s' => drive_direct has_to s' ev r)
  | VQuit t :: r => bind (dstep has_to s (DQuitSel (Z.to_nat t))) (fun s' => drive_direct has_to s' ev r)
  | VWrite t :: r => bind (drive_dwrite has_to s ev (Z.to_nat t)) (fun se => drive_direct has_to (fst se) (snd se) r)
  end.

(* ---- coalescer scenarios ---- *)

Inductive cev :=
| WCtx (t : Z) (e : err)
| WQuit (t : Z)               (* writer t left the select through quit (io.EOF) *)
| WEnq (t : Z)                (* writer t was received by the flusher next *)
| WFlush                      (* the timer fired and the whole flush ran *)
| WCtxEnd (t : Z) (e : err)   (* the context of request t ends now (e.g. while it sits in the flusher's queue) *)
| WCancel                     (* the quit channel is closed (what c.cancel() does) *)
| WFQuit.                     (* the flusher took the quit branch *)

(* WriteTo: one Write per buffer until an error *)
Fixpoint drive_writes (has_to : bool) (fuel : nat) (s : cstate) (ev : env) : option (cstate * env) :=
  match fuel with
  | O => None
  | S fuel' =>
      match c_fpc s with
      | FWriting _ cur _ _ _ =>
          let '(n, e, ev2) := pipe_write ev (length (frame_of (c_thr s) cur)) in
          bind (cstep has_to s (FChunk n)) (fun s1 =>
          bind (cstep has_to s1 (FWriteRet e)) (fun s2 => drive_writes has_to fuel' s2 ev2))
      | _ => Some (s, ev)
      end
  end.

Definition drive_flush (has_to : bool) (s : cstate) (ev : env) : option (cstate * env) :=
  bind (cstep has_to s FTimer) (fun s1 =>
  let '(dl, ev1) := dl_call has_to ev in
  bind (cstep has_to s1 (FStartWrite dl)) (fun s2 =>
  drive_writes has_to (S (length (c_thr s2))) s2 ev1)).

(* closing the quit channel = some goroutine running closeWithError up to c.cancel() *)
Definition drive_cancel (has_to : bool) (s : cstate) : option cstate :=
  let t := length (c_thr s) in
  bind (cstep has_to s CExtClose) (fun s1 =>
  bind (cstep has_to s1 (CAfter t)) (fun s2 => cstep has_to s2 (CCancel t))).

Fixpoint drive_coal (has_to : bool) (s : cstate) (ev : env) (evs : list cev) : option (cstate * env) :=
  match evs with
  | [] => Some (s, ev)
  | WCtx t e :: r => bind (cstep has_to s (CCtx (Z.to_nat t) e)) (fun s' => drive_coal has_to s' ev r)
  | WQuit t :: r => bind (cstep has_to s (CQuitSel (Z.to_nat t))) (fun s' => drive_coal has_to s' ev r)
  | WEnq t :: r => bind (cstep has_to s (CEnqueue (Z.to_nat t))) (fun s' => drive_coal has_to s' ev r)
  | WFlush :: r => bind (drive_flush has_to s ev) (fun se => drive_coal has_to (fst se) (snd se) r)
  | WCtxEnd t e :: r => bind (cstep has_to s (CCtxDone (Z.to_nat t) e)) (fun s' => drive_coal has_to s' ev r)
  | WCancel :: r => bind (drive_cancel has_to s) (fun s' => drive_coal has_to s' ev r)
  | WFQuit :: r => bind (cstep has_to s FQuit) (fun s' => drive_coal has_to s' ev r)
  end.

(* ---- cases ---- *)

Inductive case :=
| CDirect (has_to : bool) (frames : list (list Z)) (ctxdone : list (Z * err)) (quit : bool)
          (faults : list (Z * fkind)) (dlfail : list (Z * Z)) (evs : list dev)
          (results : list (option (Z * option err))) (wire : list Z) (calls : list (Z * Z))
| CCoal (has_to : bool) (frames : list (list Z)) (ctxdone : list (Z * err))
        (faults : list (Z * fkind)) (dlfail : list (Z * Z)) (evs : list cev)
        (results : list (option (Z * option err))) (wire : list Z) (calls : list (Z * Z))
| CMustClose (coalesce : bool) (frame : list Z) (n : Z) (e : err) (closed : bool)
   (* a whole Conn: the only request's Write accepted n bytes and returned e; was the connection closed afterwards? *)
| CCoalBig (has_to : bool) (k : Z) (faults : list (Z * fkind)) (rounds : list Z)
           (results : list (Z * (Z * option err))) (wire_whole : Z) (wire_tail : list Z) (calls : list (Z * (Z * Z)))
   (* a large batch through the coalescer, written compactly: k requests with the body-less frames [opt_frame t], handed to
      the flusher one by one in id order in rounds of the given sizes, the timer firing after each round (if anything is
      queued); results run-length encoded in id order ((count, result)), Write calls as runs of consecutive ids with the same count
      ((first id, (how many, n))); the bytes the connection
      accepted as the number of leading whole frames 0, 1, 2, ... (parsed by the harness's independent parser and compared
      with the frames byte by byte) and the raw rest *)
| CConn (coalesce : bool) (frames : list (list Z)) (faults : list (Z * fkind)) (dlfail : list (Z * Z))
        (devs : list dev) (cevs : list cev)
        (results : list (option (Z * Z))) (wire : list Z) (calls : list (Z * Z)) (closed : bool).
   (* a whole Conn with several requests in flight (public API, scripted node).  Requests are numbered in the order in
      which addCall registered them (C01's event log); frames are what the driver handed to the connection (a one-byte
      placeholder for a request that never got that far); the order of the writers / the batches is read off the recorded
      SetWriteDeadline / Write calls; results are exec's view of writeContext as logged at the WriteEnd trace point:
      (n, class) with class 0 = nil, 1 = context error with n = 0, 2 = any other error; closed: did the driver close the
      connection in the end.  The model replays the writers, then exec's decision and closeWithError for every request. *)

Definition res_eqb (a : res) (b : Z * option err) : bool :=
  (Z.of_nat (fst a) =? fst b)%Z && opt_eqb err_eqb (snd a) (snd b).

Definition results_match (th : threads) (k : nat) (rs : list (option (Z * option err))) : bool :=
  (length rs =? k) &&
  forallb (fun ir => match result_of th (fst ir), snd ir with
                     | Some a, Some b => res_eqb a b
                     | None, None => true
                     | _, _ => false
                     end) (combine (seq 0 k) rs).

Definition calls_match (h : list (nat * nat)) (cs : list (Z * Z)) : bool :=
  (length h =? length cs) &&
  forallb (fun ab => (Z.of_nat (fst (fst ab)) =? fst (snd ab))%Z && (Z.of_nat (snd (fst ab)) =? snd (snd ab))%Z) (combine h cs).

(* the body-less protocol-4 OPTIONS frame of request t (stream t + 1): what the harness's mkFrame(.., t, -1) builds *)
Definition opt_frame (t : nat) : list Z :=
  [4; 0; Z.of_nat ((t + 1) / 256); Z.of_nat ((t + 1) mod 256); 5; 0; 0; 0; 0]%Z.

Fixpoint enq_round (has_to : bool) (s : cstate) (t n : nat) : option cstate :=
  match n with
  | O => Some s
  | S n' => bind (cstep has_to s (CEnqueue t)) (fun s' => enq_round has_to s' (S t) n')
  end.

Fixpoint drive_rounds (has_to : bool) (s : cstate) (ev : env) (t : nat) (rounds : list Z) : option (cstate * env) :=
  match rounds with
  | [] => Some (s, ev)
  | r :: rs =>
      bind (enq_round has_to s t (Z.to_nat r)) (fun s1 =>
      match c_queue s1 with
      | [] => drive_rounds has_to s1 ev (t + Z.to_nat r) rs          (* everybody was answered at once: the timer is not armed *)
      | _ => bind (drive_flush has_to s1 ev) (fun se => drive_rounds has_to (fst se) (snd se) (t + Z.to_nat r) rs)
      end)
  end.

Fixpoint expand_results (rl : list (Z * (Z * option err))) : list (option (Z * option err)) :=
  match rl with
  | [] => []
  | (c, r) :: rl' => repeat (Some r) (Z.to_nat c) ++ expand_results rl'
  end.

Fixpoint expand_calls (cl : list (Z * (Z * Z))) : list (Z * Z) :=
  match cl with
  | [] => []
  | (t, (c, n)) :: cl' => map (fun i => (Z.of_nat i, n)) (seq (Z.to_nat t) (Z.to_nat c)) ++ expand_calls cl'
  end.

(* the class of a write result as the WriteEnd trace point records it (verifWriteClass) *)
Definition write_class (r : res) : Z :=
  match r with
  | (_, None) => 0%Z
  | (n, Some e) => if is_ctx_err e && (n =? 0) then 1%Z else 2%Z
  end.

Definition classes_match (th : threads) (k : nat) (rs : list (option (Z * Z))) : bool :=
  (length rs =? k) &&
  forallb (fun ir => match result_of th (fst ir), snd ir with
                     | Some a, Some b => (Z.of_nat (fst a) =? fst b)%Z && (write_class a =? snd b)%Z
                     | None, None => true
                     | _, _ => false
                     end) (combine (seq 0 k) rs).

Definition mk_env (faults : list (Z * fkind)) (dlfail : list (Z * Z)) : env :=
  mkE 0 (map (fun ok => (Z.to_nat (fst ok), snd ok)) faults) None 0 (map (fun oc => (Z.to_nat (fst oc), snd oc)) dlfail).

Definition try_d (has_to : bool) (s : dstate) (l : dlabel) : dstate :=
  match dstep has_to s l with Some s' => s' | None => s end.
Definition try_c (has_to : bool) (s : cstate) (l : clabel) : cstate :=
  match cstep has_to s l with Some s' => s' | None => s end.

(* exec's decision and closeWithError for every request that has a result *)
Definition d_tail (s : dstate) (k : nat) : dstate :=
  let s1 := fold_left (fun s t => try_d true s (DAfter t)) (seq 0 k) s in
  let s2 := fold_left (fun s t => try_d true s (DCancel t)) (seq 0 k) s1 in
  fold_left (fun s t => try_d true s (DClose t)) (seq 0 k) s2.
Definition c_tail (s : cstate) (k : nat) : cstate :=
  let s1 := fold_left (fun s t => try_c true s (CAfter t)) (seq 0 k) s in
  let s2 := fold_left (fun s t => try_c true s (CCancel t)) (seq 0 k) s1 in
  fold_left (fun s t => try_c true s (CClose t)) (seq 0 k) s2.

Definition check (c : case) : bool :=
  match c with
  | CDirect has_to frames ctxdone quit faults dlfail evs results wire calls =>
      let pre := map DCall frames ++ map (fun te => DCtxDone (Z.to_nat (fst te)) (snd te)) ctxdone ++ (if quit then [DEnvQuit] else []) in
      match bind (drun has_to d_init pre) (fun s => drive_direct has_to s (mk_env faults dlfail) evs) with
      | Some (s, _) =>
          results_match (d_thr s) (length frames) results
          && zlist_eqb (map snd (d_wire s)) wire
          && calls_match (d_hist s) calls
      | None => false
      end
  | CCoal has_to frames ctxdone faults dlfail evs results wire calls =>
      let pre := map CCall frames ++ map (fun te => CCtxDone (Z.to_nat (fst te)) (snd te)) ctxdone in
      match bind (crun has_to c_init pre) (fun s => drive_coal has_to s (mk_env faults dlfail) evs) with
      | Some (s, _) =>
          results_match (c_thr s) (length frames) results
          && zlist_eqb (map snd (c_wire s)) wire
          && calls_match (c_hist s) calls
      | None => false
      end
  | CMustClose coalesce frame n e closed =>
      let k := Z.to_nat n in
      if coalesce then
        match crun true c_init [CCall frame; CEnqueue 0; FTimer; FStartWrite None; FChunk k; FWriteRet (Some e); CAfter 0] with
        | Some s => Bool.eqb (c_connclosed (try_c true (try_c true s (CCancel 0)) (CClose 0))) closed
        | None => false
        end
      else
        match drun true d_init [DCall frame; DAcquire 0; DStartWrite 0 None; DChunk 0 k; DWriteRet 0 (Some e); DAfter 0] with
        | Some s => Bool.eqb (d_connclosed (try_d true (try_d true s (DCancel 0)) (DClose 0))) closed
        | None => false
        end
  | CCoalBig has_to k faults rounds results wire_whole wire_tail calls =>
      let kn := Z.to_nat k in
      let frames := map opt_frame (seq 0 kn) in
      match bind (crun has_to c_init (map CCall frames)) (fun s => drive_rounds has_to s (mk_env faults []) 0 rounds) with
      | Some (s, _) =>
          results_match (c_thr s) kn (expand_results results)
          && zlist_eqb (map snd (c_wire s)) (concat (map opt_frame (seq 0 (Z.to_nat wire_whole))) ++ wire_tail)
          && calls_match (c_hist s) (expand_calls calls)
      | None => false
      end
  | CConn coalesce frames faults dlfail devs cevs results wire calls closed =>
      let k := length frames in
      if coalesce then
        match bind (crun true c_init (map CCall frames)) (fun s => drive_coal true s (mk_env faults dlfail) cevs) with
        | Some (s, _) =>
            classes_match (c_thr s) k results && zlist_eqb (map snd (c_wire s)) wire && calls_match (c_hist s) calls
            && Bool.eqb (c_connclosed (c_tail s k)) closed
        | None => false
        end
      else
        match bind (drun true d_init (map DCall frames)) (fun s => drive_direct true s (mk_env faults dlfail) devs) with
        | Some (s, _) =>
            classes_match (d_thr s) k results && zlist_eqb (map snd (d_wire s)) wire && calls_match (d_hist s) calls
            && Bool.eqb (d_connclosed (d_tail s k)) closed
        | None => false
        end
  end.

Definition run (cs : list case) : list N := mismatches check cs.
