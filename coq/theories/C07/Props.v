(* C07/Props.v -- the proof obligations of property C07 (frames are written whole), and nothing else.

   Vocabulary (C07/Model.v, C07/Spec.v):
     drun has_to d_init ls = Some s   s is the state of the direct writer (deadlineContextWriter + the part of exec /
                                      closeWithError around it) after the schedule ls: any number of requests, any
                                      interleaving of their atomic steps, any behaviour of the connection and of the contexts
     crun has_to c_init ls = Some s   the same for the coalescing writer (writeCoalescer, its flusher goroutine, flush, WriteTo)
     d_wire / c_wire                  the bytes the connection accepted, each tagged (ghost) with the request whose Write call handed it over
     frame_of th t                    the frame of request t;  result_of th t = Some (n, e): writeContext returned (n, e) to request t
     bytes_of t w                     the bytes of request t on the wire, in order
     d_broken / c_broken              ghost: the connection broke the io.Writer contract (Write returned n < len(p) and a nil error)
     d_torn / c_torn                  ghost: some Write call returned after accepting a proper, non-empty part of its buffer
   The only hypothesis of this kind left is [broken = false], a hypothesis about the environment (the connection
   honours io.Writer); it is shown satisfiable by the Examples at the end and necessary for the coalescer's wire shape in
   C07/Refuted.v.  The former known findings F-C07-1 (a frame written behind a torn one) and F-C07-2 (a frame written
   although the context had ended) are fixed in /repo; the model follows the repaired code and the statements that carried
   their excluding hypotheses are unconditional now. *)
From GocqlV Require Import Lib.Base C07.Model C07.Spec C07.Proofs1 C07.Proofs2 C07.Proofs3 C07.Proofs4 C07.Proofs5 C07.Proofs6 C07.Proofs7.
Local Open Scope nat_scope.

(* ------------------------------------------------------------------------------------------------------------ *)
(* The attribution loop of flush (conn.go:992-1008), for every batch, every split point n and every error. *)

(* Each request of the batch is told exactly what the contextWriter contract prescribes (Spec.spec_result): if all
   its bytes are among the first n, (len, nil); otherwise the number of its bytes among the first n and the error. *)
Theorem C07_attribute_correct : forall lens n e i,
  Forall (fun l => 0 < l) lens -> i < length lens ->
  nth i (attribute lens n e) (0, None) = spec_result lens n e i.
Proof. exact attribute_nth. Qed.
Print Assumptions C07_attribute_correct.

(* A request is told "no error" iff its last byte is among the first n. *)
Theorem C07_attribute_success_iff : forall lens n x i,
  Forall (fun l => 0 < l) lens -> i < length lens ->
  (snd (nth i (attribute lens n (Some x)) (0, None)) = None <-> before lens i + nth i lens 0 <= n).
Proof. exact attribute_success_iff. Qed.
Print Assumptions C07_attribute_success_iff.

(* The reported counts add up to n; every request gets an answer. *)
Theorem C07_attribute_counts_sum : forall lens n e,
  n <= list_sum lens ->
  list_sum (map fst (attribute lens n e)) = n /\ length (attribute lens n e) = length lens.
Proof. intros lens n e H. split; [exact (attribute_sum lens n e H)|exact (attribute_length lens n e)]. Qed.
Print Assumptions C07_attribute_counts_sum.

(* ------------------------------------------------------------------------------------------------------------ *)
(* The direct writer, in every reachable state. *)

(* The semaphore: at most one request is between acquiring it and the return of its Write. *)
Theorem C07_direct_mutex : forall has_to ls s,
  drun has_to d_init ls = Some s -> forall t t' p p',
  pc_of (d_thr s) t = Some p -> critical p = true -> pc_of (d_thr s) t' = Some p' -> critical p' = true -> t = t'.
Proof. exact direct_mutex_lemma. Qed.
Print Assumptions C07_direct_mutex.

(* Requests never interleave bytes: the wire is a sequence of contiguous pieces, one per frame at most, each a
   prefix of its frame -- although the model lets concurrent Write calls interleave byte by byte. *)
Theorem C07_direct_no_interleave : forall has_to ls s,
  drun has_to d_init ls = Some s -> no_interleave (frame_of (d_thr s)) (d_wire s).
Proof. exact direct_no_interleave_lemma. Qed.
Print Assumptions C07_direct_no_interleave.

(* A caller told (n, nil) has its whole frame in the stream, contiguously (connection honouring io.Writer). *)
Theorem C07_direct_success_means_whole : forall has_to ls s,
  drun has_to d_init ls = Some s -> forall t n, d_broken s = false -> result_of (d_thr s) t = Some (n, None) ->
  n = length (frame_of (d_thr s) t) /\ frame_present (frame_of (d_thr s)) t (d_wire s).
Proof. exact direct_success_whole_lemma. Qed.
Print Assumptions C07_direct_success_means_whole.

(* A caller told (n, e) has exactly the first n bytes of its frame on the wire, whatever the connection did. *)
Theorem C07_direct_count_exact : forall has_to ls s,
  drun has_to d_init ls = Some s -> forall t n e, result_of (d_thr s) t = Some (n, e) ->
  bytes_of t (d_wire s) = firstn n (frame_of (d_thr s) t).
Proof. exact direct_count_exact_lemma. Qed.
Print Assumptions C07_direct_count_exact.

(* A request that left the select through ctx.Done() or quit got (0, error) and no byte of its frame is on the
   wire, then or at any later time. *)
Theorem C07_direct_cancel_leaves_nothing : forall has_to ls s t l,
  drun has_to d_init ls = Some s -> In l ls -> (exists e, l = DCtx t e) \/ l = DQuitSel t ->
  (exists e, result_of (d_thr s) t = Some (0, Some e)) /\ bytes_of t (d_wire s) = [].
Proof. exact direct_select_exit_lemma. Qed.
Print Assumptions C07_direct_cancel_leaves_nothing.

(* If the context of a request ends while the request is still at the select (waiting for the semaphore), no byte of
   its frame is ever written, and whatever it is told is (0, an error). *)
Theorem C07_direct_ctx_done_leaves_nothing : forall has_to ls1 ls2 s1 s t e,
  drun has_to d_init ls1 = Some s1 -> pc_of (d_thr s1) t = Some PSelect ->
  drun has_to s1 (DCtxDone t e :: ls2) = Some s ->
  bytes_of t (d_wire s) = [] /\ forall r, result_of (d_thr s) t = Some r -> fst r = 0 /\ snd r <> None.
Proof. exact direct_ctx_done_lemma. Qed.
Print Assumptions C07_direct_ctx_done_leaves_nothing.

(* Wire shape, in every reachable state and whatever the connection does: the wire is whole frames, each once,
   followed by at most one incomplete frame; and the incomplete frame is there only because its Write is still in
   progress or because it failed, in which case its caller was told exactly how much of it was written, with an error
   (if the connection honoured io.Writer). *)
Theorem C07_direct_wire_shape : forall has_to ls s,
  drun has_to d_init ls = Some s ->
  exists ts tl, d_wire s = whole (frame_of (d_thr s)) ts ++ tl /\ NoDup ts /\
    (tl = [] \/ exists t c, ~ In t ts /\ 0 < c < length (frame_of (d_thr s) t) /\ tl = tag t (firstn c (frame_of (d_thr s) t)) /\
       (pc_of (d_thr s) t = Some (PWriting c) \/
        (d_torn s = true /\ exists e, result_of (d_thr s) t = Some (c, e) /\ (d_broken s = false -> e <> None)))).
Proof. exact direct_wire_shape_lemma. Qed.
Print Assumptions C07_direct_wire_shape.

(* After a partial write nothing more is written on the connection, by anybody, ever. *)
Theorem C07_direct_nothing_after_partial : forall has_to ls1 ls2 s1 s2,
  drun has_to d_init ls1 = Some s1 -> d_torn s1 = true -> drun has_to s1 ls2 = Some s2 -> d_wire s2 = d_wire s1.
Proof. exact direct_nothing_after_partial_lemma. Qed.
Print Assumptions C07_direct_nothing_after_partial.

(* Once c.conn.Close() has been called the wire never changes again. *)
Theorem C07_direct_nothing_after_close : forall has_to ls s s',
  drun has_to s ls = Some s' -> d_connclosed s = true -> d_connclosed s' = true /\ d_wire s' = d_wire s.
Proof. exact direct_after_close_lemma. Qed.
Print Assumptions C07_direct_nothing_after_close.

(* An incomplete frame means the connection gets closed: when every request has finished (with exec and with
   closeWithError) and some Write was torn, c.conn.Close() has been called. *)
Theorem C07_direct_torn_implies_closed : forall has_to ls s,
  drun has_to d_init ls = Some s -> d_torn s = true -> d_broken s = false -> d_quiescent s -> d_connclosed s = true.
Proof. exact direct_torn_closed_lemma. Qed.
Print Assumptions C07_direct_torn_implies_closed.

(* What exec can observe from writeContext - the interface a model of the connection (C01/C06) may use for its abstract
   Write.  A request that has been given (n, e) over a connection honouring io.Writer is in exactly one of four situations:
   (whole)   e = nil, n = len(frame), the whole frame is in the stream, contiguously;
   (nothing) e <> nil, n = 0, no byte of the frame is on the wire now or ever;
   (torn)    e <> nil, 0 < n < len(frame), exactly the first n bytes are on the wire, nothing is ever written on this
             connection again by anybody, and exec closes the connection (must_close);
   (whole, with an error) e <> nil, n = len(frame) > 0: the connection reported an error although it took everything; the whole
             frame is in the stream and exec closes the connection. *)
Theorem C07_direct_exec_view : forall has_to ls s t n e,
  drun has_to d_init ls = Some s -> d_broken s = false -> result_of (d_thr s) t = Some (n, e) ->
  let f := frame_of (d_thr s) t in
  (e = None /\ n = length f /\ frame_present (frame_of (d_thr s)) t (d_wire s))
  \/ (e <> None /\ n = 0 /\ forall ls2 s2, drun has_to s ls2 = Some s2 -> bytes_of t (d_wire s2) = [])
  \/ (e <> None /\ 0 < n < length f /\ must_close (n, e) = true /\ bytes_of t (d_wire s) = firstn n f /\
      forall ls2 s2, drun has_to s ls2 = Some s2 -> d_wire s2 = d_wire s)
  \/ (e <> None /\ 0 < n /\ n = length f /\ must_close (n, e) = true /\ frame_present (frame_of (d_thr s)) t (d_wire s)).
Proof. exact direct_exec_view_lemma. Qed.
Print Assumptions C07_direct_exec_view.

(* ------------------------------------------------------------------------------------------------------------ *)
(* The coalescing writer, in every reachable state. *)

Theorem C07_coal_no_interleave : forall has_to ls s,
  crun has_to c_init ls = Some s -> no_interleave (frame_of (c_thr s)) (c_wire s).
Proof. exact coal_no_interleave_lemma. Qed.
Print Assumptions C07_coal_no_interleave.

Theorem C07_coal_success_means_whole : forall has_to ls s,
  crun has_to c_init ls = Some s -> forall t n, c_broken s = false -> result_of (c_thr s) t = Some (n, None) ->
  n = length (frame_of (c_thr s) t) /\ frame_present (frame_of (c_thr s)) t (c_wire s).
Proof. exact coal_success_whole_lemma. Qed.
Print Assumptions C07_coal_success_means_whole.

(* The attribution is right inside the running system: what the flusher tells a request is exactly how many bytes
   of its frame the connection accepted -- for every batch composition and every place at which WriteTo stopped. *)
Theorem C07_coal_count_exact : forall has_to ls s,
  crun has_to c_init ls = Some s -> forall t n e, c_broken s = false -> result_of (c_thr s) t = Some (n, e) ->
  bytes_of t (c_wire s) = firstn n (frame_of (c_thr s) t).
Proof. exact coal_count_exact_lemma. Qed.
Print Assumptions C07_coal_count_exact.

Theorem C07_coal_cancel_leaves_nothing : forall has_to ls s t l,
  crun has_to c_init ls = Some s -> In l ls -> (exists e, l = CCtx t e) \/ l = CQuitSel t ->
  (exists e, result_of (c_thr s) t = Some (0, Some e)) /\ bytes_of t (c_wire s) = [].
Proof. exact coal_select_exit_lemma. Qed.
Print Assumptions C07_coal_cancel_leaves_nothing.

(* Once a request has been given its result, its result and the bytes of its frame on the wire never change,
   whatever the connection does. *)
Theorem C07_coal_result_final : forall has_to ls1 ls2 s1 s2 t r,
  crun has_to c_init ls1 = Some s1 -> crun has_to s1 ls2 = Some s2 -> result_of (c_thr s1) t = Some r ->
  result_of (c_thr s2) t = Some r /\ bytes_of t (c_wire s2) = bytes_of t (c_wire s1).
Proof. exact coal_result_final_lemma. Qed.
Print Assumptions C07_coal_result_final.

(* The context of a request ends while the request is still at the select (blocked on the send to the flusher). *)
Theorem C07_coal_ctx_done_leaves_nothing : forall has_to ls1 ls2 s1 s t e,
  crun has_to c_init ls1 = Some s1 -> pc_of (c_thr s1) t = Some PSelect ->
  crun has_to s1 (CCtxDone t e :: ls2) = Some s ->
  bytes_of t (c_wire s) = [] /\ forall r, result_of (c_thr s) t = Some r -> fst r = 0 /\ snd r <> None.
Proof. exact coal_ctx_done_lemma. Qed.
Print Assumptions C07_coal_ctx_done_leaves_nothing.

(* Wire shape for a connection that honours io.Writer (necessary: C07/Refuted.v). *)
Theorem C07_coal_wire_shape : forall has_to ls s,
  crun has_to c_init ls = Some s -> c_broken s = false ->
  exists ts tl, c_wire s = whole (frame_of (c_thr s)) ts ++ tl /\ NoDup ts /\
    (tl = [] \/ exists t c, ~ In t ts /\ 0 < c < length (frame_of (c_thr s) t) /\ tl = tag t (firstn c (frame_of (c_thr s) t)) /\
       (cur_writing (c_fpc s) t c \/
        (c_torn s = true /\ (c_broken s = false -> exists x, result_of (c_thr s) t = Some (c, Some x))))).
Proof. exact coal_wire_shape_lemma. Qed.
Print Assumptions C07_coal_wire_shape.

Theorem C07_coal_nothing_after_partial : forall has_to ls1 ls2 s1 s2,
  crun has_to c_init ls1 = Some s1 -> c_torn s1 = true -> c_broken s1 = false ->
  crun has_to s1 ls2 = Some s2 -> c_wire s2 = c_wire s1.
Proof. exact coal_nothing_after_partial_lemma. Qed.
Print Assumptions C07_coal_nothing_after_partial.

(* The same interface for the coalescing writer (there the last case never arises, but the statement is the same so that
   a connection model need not know which writer is in use). *)
Theorem C07_coal_exec_view : forall has_to ls s t n e,
  crun has_to c_init ls = Some s -> c_broken s = false -> result_of (c_thr s) t = Some (n, e) ->
  let f := frame_of (c_thr s) t in
  (e = None /\ n = length f /\ frame_present (frame_of (c_thr s)) t (c_wire s))
  \/ (e <> None /\ n = 0 /\ forall ls2 s2, crun has_to s ls2 = Some s2 -> bytes_of t (c_wire s2) = [])
  \/ (e <> None /\ 0 < n < length f /\ must_close (n, e) = true /\ bytes_of t (c_wire s) = firstn n f /\
      forall ls2 s2, crun has_to s ls2 = Some s2 -> c_wire s2 = c_wire s)
  \/ (e <> None /\ 0 < n /\ n = length f /\ must_close (n, e) = true /\ frame_present (frame_of (c_thr s)) t (c_wire s)).
Proof. exact coal_exec_view_lemma. Qed.
Print Assumptions C07_coal_exec_view.

Theorem C07_coal_nothing_after_close : forall has_to ls s s',
  crun has_to s ls = Some s' -> c_connclosed s = true -> c_connclosed s' = true /\ c_wire s' = c_wire s.
Proof. exact coal_after_close_lemma. Qed.
Print Assumptions C07_coal_nothing_after_close.

Theorem C07_coal_torn_implies_closed : forall has_to ls s,
  crun has_to c_init ls = Some s -> c_torn s = true -> c_broken s = false -> c_quiescent s -> c_connclosed s = true.
Proof. exact coal_torn_closed_lemma. Qed.
Print Assumptions C07_coal_torn_implies_closed.

(* ------------------------------------------------------------------------------------------------------------ *)
(* Non-vacuity: the hypotheses above are met by concrete, non-trivial runs (tests, not theorems). *)

(* three concurrent requests through the direct writer, the second Write torn at byte 2 with an error, the failing
   request closes the connection, the third request never gets to write: torn, not late, contract kept, quiescent *)
Definition ex_direct : list dlabel :=
  [DCall [1; 2; 3]%Z; DCall [4; 5; 6; 7]%Z; DCall [8; 9]%Z; DCtxDone 2 ECanceled;
   DAcquire 0; DStartWrite 0 None; DChunk 0 2; DChunk 0 1; DWriteRet 0 None; DAfter 0;
   DAcquire 1; DCtx 2 ECanceled; DStartWrite 1 None; DChunk 1 2; DWriteRet 1 (Some (EOther 7));
   DAfter 1; DCancel 1; DAfter 2; DClose 1].

Example C07_direct_nonvacuous :
  exists s, drun true d_init ex_direct = Some s /\ d_torn s = true /\ d_failed s = Some (EOther 7) /\ d_broken s = false
            /\ d_connclosed s = true /\ result_of (d_thr s) 0 = Some (3, None) /\ result_of (d_thr s) 1 = Some (2, Some (EOther 7))
            /\ result_of (d_thr s) 2 = Some (0, Some ECanceled) /\ map snd (d_wire s) = [1; 2; 3; 4; 5]%Z.
Proof. eexists. split; [vm_compute; reflexivity|]. repeat split. Qed.

Example C07_direct_nonvacuous_quiescent :
  forall s, drun true d_init ex_direct = Some s -> d_quiescent s.
Proof.
  intros s H. vm_compute in H. inversion H; subst. intros t p Hp.
  destruct t as [|[|[|t]]]; vm_compute in Hp; inversion Hp; eauto. destruct t; discriminate.
Qed.

(* a batch of three through the coalescer, WriteTo stops inside the second buffer *)
Definition ex_coal : list clabel :=
  [CCall [1; 2; 3]%Z; CCall [4; 5; 6; 7]%Z; CCall [8; 9]%Z; CEnqueue 1; CEnqueue 0; CEnqueue 2; FTimer; FStartWrite None;
   FChunk 4; FWriteRet None; FChunk 1; FWriteRet (Some (EOther 7));
   CAfter 1; CAfter 0; CCancel 0; CClose 0; CAfter 2].

Example C07_coal_nonvacuous :
  exists s, crun true c_init ex_coal = Some s /\ c_torn s = true /\ c_failed s = Some (EOther 7) /\ c_broken s = false
            /\ c_connclosed s = true /\ result_of (c_thr s) 1 = Some (4, None) /\ result_of (c_thr s) 0 = Some (1, Some (EOther 7))
            /\ result_of (c_thr s) 2 = Some (0, Some (EOther 7)) /\ map snd (c_wire s) = [4; 5; 6; 7; 1]%Z.
Proof. eexists. split; [vm_compute; reflexivity|]. repeat split. Qed.

Example C07_coal_nonvacuous_quiescent :
  forall s, crun true c_init ex_coal = Some s -> c_quiescent s.
Proof.
  intros s H. vm_compute in H. inversion H; subst. intros t p Hp.
  destruct t as [|[|[|t]]]; vm_compute in Hp; inversion Hp; eauto. destruct t; discriminate.
Qed.

Example C07_attribute_example :
  attribute [3; 4; 2] 5 (Some (EOther 7)) = [(3, None); (2, Some (EOther 7)); (0, Some (EOther 7))].
Proof. reflexivity. Qed.
