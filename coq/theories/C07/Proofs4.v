(* C07/Proofs4.v -- the invariant of the coalescing writer's transition system and its preservation. *)
From GocqlV Require Import Lib.Base C07.Model C07.Spec C07.Proofs1 C07.Proofs2.
Local Open Scope nat_scope.

(* ---- deliver: resultChans[i] <- rs[i] ---- *)

Lemma deliver_length th ts : forall rs th', th' = th -> length (deliver th' ts rs) = length th.
Proof.
  intros rs th' ->. revert th rs. induction ts as [|t ts IH]; intros th rs; simpl; [reflexivity|].
  destruct rs as [|r rs]; [reflexivity|]. rewrite IH. apply set_pc_length.
Qed.

Lemma deliver_frame ts : forall th rs t, frame_of (deliver th ts rs) t = frame_of th t.
Proof.
  induction ts as [|t0 ts IH]; intros th rs t; simpl; [reflexivity|].
  destruct rs as [|r rs]; [reflexivity|]. rewrite IH. apply frame_of_set.
Qed.

Lemma deliver_pc_notin ts : forall th rs t, ~ In t ts -> pc_of (deliver th ts rs) t = pc_of th t.
Proof.
  induction ts as [|t0 ts IH]; intros th rs t Hn; simpl; [reflexivity|].
  destruct rs as [|r rs]; [reflexivity|]. simpl in Hn. rewrite IH by tauto. apply pc_of_set_other. tauto.
Qed.

Lemma deliver_pc_in ts : forall th rs i t r,
  NoDup ts -> (forall t', In t' ts -> t' < length th) ->
  nth_error ts i = Some t -> nth_error rs i = Some r ->
  pc_of (deliver th ts rs) t = Some (PReturned r).
Proof.
  induction ts as [|t0 ts IH]; intros th rs i t r Hnd Hlt Ht Hr.
  - destruct i; discriminate.
  - destruct rs as [|r0 rs]; [destruct i; discriminate|]. inversion Hnd as [|x l Hx Hl]; subst. simpl.
    destruct i as [|i]; simpl in Ht, Hr.
    + inversion Ht; inversion Hr; subst. rewrite deliver_pc_notin by assumption.
      apply pc_of_set_same. apply Hlt. simpl; auto.
    + eapply IH; eauto. intros t' Ht'. rewrite set_pc_length. apply Hlt. simpl; auto.
Qed.

Lemma deliver_pc_cases ts th rs t p :
  NoDup ts -> (forall t', In t' ts -> t' < length th) -> length rs = length ts ->
  pc_of (deliver th ts rs) t = Some p ->
  (~ In t ts /\ pc_of th t = Some p) \/
  (exists i r, nth_error ts i = Some t /\ nth_error rs i = Some r /\ p = PReturned r).
Proof.
  intros Hnd Hlt Hlen H. destruct (in_dec Nat.eq_dec t ts) as [Hin|Hn].
  - right. apply In_nth_error in Hin. destruct Hin as [i Hi].
    assert (Hil : i < length rs). { rewrite Hlen. apply nth_error_Some. congruence. }
    destruct (nth_error rs i) as [r|] eqn:Hr; [|apply nth_error_None in Hr; lia].
    exists i, r. split; [exact Hi|]. split; [exact Hr|].
    rewrite (deliver_pc_in ts th rs i t r Hnd Hlt Hi Hr) in H. congruence.
  - left. rewrite deliver_pc_notin in H by assumption. auto.
Qed.

Lemma deliver_result_cases ts th rs t r :
  NoDup ts -> (forall t', In t' ts -> t' < length th) -> length rs = length ts ->
  result_of (deliver th ts rs) t = Some r ->
  (~ In t ts /\ result_of th t = Some r) \/
  (exists i, nth_error ts i = Some t /\ nth_error rs i = Some r).
Proof.
  intros Hnd Hlt Hlen H. unfold result_of in H. destruct (pc_of (deliver th ts rs) t) as [p|] eqn:E; [|discriminate].
  apply deliver_pc_cases in E; auto. destruct E as [[Hn E]|[i [r' [H1 [H2 ->]]]]].
  - left. split; [exact Hn|]. unfold result_of. rewrite E. exact H.
  - right. exists i. simpl in H. inversion H; subst. auto.
Qed.

Lemma pieces_deliver th ts rs h : pieces (frame_of (deliver th ts rs)) h = pieces (frame_of th) h.
Proof. apply pieces_ext. intros. apply deliver_frame. Qed.

Lemma closed_entry_deliver th ts rs tc : closed_entry (deliver th ts rs) tc <-> closed_entry th tc.
Proof. unfold closed_entry. rewrite deliver_frame. tauto. Qed.

(* ---- the invariant ---- *)

Definition inflight (f : fpc) : list nat :=
  match f with
  | FLoop | FExited => []
  | FFlush b => b
  | FWriting dn cur rest _ _ => dn ++ cur :: rest
  end.

(* queued requests whose frame has been handed to Write already *)
Definition handed (f : fpc) : list nat :=
  match f with FWriting dn cur _ _ _ => dn ++ [cur] | _ => [] end.

Definition cur_writing (f : fpc) (t c : nat) : Prop := exists dn rest n, f = FWriting dn t rest c n.

Record cinv (s : cstate) : Prop := {
  ci_queued : forall t, In t (c_queue s ++ inflight (c_fpc s)) -> pc_of (c_thr s) t = Some PQueued;
  ci_qnodup : NoDup (c_queue s ++ inflight (c_fpc s));
  ci_wire : c_wire s = pieces (frame_of (c_thr s)) (c_hist s);
  ci_nodup : NoDup (map fst (c_hist s));
  ci_last : forall dn cur rest sent n, c_fpc s = FWriting dn cur rest sent n -> exists h, c_hist s = h ++ [(cur, sent)];
  ci_started : forall t, In t (map fst (c_hist s)) ->
               (exists p, pc_of (c_thr s) t = Some p /\ started p = true) \/ In t (handed (c_fpc s));
  ci_count : c_broken s = false -> forall t r, result_of (c_thr s) t = Some r ->
             In (t, fst r) (c_hist s) \/ (fst r = 0 /\ ~ In t (map fst (c_hist s)));
  ci_bound : forall t c, In (t, c) (c_hist s) -> c <= length (frame_of (c_thr s) t);
  ci_progress : c_broken s = false -> forall dn cur rest sent n, c_fpc s = FWriting dn cur rest sent n ->
                n = list_sum (lens_of (c_thr s) dn) /\
                forall d, In d dn -> In (d, length (frame_of (c_thr s) d)) (c_hist s);
  ci_shape_a : c_broken s = false -> forall h x, c_hist s = h ++ [x] -> Forall (closed_entry (c_thr s)) h;
  ci_shape_b : c_torn s = false -> forall t c, In (t, c) (c_hist s) ->
               closed_entry (c_thr s) (t, c) \/ cur_writing (c_fpc s) t c;
  ci_ok : c_broken s = false -> forall t n, result_of (c_thr s) t = Some (n, None) -> n = length (frame_of (c_thr s) t);
  ci_torn : c_torn s = true -> c_broken s = true \/ c_closing s = true \/
            exists t r, pc_of (c_thr s) t = Some (PReturned r) /\ must_close r = true;
  ci_closing : c_closing s = true -> c_connclosed s = true \/
               exists t r, pc_of (c_thr s) t = Some (PCloser1 r) \/ pc_of (c_thr s) t = Some (PCloser2 r)
}.

Lemma cinv_init : cinv c_init.
Proof.
  constructor; simpl; try discriminate; try tauto; try (intros; discriminate).
  - constructor.
  - constructor.
  - intros _ t r H. destruct t; discriminate.
  - intros _ h x H. destruct h; discriminate.
  - intros _ t n H. destruct t; discriminate.
Qed.

Lemma c_in_hist_lt s t : cinv s -> In t (map fst (c_hist s)) -> t < length (c_thr s).
Proof.
  intros I H. destruct (ci_started s I t H) as [[p [Hp _]]|Hh]; [eapply pc_of_lt; eauto|].
  assert (Hq : pc_of (c_thr s) t = Some PQueued).
  { apply (ci_queued s I). apply in_or_app. right. destruct (c_fpc s); simpl in *; try tauto.
    apply in_app_or in Hh. apply in_or_app. simpl in *. tauto. }
  eapply pc_of_lt; eauto.
Qed.

Lemma c_not_started_notin s t p :
  cinv s -> pc_of (c_thr s) t = Some p -> started p = false -> ~ In t (handed (c_fpc s)) -> ~ In t (map fst (c_hist s)).
Proof.
  intros I H Hs Hh Hin. destruct (ci_started s I t Hin) as [[p' [H' Hs']]|H']; [congruence|tauto].
Qed.

Lemma handed_inflight f t : In t (handed f) -> In t (inflight f).
Proof. destruct f; simpl; try tauto. rewrite !in_app_iff. simpl. tauto. Qed.

(* a request whose pc is not PQueued is in neither list *)
Lemma not_queued_notin s t p : cinv s -> pc_of (c_thr s) t = Some p -> p <> PQueued -> ~ In t (c_queue s ++ inflight (c_fpc s)).
Proof. intros I H Hp Hin. apply (ci_queued s I) in Hin. congruence. Qed.

(* appending a new request *)
Lemma cinv_append th cx qu rn fp w clg can cc h tn lt br f p :
  started p = false -> result_of_pc p = None -> p <> PQueued ->
  (forall r, p <> PReturned r) -> (forall r, p <> PCloser1 r) -> (forall r, p <> PCloser2 r) ->
  cinv (mkC th cx qu rn fp w clg can cc h tn lt br) ->
  cinv (mkC (th ++ [(f, p)]) cx qu rn fp w clg can cc h tn lt br).
Proof.
  intros Hs Hr Hq Hn1 Hn2 Hn3 I.
  assert (Hlt : forall t, In t (map fst h) -> t < length th) by (intros t Ht; exact (c_in_hist_lt _ t I Ht)).
  assert (Hfr : forall t, t < length th -> frame_of (th ++ [(f, p)]) t = frame_of th t) by (intros; apply frame_of_app_old; assumption).
  assert (Hce : forall tc, In tc h -> closed_entry (th ++ [(f, p)]) tc <-> closed_entry th tc).
  { intros [t c] Hin. unfold closed_entry. simpl. rewrite Hfr by (apply Hlt; eapply in_fst; eauto). tauto. }
  destruct I as [I1 I2 I3 I4 I5 I6 I7 I8 I9 I10 I11 I12 I13 I14]; simpl in *.
  constructor; simpl.
  - intros t Ht. specialize (I1 t Ht). rewrite pc_of_app_old; [exact I1|]. eapply pc_of_lt; eauto.
  - exact I2.
  - rewrite I3. apply pieces_ext. intros t Ht. symmetry. apply Hfr. auto.
  - exact I4.
  - exact I5.
  - intros t Ht. destruct (I6 t Ht) as [[p' [H1 H2]]|H]; [left|right; exact H]. exists p'. split; [|exact H2].
    rewrite pc_of_app_old; [exact H1|]. eapply pc_of_lt; eauto.
  - intros Hb t r H. unfold result_of in H. destruct (pc_of (th ++ [(f, p)]) t) as [p'|] eqn:E; [|discriminate].
    apply pc_of_app in E. destruct E as [[_ E]|[_ E]].
    + apply I7; [assumption|]. unfold result_of. rewrite E. exact H.
    + simpl in E. subst. congruence.
  - intros t c H. rewrite Hfr by (apply Hlt; eapply in_fst; eauto). auto.
  - intros Hb dn cur rest sent n Hf. destruct (I9 Hb dn cur rest sent n Hf) as [H1 H2].
    assert (Hdn : forall d, In d dn -> d < length th).
    { intros d Hd. eapply pc_of_lt. apply I1. subst fp. simpl. rewrite !in_app_iff. tauto. }
    split.
    + rewrite H1. unfold lens_of. f_equal. apply map_ext_in. intros d Hd. rewrite Hfr; auto.
    + intros d Hd. rewrite Hfr by auto. auto.
  - intros Hl h0 x Hh. specialize (I10 Hl h0 x Hh). rewrite Forall_forall in *. intros tc Htc.
    apply Hce; [subst; apply in_or_app; auto|]. auto.
  - intros Ht t c Hin. destruct (I11 Ht t c Hin) as [H|H]; [left|right; exact H]. apply Hce; assumption.
  - intros Hb t n H. unfold result_of in H. destruct (pc_of (th ++ [(f, p)]) t) as [p'|] eqn:E; [|discriminate].
    apply pc_of_app in E. destruct E as [[Hlt' E]|[_ E]].
    + rewrite Hfr by assumption. apply I12; [assumption|]. unfold result_of. rewrite E. exact H.
    + simpl in E. subst. congruence.
  - intros Ht. destruct (I13 Ht) as [H|[H|[t [r [H1 H2]]]]]; auto.
    right; right. exists t, r. split; [|exact H2]. rewrite pc_of_app_old; [exact H1|]. eapply pc_of_lt; eauto.
  - intros Hc'. destruct (I14 Hc') as [H|[t [r H]]]; auto. right. exists t, r.
    destruct H as [H|H]; [left|right]; (rewrite pc_of_app_old; [exact H|]; eapply pc_of_lt; eauto).
Qed.

(* generic: one request t0 changes its pc, the flusher and the history stay as they are *)
Lemma cinv_setpc th cx qu qu' rn rn' fp w clg clg' can can' cc cc' h tn lt br t0 p0 p1 :
  pc_of th t0 = Some p0 ->
  cinv (mkC th cx qu rn fp w clg can cc h tn lt br) ->
  (* queue bookkeeping *)
  (forall t, In t (qu' ++ inflight fp) -> (t = t0 /\ p1 = PQueued) \/ (t <> t0 /\ In t (qu ++ inflight fp))) ->
  NoDup (qu' ++ inflight fp) ->
  (* history bookkeeping *)
  (started p0 = true -> started p1 = true) ->
  (forall r, result_of_pc p1 = Some r -> result_of_pc p0 = Some r \/ (result_of_pc p0 = None /\ r = (0, snd r) /\ snd r <> None /\
                                                                   ~ In t0 (map fst h))) ->
  (* the chains *)
  ((exists r', p0 = PReturned r' /\ must_close r' = true) -> clg' = true \/ (exists r', p1 = PReturned r' /\ must_close r' = true)) ->
  (clg = true -> clg' = true) ->
  (clg' = true -> cc' = true \/ (exists r', p1 = PCloser1 r' \/ p1 = PCloser2 r') \/
                  (clg = true /\ (forall r', p0 <> PCloser1 r') /\ (forall r', p0 <> PCloser2 r') /\ cc' = cc)) ->
  cinv (mkC (set_pc th t0 p1) cx qu' rn' fp w clg' can' cc' h tn lt br).
Proof.
  intros Hp0 I Hq Hqn Hst Hres Hclose Hmono Hchain. pose proof (pc_of_lt _ _ _ Hp0) as Hlt0.
  destruct I as [I1 I2 I3 I4 I5 I6 I7 I8 I9 I10 I11 I12 I13 I14]; simpl in *.
  constructor; simpl.
  - intros t Ht. destruct (Hq t Ht) as [[-> ->]|[Hne Hin]].
    + apply pc_of_set_same. assumption.
    + rewrite pc_of_set_other by auto. auto.
  - exact Hqn.
  - rewrite pieces_set. exact I3.
  - exact I4.
  - exact I5.
  - intros t Ht. destruct (I6 t Ht) as [[p [H1 H2]]|H]; [|right; exact H]. left.
    destruct (Nat.eq_dec t t0) as [->|Hne].
    + exists p1. split; [apply pc_of_set_same; assumption|]. apply Hst. congruence.
    + exists p. split; [|exact H2]. rewrite pc_of_set_other; auto.
  - intros Hb t r H. apply result_of_set in H. destruct H as [[-> H]|[_ H]]; [|auto].
    destruct (Hres r H) as [H0|[H0 [Hr0 [_ Hn]]]].
    + apply I7; [assumption|]. unfold result_of. rewrite Hp0. exact H0.
    + right. rewrite Hr0. simpl. auto.
  - intros t c H. rewrite frame_of_set. auto.
  - intros Hb dn cur rest sent n Hf. destruct (I9 Hb dn cur rest sent n Hf) as [H1 H2]. split.
    + rewrite H1. unfold lens_of. apply f_equal. apply map_ext. intros d. rewrite frame_of_set. reflexivity.
    + intros d Hd. rewrite frame_of_set. auto.
  - intros Hl h1 x Hh. apply Forall_closed_set. eauto.
  - intros Ht t c Hin. destruct (I11 Ht t c Hin) as [H|H]; [left|right; exact H]. apply closed_entry_set. exact H.
  - intros Hb t n H. rewrite frame_of_set. apply result_of_set in H. destruct H as [[-> H]|[_ H]]; [|auto].
    destruct (Hres _ H) as [H0|[_ [_ [Hn _]]]]; [|simpl in Hn; congruence].
    apply I12; [assumption|]. unfold result_of. rewrite Hp0. exact H0.
  - intros Ht. destruct (I13 Ht) as [H|[H|[t [r' [H1 H2]]]]]; auto.
    destruct (Nat.eq_dec t t0) as [->|Hne].
    + destruct Hclose as [H|[r'' [-> Hm]]]; [exists r'; split; [congruence|exact H2]|auto|].
      right; right. exists t0, r''. split; [apply pc_of_set_same; assumption|exact Hm].
    + right; right. exists t, r'. split; [|exact H2]. rewrite pc_of_set_other; auto.
  - intros Hc'. destruct (Hchain Hc') as [H|[[r' H]|[Hclg [Hn1 [Hn2 ->]]]]]; auto.
    + right. exists t0, r'. destruct H as [->| ->]; [left|right]; apply pc_of_set_same; assumption.
    + destruct (I14 Hclg) as [H|[t [r' H]]]; auto. right. exists t, r'.
      destruct H as [H|H]; [left|right]; (rewrite pc_of_set_other; [exact H|]; intros ->; rewrite Hp0 in H; inversion H).
      * eapply Hn1; eauto.
      * eapply Hn2; eauto.
Qed.

(* generic: the flusher changes state without touching the connection or any request *)
Lemma cinv_flusher th cx qu qu' rn rn' fp fp' w clg can cc h tn lt br :
  cinv (mkC th cx qu rn fp w clg can cc h tn lt br) ->
  (forall t, In t (qu' ++ inflight fp') -> In t (qu ++ inflight fp)) ->
  NoDup (qu' ++ inflight fp') ->
  (forall dn cur rest sent n, fp' <> FWriting dn cur rest sent n) ->
  (forall dn cur rest sent n, fp <> FWriting dn cur rest sent n) ->
  cinv (mkC th cx qu' rn' fp' w clg can cc h tn lt br).
Proof.
  intros I Hq Hqn Hnw' Hnw.
  assert (Hh : handed fp = []) by (destruct fp; try reflexivity; exfalso; eapply Hnw; eauto).
  assert (Hh' : handed fp' = []) by (destruct fp'; try reflexivity; exfalso; eapply Hnw'; eauto).
  destruct I as [I1 I2 I3 I4 I5 I6 I7 I8 I9 I10 I11 I12 I13 I14]; simpl in *.
  constructor; simpl; auto.
  - intros dn cur rest sent n Hf. exfalso. eapply Hnw'; eauto.
  - intros t Ht. rewrite Hh'. rewrite Hh in I6. auto.
  - intros Hb dn cur rest sent n Hf. exfalso. eapply Hnw'; eauto.
  - intros Ht t c Hin. destruct (I11 Ht t c Hin) as [H|[dn [rest [n H]]]]; [left; exact H|]. exfalso. eapply Hnw; eauto.
Qed.
