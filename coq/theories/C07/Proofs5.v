(* C07/Proofs5.v -- coalescer: the steps that touch the connection or deliver results; preservation. *)
From GocqlV Require Import Lib.Base C07.Model C07.Spec C07.Proofs1 C07.Proofs2 C07.Proofs4.
Local Open Scope nat_scope.

Lemma NoDup_app_remove_l {A} (l l' : list A) : NoDup (l ++ l') -> NoDup l'.
Proof. induction l as [|x l IH]; simpl; auto. intros H. inversion H; auto. Qed.

(* ---- combine facts ---- *)

Lemma nth_error_combine_in {A B} (l : list A) : forall (r : list B) i a b,
  nth_error l i = Some a -> nth_error r i = Some b -> In (a, b) (combine l r).
Proof.
  induction l as [|x l IH]; intros r i a b Ha Hb; [destruct i; discriminate|].
  destruct r as [|y r]; [destruct i; discriminate|]. destruct i as [|i]; simpl in *.
  - inversion Ha; inversion Hb; subst. auto.
  - right. eapply IH; eauto.
Qed.

Lemma in_combine_nth {A B} (l : list A) : forall (r : list B) a b,
  In (a, b) (combine l r) -> exists i, nth_error l i = Some a /\ nth_error r i = Some b.
Proof.
  induction l as [|x l IH]; intros r a b H; simpl in H; [tauto|].
  destruct r as [|y r]; simpl in H; [tauto|]. destruct H as [H|H].
  - inversion H; subst. exists 0. auto.
  - destruct (IH r a b H) as [i [H1 H2]]. exists (S i). auto.
Qed.

Lemma combine_app {A B} (l1 : list A) : forall (r1 : list B) l2 r2,
  length l1 = length r1 -> combine (l1 ++ l2) (r1 ++ r2) = combine l1 r1 ++ combine l2 r2.
Proof.
  induction l1 as [|x l1 IH]; intros [|y r1] l2 r2 H; simpl in *; try discriminate; [reflexivity|].
  f_equal. apply IH. lia.
Qed.

Lemma in_combine_map {A B} (f : A -> B) (l : list A) a b : In (a, b) (combine l (map f l)) -> In a l /\ b = f a.
Proof.
  induction l as [|x l IH]; simpl; [tauto|]. intros [H|H].
  - inversion H; subst. auto.
  - destruct (IH H). auto.
Qed.

Lemma lens_of_app th a b : lens_of th (a ++ b) = lens_of th a ++ lens_of th b.
Proof. unfold lens_of. apply map_app. Qed.

Lemma list_sum_app' a b : list_sum (a ++ b) = list_sum a + list_sum b.
Proof. induction a as [|x a IH]; simpl; [reflexivity|]. rewrite IH. lia. Qed.

(* ---- delivering the results of a batch ---- *)

Lemma cinv_deliver th cx qu qu' rn rn' fp fp' w clg can cc h tn tn' lt br br' batch rs :
  cinv (mkC th cx qu rn fp w clg can cc h tn lt br) ->
  (forall t, In t batch -> In t (qu ++ inflight fp)) -> NoDup batch -> length rs = length batch ->
  (forall t, In t (qu' ++ inflight fp') -> In t (qu ++ inflight fp) /\ ~ In t batch) -> NoDup (qu' ++ inflight fp') ->
  (forall dn cur rest sent n, fp' <> FWriting dn cur rest sent n) ->
  (forall t, In t (handed fp) -> In t batch) ->
  (br = true -> br' = true) -> (tn = true -> tn' = true) ->
  (br' = false -> forall t r, In (t, r) (combine batch rs) ->
       (In (t, fst r) h \/ (fst r = 0 /\ ~ In t (map fst h))) /\ (snd r = None -> fst r = length (frame_of th t))) ->
  (tn' = false -> forall t c, cur_writing fp t c -> closed_entry th (t, c)) ->
  (tn' = true -> tn = true \/ br' = true \/ exists t r, In (t, r) (combine batch rs) /\ must_close r = true) ->
  cinv (mkC (deliver th batch rs) cx qu' rn' fp' w clg can cc h tn' lt br').
Proof.
  intros I Hbatch Hnd Hlen Hq Hqn Hnw' Hhanded Hbr Htn Hres Hcw Htorn.
  assert (Hbq : forall t, In t batch -> pc_of th t = Some PQueued) by (intros t Ht; apply (ci_queued _ I); simpl; apply Hbatch; exact Ht).
  assert (Hblt : forall t, In t batch -> t < length th) by (intros t Ht; eapply pc_of_lt; eauto).
  assert (Hnotb : forall t p, pc_of th t = Some p -> p <> PQueued -> ~ In t batch).
  { intros t p Hp Hne Hin. rewrite (Hbq t Hin) in Hp. congruence. }
  assert (Hbr0 : br' = false -> br = false).
  { intros Hx. destruct br; [|reflexivity]. rewrite Hbr in Hx by reflexivity. discriminate. }
  assert (Htn0 : tn' = false -> tn = false).
  { intros Hx. destruct tn; [|reflexivity]. rewrite Htn in Hx by reflexivity. discriminate. }
  assert (Hh' : handed fp' = []) by (destruct fp'; try reflexivity; exfalso; eapply Hnw'; eauto).
  destruct I as [I1 I2 I3 I4 I5 I6 I7 I8 I9 I10 I11 I12 I13 I14]; simpl in *.
  constructor; simpl.
  - intros t Ht. destruct (Hq t Ht) as [Hin Hnb]. rewrite deliver_pc_notin by assumption. auto.
  - exact Hqn.
  - rewrite pieces_deliver. exact I3.
  - exact I4.
  - intros dn cur rest sent n Hf. exfalso. eapply Hnw'; eauto.
  - intros t Ht. left. destruct (I6 t Ht) as [[p [H1 H2]]|H].
    + exists p. split; [|exact H2]. rewrite deliver_pc_notin; [exact H1|]. eapply Hnotb; eauto. intros ->. discriminate.
    + apply Hhanded in H. apply In_nth_error in H. destruct H as [i Hi].
      assert (Hil : i < length rs). { rewrite Hlen. apply nth_error_Some. congruence. }
      destruct (nth_error rs i) as [r|] eqn:Hr; [|apply nth_error_None in Hr; lia].
      exists (PReturned r). split; [|reflexivity]. eapply deliver_pc_in; eauto.
  - intros Hb t r H. apply deliver_result_cases in H; auto. destruct H as [[Hn H]|[i [H1 H2]]].
    + auto.
    + apply (Hres Hb t r). eapply nth_error_combine_in; eauto.
  - intros t c H. rewrite deliver_frame. auto.
  - intros Hb dn cur rest sent n Hf. exfalso. eapply Hnw'; eauto.
  - intros Hl h1 x Hh. specialize (I10 (Hbr0 Hl) h1 x Hh). eapply Forall_impl; [|exact I10].
    intros a Ha. apply closed_entry_deliver. exact Ha.
  - intros Ht t c Hin. left. apply closed_entry_deliver. destruct (I11 (Htn0 Ht) t c Hin) as [H|H]; [exact H|]. auto.
  - intros Hb t n H. rewrite deliver_frame. apply deliver_result_cases in H; auto. destruct H as [[Hn H]|[i [H1 H2]]].
    + auto.
    + apply (Hres Hb t (n, None)); [eapply nth_error_combine_in; eauto|reflexivity].
  - intros Ht. destruct (Htorn Ht) as [H|[H|[t [r [H1 H2]]]]]; auto.
    + destruct (I13 H) as [H'|[H'|[t [r [H1 H2]]]]]; auto.
      right; right. exists t, r. split; [|exact H2]. rewrite deliver_pc_notin; [exact H1|].
      eapply Hnotb; eauto. discriminate.
    + right; right. exists t, r. split; [|exact H2]. apply in_combine_nth in H1. destruct H1 as [i [Hi Hr]].
      eapply deliver_pc_in; eauto.
  - intros Hc'. destruct (I14 Hc') as [H|[t [r H]]]; auto. right. exists t, r.
    destruct H as [H|H]; [left|right]; (rewrite deliver_pc_notin; [exact H|]; eapply Hnotb; eauto; discriminate).
Qed.

(* ---- FStartWrite None on a non-empty batch ---- *)
Lemma cinv_begin th cx qu rn w clg can cc h tn lt br t0 rest :
  (br = false -> tn = false) ->
  cinv (mkC th cx qu rn (FFlush (t0 :: rest)) w clg can cc h tn lt br) ->
  cinv (mkC th cx qu rn (FWriting [] t0 rest 0 0) w clg can cc (h ++ [(t0, 0)]) tn lt br).
Proof.
  intros Hbt I.
  assert (Hq0 : pc_of th t0 = Some PQueued) by (apply (ci_queued _ I); simpl; apply in_or_app; simpl; auto).
  pose proof (c_not_started_notin _ t0 _ I Hq0 eq_refl) as Hnotin. simpl in Hnotin. specialize (Hnotin (fun x => x)).
  assert (Hres0 : forall r, result_of th t0 = Some r -> False) by (intros r; unfold result_of; rewrite Hq0; discriminate).
  destruct I as [I1 I2 I3 I4 I5 I6 I7 I8 I9 I10 I11 I12 I13 I14]; simpl in *.
  constructor; simpl; auto.
  - rewrite pieces_app, <- I3. simpl. rewrite app_nil_r. reflexivity.
  - rewrite map_app. simpl. apply NoDup_app_last. auto.
  - intros dn cur rest' sent n Hf. inversion Hf; subst. exists h. reflexivity.
  - intros t Ht. rewrite map_app, in_app_iff in Ht. simpl in Ht. destruct Ht as [Ht|[<-|[]]]; [|right; auto].
    destruct (I6 t Ht) as [H|[]]. left. exact H.
  - intros Hb t r H. destruct (I7 Hb t r H) as [H1|[H1 H2]].
    + left. apply in_or_app. auto.
    + right. split; [exact H1|]. rewrite map_app, in_app_iff. simpl. intros [Hx|[Hx|[]]]; [auto|].
      subst. eauto.
  - intros t c H. apply in_app_or in H. destruct H as [H|[H|[]]]; [auto|]. inversion H; subst. lia.
  - intros Hb dn cur rest' sent n Hf. inversion Hf; subst. simpl. split; [reflexivity|tauto].
  - intros Hl h0 x Hh. apply app_inj_tail in Hh. destruct Hh as [<- _].
    pose proof (Hbt Hl) as Htn.
    apply Forall_forall. intros [t c] Hin. destruct (I11 Htn t c Hin) as [H|[dn [rs [n H]]]]; [exact H|discriminate].
  - intros Ht t c Hin. apply in_app_or in Hin. destruct Hin as [Hin|[Hin|[]]].
    + destruct (I11 Ht t c Hin) as [H|[dn [rs [n H]]]]; [left; exact H|discriminate].
    + inversion Hin; subst. left. left. reflexivity.
Qed.

(* ---- FChunk ---- *)
Lemma cinv_chunk th cx qu rn w clg can cc h tn lt br dn cur rest sent n k :
  sent + k <= length (frame_of th cur) ->
  cinv (mkC th cx qu rn (FWriting dn cur rest sent n) w clg can cc h tn lt br) ->
  cinv (mkC th cx qu rn (FWriting dn cur rest (sent + k) n)
            (w ++ tag cur (firstn k (skipn sent (frame_of th cur)))) clg can cc (bump cur k h) tn lt br).
Proof.
  intros Hk I.
  destruct (ci_last _ I dn cur rest sent n eq_refl) as [h0 Hh0]. simpl in Hh0. subst h.
  assert (Hnotin : ~ In cur (map fst h0)).
  { pose proof (ci_nodup _ I) as Hnd. simpl in Hnd. rewrite map_app in Hnd. simpl in Hnd.
    apply NoDup_app_last in Hnd. tauto. }
  rewrite bump_last by assumption.
  assert (Hq0 : pc_of th cur = Some PQueued) by (apply (ci_queued _ I); simpl; rewrite !in_app_iff; simpl; auto).
  assert (Hdn : forall d, In d dn -> d <> cur).
  { intros d Hd ->. pose proof (ci_qnodup _ I) as Hnd. simpl in Hnd. apply NoDup_app_remove_l in Hnd.
    apply NoDup_remove_2 in Hnd. apply Hnd. apply in_or_app. auto. }
  destruct I as [I1 I2 I3 I4 I5 I6 I7 I8 I9 I10 I11 I12 I13 I14]; simpl in *.
  constructor; simpl.
  - exact I1.
  - exact I2.
  - rewrite I3, !pieces_app. simpl. rewrite !app_nil_r, <- app_assoc. f_equal.
    rewrite <- tag_app. f_equal. symmetry. apply firstn_add_skipn.
  - rewrite map_app in *. simpl in *. exact I4.
  - intros dn' cur' rest' sent' n' Hf. inversion Hf; subst. exists h0. reflexivity.
  - intros t Ht. apply I6. rewrite map_app in *. exact Ht.
  - intros Hb t r H. destruct (I7 Hb t r H) as [H1|[H1 H2]].
    + left. apply in_app_or in H1. apply in_or_app. destruct H1 as [H1|[H1|[]]]; [auto|].
      inversion H1; subst. unfold result_of in H. rewrite Hq0 in H. discriminate.
    + right. split; [exact H1|]. rewrite map_app in *. exact H2.
  - intros t c H. apply in_app_or in H. destruct H as [H|[H|[]]].
    + apply I8. apply in_or_app. auto.
    + inversion H; subst. exact Hk.
  - intros Hb dn' cur' rest' sent' n' Hf. destruct (I9 Hb _ _ _ _ _ eq_refl) as [H1 H2]. inversion Hf; subst dn' cur' rest' sent' n'.
    split; [exact H1|]. intros d Hd. specialize (H2 d Hd). apply in_app_or in H2. apply in_or_app.
    destruct H2 as [H2|[H2|[]]]; [auto|]. inversion H2. exfalso. eapply Hdn; eauto.
  - intros Hl h1 x Hh. apply app_inj_tail in Hh. destruct Hh as [<- _]. eapply I10; eauto.
  - intros Ht t c Hin. apply in_app_or in Hin. destruct Hin as [Hin|[Hin|[]]].
    + destruct (I11 Ht t c) as [H|[dn' [rest' [n' H]]]]; [apply in_or_app; auto|left; exact H|].
      inversion H; subst. exfalso. apply Hnotin. eapply in_fst; eauto.
    + inversion Hin; subst. right. exists dn, rest, n. reflexivity.
  - exact I12.
  - exact I13.
  - exact I14.
Qed.

(* ---- FWriteRet None with more buffers to come ---- *)
Lemma cinv_next th cx qu rn w clg can cc h tn lt br dn cur t' rest' sent n :
  (br = false -> tn = false) ->
  cinv (mkC th cx qu rn (FWriting dn cur (t' :: rest') sent n) w clg can cc h tn lt br) ->
  cinv (mkC th cx qu rn (FWriting (dn ++ [cur]) t' rest' 0 (n + sent)) w clg can cc (h ++ [(t', 0)])
            (tn || torn_now sent (length (frame_of th cur)))
            lt
            (br || broken_now sent (length (frame_of th cur)) None)).
Proof.
  intros Hbt I.
  destruct (ci_last _ I _ _ _ _ _ eq_refl) as [h0 Hh0]. simpl in Hh0.
  assert (Hin0 : In (cur, sent) h) by (subst h; apply in_or_app; simpl; auto).
  clear Hh0 h0.
  pose proof (ci_bound _ I cur sent Hin0) as Hb0. simpl in Hb0.
  assert (Hq' : pc_of th t' = Some PQueued) by (apply (ci_queued _ I); simpl; rewrite !in_app_iff; simpl; auto).
  assert (Hnh : ~ In t' (dn ++ [cur])).
  { pose proof (ci_qnodup _ I) as Hnd. simpl in Hnd. apply NoDup_app_remove_l in Hnd.
    replace (dn ++ cur :: t' :: rest') with ((dn ++ [cur]) ++ t' :: rest') in Hnd by (rewrite <- app_assoc; reflexivity).
    apply NoDup_remove_2 in Hnd. intros Hx. apply Hnd. apply in_or_app. auto. }
  pose proof (c_not_started_notin _ t' _ I Hq' eq_refl Hnh) as Hnotin. simpl in Hnotin.
  assert (Hres' : forall r, result_of th t' = Some r -> False) by (intros r; unfold result_of; rewrite Hq'; discriminate).
  destruct I as [I1 I2 I3 I4 I5 I6 I7 I8 I9 I10 I11 I12 I13 I14]; simpl in *.
  assert (Hcw : forall t c, (exists dn' rs' n', FWriting dn cur (t' :: rest') sent n = FWriting dn' t rs' c n') -> t = cur /\ c = sent).
  { intros t c [dn' [rs' [n' H]]]. inversion H; subst. auto. }
  constructor; simpl.
  - intros t Ht. apply I1. rewrite <- app_assoc in Ht. exact Ht.
  - rewrite <- app_assoc. exact I2.
  - rewrite pieces_app, <- I3. simpl. rewrite app_nil_r. reflexivity.
  - rewrite map_app. simpl. apply NoDup_app_last. auto.
  - intros dn' cur' rest'' sent' n' Hf. inversion Hf; subst. exists h. reflexivity.
  - intros t Ht. rewrite map_app, in_app_iff in Ht. simpl in Ht. destruct Ht as [Ht|[<-|[]]].
    + destruct (I6 t Ht) as [H|H]; [left; exact H|right]. apply in_or_app. auto.
    + right. apply in_or_app. simpl. auto.
  - intros Hb t r H. apply orb_false_iff in Hb. destruct Hb as [Hb _]. destruct (I7 Hb t r H) as [H1|[H1 H2]].
    + left. apply in_or_app. auto.
    + right. split; [exact H1|]. rewrite map_app, in_app_iff. simpl. intros [Hx|[Hx|[]]]; [auto|]. subst. eauto.
  - intros t c H. apply in_app_or in H. destruct H as [H|[H|[]]]; [auto|]. inversion H; subst. lia.
  - intros Hb dn' cur' rest'' sent' n' Hf. inversion Hf; subst. apply orb_false_iff in Hb. destruct Hb as [Hb Hbn].
    destruct (I9 Hb _ _ _ _ _ eq_refl) as [H1 H2].
    assert (sent = length (frame_of th cur)) by (eapply broken_now_false; eauto). split.
    + rewrite lens_of_app, list_sum_app'. simpl. lia.
    + intros d Hd. apply in_or_app. left. apply in_app_or in Hd. destruct Hd as [Hd|[<-|[]]]; [auto|]. congruence.
  - intros Hl h1 x Hh. apply app_inj_tail in Hh. destruct Hh as [<- _].
    apply orb_false_iff in Hl. destruct Hl as [Hbf Hbn]. pose proof (Hbt Hbf) as Htn.
    assert (Htn' : torn_now sent (length (frame_of th cur)) = false).
    { assert (sent = length (frame_of th cur)) by (eapply broken_now_false; eauto). unfold torn_now.
      destruct (Nat.ltb_spec sent (length (frame_of th cur))); [lia|]. apply andb_false_r. }
    apply Forall_forall. intros [t c] Hin. destruct (I11 Htn t c Hin) as [H|H]; [exact H|].
    destruct (Hcw t c H) as [-> ->]. unfold closed_entry. simpl. apply torn_now_false; assumption.
  - intros Ht t c Hin. apply orb_false_iff in Ht. destruct Ht as [Htn Htn'].
    apply in_app_or in Hin. destruct Hin as [Hin|[Hin|[]]].
    + left. destruct (I11 Htn t c Hin) as [H|H]; [exact H|].
      destruct (Hcw t c H) as [-> ->]. unfold closed_entry. simpl. apply torn_now_false; assumption.
    + inversion Hin; subst. left. left. reflexivity.
  - intros Hb t m H. apply orb_false_iff in Hb. destruct Hb as [Hb _]. auto.
  - intros Ht. apply orb_true_iff in Ht. destruct Ht as [Ht|Ht].
    + destruct (I13 Ht) as [H|[H|H]]; auto. left. rewrite H. reflexivity.
    + apply torn_now_true in Ht. left. unfold broken_now. simpl.
      destruct (Nat.ltb_spec sent (length (frame_of th cur))); [|lia]. apply orb_true_r.
  - exact I14.
Qed.
