(* C07/Proofs6.v -- coalescer: every step preserves the invariant; consequences (statements of Props.v). *)
From GocqlV Require Import Lib.Base C07.Model C07.Spec C07.Proofs1 C07.Proofs2 C07.Proofs3 C07.Proofs4 C07.Proofs5.
Local Open Scope nat_scope.

(* a request that has not been handed to the flusher returns (0, Some e) / enters closeWithError *)
Lemma cinv_return0 th cx qu rn fp w clg clg' can cc h tn lt br t0 p0 p1 e :
  pc_of th t0 = Some p0 -> started p0 = false -> p0 <> PQueued -> result_of_pc p0 = None ->
  result_of_pc p1 = Some (0, Some e) -> started p1 = true -> p1 <> PQueued ->
  (clg = true -> clg' = true) ->
  (clg' = true -> (exists r', p1 = PCloser1 r') \/ clg = true) ->
  cinv (mkC th cx qu rn fp w clg can cc h tn lt br) ->
  cinv (mkC (set_pc th t0 p1) cx qu rn fp w clg' can cc h tn lt br).
Proof.
  intros Hp0 Hs0 Hq0 Hr0 Hr1 Hs1 Hq1 Hmono Hch I.
  assert (Hnq : ~ In t0 (qu ++ inflight fp)) by (eapply (not_queued_notin _ t0 p0 I); eauto).
  assert (Hnh : ~ In t0 (map fst h)).
  { eapply (c_not_started_notin _ t0 p0 I); eauto. simpl. intros Hx. apply Hnq. apply in_or_app. right.
    apply handed_inflight. exact Hx. }
  eapply cinv_setpc with (p0 := p0); try eassumption.
  - intros t Ht. right. split; [|exact Ht]. intros ->. auto.
  - exact (ci_qnodup _ I).
  - congruence.
  - intros r Hr. right. rewrite Hr1 in Hr. inversion Hr; subst. simpl. repeat split; auto. discriminate.
  - intros [r' [-> _]]. discriminate.
  - intros Hc. destruct (Hch Hc) as [[r' ->]|Hclg].
    + right; left. exists r'. auto.
    + right; right. repeat split; auto; intros r' ->; discriminate.
Qed.

(* a request keeps its result and moves on inside exec / closeWithError *)
Lemma cinv_move th cx qu rn fp w clg clg' can can' cc cc' h tn lt br t0 p0 p1 r :
  pc_of th t0 = Some p0 -> result_of_pc p0 = Some r -> result_of_pc p1 = Some r ->
  (clg = true -> clg' = true) ->
  ((exists r', p0 = PReturned r' /\ must_close r' = true) -> clg' = true) ->
  (clg' = true -> cc' = true \/ (exists r', p1 = PCloser1 r' \/ p1 = PCloser2 r') \/
                  (clg = true /\ (forall r', p0 <> PCloser1 r') /\ (forall r', p0 <> PCloser2 r') /\ cc' = cc)) ->
  cinv (mkC th cx qu rn fp w clg can cc h tn lt br) ->
  cinv (mkC (set_pc th t0 p1) cx qu rn fp w clg' can' cc' h tn lt br).
Proof.
  intros Hp0 Hr0 Hr1 Hmono Hclose Hch I.
  assert (Hq0 : p0 <> PQueued) by (intros ->; discriminate).
  assert (Hnq : ~ In t0 (qu ++ inflight fp)) by (eapply (not_queued_notin _ t0 p0 I); eauto).
  eapply cinv_setpc with (p0 := p0); try eassumption.
  - intros t Ht. right. split; [|exact Ht]. intros ->. auto.
  - exact (ci_qnodup _ I).
  - intros _. destruct p1; simpl in *; congruence.
  - intros r' Hr'. left. congruence.
  - intros Hx. left. auto.
Qed.

(* the flusher's state and what it remembers about torn flushes *)
Definition busy (f : fpc) : bool := match f with FFlush _ | FWriting _ _ _ _ _ => true | _ => false end.

Record cinv2 (s : cstate) : Prop := {
  c2_busy : busy (c_fpc s) = true -> c_running s = false /\ c_queue s = [];
  c2_failed : c_failed s <> None -> c_running s = false /\ c_queue s = [] /\ busy (c_fpc s) = false;
  c2_torn : c_torn s = true -> c_broken s = false -> c_failed s <> None
}.

Lemma cinv2_init : cinv2 c_init.
Proof. constructor; simpl; try discriminate. intros H; congruence. Qed.

(* while a flush is in progress no torn Write has gone unnoticed *)
Lemma cinv2_busy_clean s : cinv2 s -> busy (c_fpc s) = true -> c_broken s = false -> c_torn s = false.
Proof.
  intros I2 Hb Hbr. destruct (c_torn s) eqn:Ht; [|reflexivity]. exfalso.
  pose proof (c2_torn s I2 Ht Hbr) as Hf. destruct (c2_failed s I2 Hf) as [_ [_ Hx]]. congruence.
Qed.

Lemma cinv_set_failed th cx qu rn fp w clg can cc h tn lt lt' br :
  cinv (mkC th cx qu rn fp w clg can cc h tn lt br) -> cinv (mkC th cx qu rn fp w clg can cc h tn lt' br).
Proof. intros I. destruct I; constructor; auto. Qed.

Lemma cinv_step has_to s l s' : cinv s -> cinv2 s -> cstep has_to s l = Some s' -> cinv s'.
Proof.
  intros I I2 H. destruct s as [th cx qu rn fp w clg can cc h tn lt br]. destruct l; cbn [cstep] in H.
  - (* CCall *) destruct clg; [discriminate|]. inversion H; subst. apply cinv_append; auto; intros; discriminate.
  - (* CCtxDone *) destruct (is_ctx_err e); [|discriminate]. inversion H; subst. destruct I; constructor; auto.
  - (* CCtx *) destruct (pc_of th t) as [[| |c| |r| |r1|r2|r3]|] eqn:Hpc; try discriminate.
    destruct (opt_err_eqb (ctx_err cx t) (Some e)); [|discriminate]. inversion H; subst.
    eapply cinv_return0 with (p0 := PSelect); try eassumption; try reflexivity; try discriminate; auto.
  - (* CQuitSel *) destruct (pc_of th t) as [[| |c| |r| |r1|r2|r3]|] eqn:Hpc; try discriminate.
    destruct can; [|discriminate]. inversion H; subst.
    eapply cinv_return0 with (p0 := PSelect); try eassumption; try reflexivity; try discriminate; auto.
  - (* CEnqueue *) destruct (pc_of th t) as [[| |c| |r| |r1|r2|r3]|] eqn:Hpc; try discriminate.
    destruct fp; try discriminate.
    destruct (ctx_err cx t) as [e0|] eqn:Hct; [|destruct lt as [e0|] eqn:Hlt]; inversion H; subst;
      try (eapply cinv_return0 with (p0 := PSelect); try eassumption; try reflexivity; try discriminate; auto; fail).
    assert (Hnq : ~ In t (qu ++ inflight FLoop)) by (eapply (not_queued_notin _ t PSelect I); eauto; discriminate).
    eapply cinv_setpc with (p0 := PSelect); try eassumption; simpl in *.
    + intros t' Ht'. rewrite app_nil_r in *. apply in_app_or in Ht'. destruct Ht' as [Ht'|[<-|[]]]; [right|left; auto].
      split; [intros ->; auto|exact Ht'].
    + rewrite app_nil_r in *. apply NoDup_app_last. split; [|exact Hnq]. pose proof (ci_qnodup _ I) as Hx. simpl in Hx.
      rewrite app_nil_r in Hx. exact Hx.
    + discriminate.
    + intros r Hr. discriminate.
    + intros [r' [Hr' _]]. discriminate.
    + auto.
    + intros Hc. right; right. repeat split; auto; intros r' Hr'; discriminate.
  - (* FTimer *) destruct fp; try discriminate. destruct rn; [|discriminate]. inversion H; subst.
    eapply cinv_flusher; try eassumption; simpl; try (intros; discriminate).
    + intros t Ht. rewrite app_nil_r. exact Ht.
    + pose proof (ci_qnodup _ I) as Hx. simpl in Hx. rewrite app_nil_r in Hx. exact Hx.
  - (* FStartWrite *) destruct fp; try discriminate. destruct dl as [e|].
    + destruct has_to; [|discriminate]. inversion H; subst.
      eapply cinv_deliver with (fp := FFlush batch) (tn := tn) (br := br); simpl.
      * exact I.
      * intros t Ht. apply in_or_app. auto.
      * pose proof (ci_qnodup _ I) as Hx. simpl in Hx. eapply NoDup_app_remove_l; eauto.
      * rewrite map_length. reflexivity.
      * intros t Ht. rewrite app_nil_r in Ht. split; [apply in_or_app; auto|].
        pose proof (ci_qnodup _ I) as Hx. simpl in Hx. intros Hb. clear -Hx Ht Hb.
        induction qu as [|a qu IH]; simpl in *; [tauto|]. inversion Hx; subst. destruct Ht as [->|Ht]; [|auto].
        apply H1. apply in_or_app. auto.
      * rewrite app_nil_r. pose proof (ci_qnodup _ I) as Hx. simpl in Hx. clear -Hx.
        induction qu as [|a qu IH]; simpl in *; [constructor|]. inversion Hx; subst. constructor; [|auto].
        intros Hin. apply H1. apply in_or_app. auto.
      * intros; discriminate.
      * tauto.
      * auto.
      * auto.
      * intros _ t r Hin.
        assert (Hr : In t batch /\ r = (0, Some e)).
        { clear -Hin. induction batch as [|a b IH]; simpl in *; [tauto|]. destruct Hin as [Hin|Hin]; [inversion Hin; auto|].
          destruct (IH Hin). auto. }
        destruct Hr as [Ht ->]. simpl. split; [|discriminate]. right. split; [reflexivity|].
        assert (Hq : pc_of th t = Some PQueued) by (apply (ci_queued _ I); simpl; apply in_or_app; auto).
        eapply (c_not_started_notin _ t _ I); eauto.
      * intros _ t c [dn [rest [n Hx]]]. discriminate.
      * auto.
    + destruct batch as [|t0 rest]; inversion H; subst.
      * eapply cinv_flusher; try eassumption; simpl; try (intros; discriminate); auto.
        pose proof (ci_qnodup _ I) as Hx. simpl in Hx. exact Hx.
      * apply cinv_begin; [|exact I]. intros Hbr. exact (cinv2_busy_clean _ I2 eq_refl Hbr).
  - (* FChunk *) destruct fp; try discriminate. destruct cc; [discriminate|].
    destruct (sent + k <=? length (frame_of th cur)) eqn:Hk; [|discriminate]. inversion H; subst.
    apply cinv_chunk; [apply Nat.leb_le; exact Hk|exact I].
  - (* FWriteRet *) destruct fp as [| |dn cur rest sent n|]; try discriminate.
    assert (Hfin : forall e' lt', (e' = None -> rest = []) ->
              cinv (mkC (finish_flush th (dn ++ cur :: rest) (n + sent) e') cx qu rn FLoop w clg can cc h
                        (tn || torn_now sent (length (frame_of th cur))) lt'
                        (br || broken_now sent (length (frame_of th cur)) e'))).
    { intros e' lt' He'. apply cinv_set_failed with (lt := lt). unfold finish_flush.
      destruct (ci_last _ I _ _ _ _ _ eq_refl) as [h0 Hh0]. simpl in Hh0.
      assert (Hin0 : In (cur, sent) h) by (rewrite Hh0; apply in_or_app; simpl; auto).
      pose proof (ci_bound _ I cur sent Hin0) as Hb0. simpl in Hb0.
      pose proof (ci_qnodup _ I) as Hqn. simpl in Hqn.
      assert (Hbn : NoDup (dn ++ cur :: rest)) by (eapply NoDup_app_remove_l; eauto).
      eapply cinv_deliver with (fp := FWriting dn cur rest sent n) (tn := tn) (br := br); simpl.
      - exact I.
      - intros t Ht. apply in_or_app. auto.
      - exact Hbn.
      - rewrite attribute_length. unfold lens_of. apply map_length.
      - intros t Ht. rewrite app_nil_r in Ht. split; [apply in_or_app; auto|]. intros Hb. clear -Hqn Ht Hb.
        induction qu as [|a qu IH]; simpl in *; [tauto|]. inversion Hqn; subst. destruct Ht as [->|Ht]; [|auto].
        apply H1. apply in_or_app. auto.
      - rewrite app_nil_r. clear -Hqn. induction qu as [|a qu IH]; simpl in *; [constructor|]. inversion Hqn; subst.
        constructor; [|auto]. intros Hin. apply H1. apply in_or_app. auto.
      - intros; discriminate.
      - intros t Ht. apply in_app_or in Ht. apply in_or_app. simpl in *. tauto.
      - intros ->. reflexivity.
      - intros ->. reflexivity.
      - (* what each member of the batch is told *)
        intros Hb' t r Hin. apply orb_false_iff in Hb'. destruct Hb' as [Hb Hbn'].
        destruct (ci_progress _ I Hb _ _ _ _ _ eq_refl) as [Hn Hdn]. simpl in Hn, Hdn.
        rewrite lens_of_app in Hin. simpl in Hin. rewrite Hn in Hin. rewrite attribute_split in Hin by exact Hb0.
        rewrite combine_app in Hin by (unfold lens_of; rewrite !map_length; reflexivity).
        simpl in Hin. apply in_app_or in Hin. destruct Hin as [Hin|[Hin|Hin]].
        + unfold lens_of in Hin. rewrite map_map in Hin. apply in_combine_map in Hin. destruct Hin as [Hd ->]. simpl.
          split; [left; auto|reflexivity].
        + inversion Hin; subst t r. clear Hin. destruct (Nat.leb_spec (length (frame_of th cur)) sent) as [Hle|Hgt]; simpl.
          * assert (sent = length (frame_of th cur)) by lia. split; [left; congruence|reflexivity].
          * split; [left; exact Hin0|]. intros ->. unfold broken_now in Hbn'. simpl in Hbn'.
            destruct (Nat.ltb_spec sent (length (frame_of th cur))); [discriminate|lia].
        + unfold lens_of in Hin. rewrite map_map in Hin. apply in_combine_map in Hin. destruct Hin as [Hd ->].
          assert (Hq : pc_of th t = Some PQueued) by (apply (ci_queued _ I); simpl; rewrite !in_app_iff; simpl; auto).
          assert (Hnh : ~ In t (map fst h)).
          { eapply (c_not_started_notin _ t _ I); eauto. simpl. intros Hx.
            assert (Hnd' : NoDup ((dn ++ [cur]) ++ rest)) by (rewrite <- app_assoc; exact Hbn).
            clear -Hnd' Hx Hd. induction (dn ++ [cur]) as [|a l IH]; simpl in *; [tauto|]. inversion Hnd'; subst.
            destruct Hx as [->|Hx]; [|auto]. apply H1. apply in_or_app. auto. }
          unfold unwritten. destruct (Nat.eqb_spec (length (frame_of th t)) 0) as [H0|H0]; simpl.
          * split; [right; auto|]. intros _. lia.
          * split; [right; auto|]. intros ->. specialize (He' eq_refl). subst rest. destruct Hd.
      - intros Ht t c [dn' [rest' [n' Hx]]]. inversion Hx; subst. apply orb_false_iff in Ht. destruct Ht as [_ Ht].
        unfold closed_entry. simpl. apply torn_now_false; assumption.
      - intros Ht. apply orb_true_iff in Ht. destruct Ht as [Ht|Ht]; [left; exact Ht|]. right.
        destruct br eqn:Hbr; [left; reflexivity|]. simpl.
        apply torn_now_true in Ht. destruct e' as [x|].
        + right. exists cur, (sent, Some x). split; [|apply must_close_partial; lia].
          destruct (ci_progress _ I eq_refl _ _ _ _ _ eq_refl) as [Hn Hdn]. simpl in Hn, Hdn.
          rewrite lens_of_app. simpl. rewrite Hn. rewrite attribute_split by exact Hb0.
          rewrite combine_app by (unfold lens_of; rewrite !map_length; reflexivity).
          apply in_or_app. right. simpl. left. destruct (Nat.leb_spec (length (frame_of th cur)) sent); [lia|reflexivity].
        + left. unfold broken_now. simpl. destruct (Nat.ltb_spec sent (length (frame_of th cur))); [reflexivity|lia]. }
    destruct e as [x|].
    + inversion H; subst. apply Hfin. discriminate.
    + destruct rest as [|t' rest'].
      * inversion H; subst. apply Hfin. reflexivity.
      * inversion H; subst. apply cinv_next; [|exact I]. intros Hbr. exact (cinv2_busy_clean _ I2 eq_refl Hbr).
  - (* FQuit *) destruct fp; try discriminate. destruct can; [|discriminate]. inversion H; subst.
    pose proof (ci_qnodup _ I) as Hqn. simpl in Hqn. rewrite app_nil_r in Hqn.
    eapply cinv_deliver with (fp := FLoop) (tn := tn) (br := br); simpl.
    + exact I.
    + intros t Ht. rewrite app_nil_r. exact Ht.
    + exact Hqn.
    + rewrite map_length. reflexivity.
    + tauto.
    + constructor.
    + intros; discriminate.
    + tauto.
    + auto.
    + auto.
    + intros _ t r Hin.
      assert (Hr : In t qu /\ r = (0, Some EEOF)).
      { clear -Hin. induction qu as [|a b IH]; simpl in *; [tauto|]. destruct Hin as [Hin|Hin]; [inversion Hin; auto|].
        destruct (IH Hin). auto. }
      destruct Hr as [Ht ->]. simpl. split; [|discriminate]. right. split; [reflexivity|].
      assert (Hq : pc_of th t = Some PQueued) by (apply (ci_queued _ I); simpl; apply in_or_app; auto).
      eapply (c_not_started_notin _ t _ I); eauto.
    + intros _ t c [dn [rest [n Hx]]]. discriminate.
    + auto.
  - (* CAfter *) unfold after_return in H.
    destruct (pc_of th t) as [[| |c| |r| |r1|r2|r3]|] eqn:Hpc; try discriminate.
    + destruct (must_close r) eqn:Hm; [destruct clg eqn:Hclg|]; inversion H; subst.
      * eapply cinv_move with (p0 := PReturned r) (r := r); try eassumption; try reflexivity; auto.
        intros _. right; right. repeat split; auto; intros; discriminate.
      * eapply cinv_move with (p0 := PReturned r) (r := r); try eassumption; try reflexivity; auto.
        intros _. right; left. exists r. auto.
      * eapply cinv_move with (p0 := PReturned r) (r := r); try eassumption; try reflexivity; auto.
        -- intros [r' [Hr' Hm']]. inversion Hr'; subst. congruence.
        -- intros Hc. right; right. repeat split; auto; intros; discriminate.
    + destruct clg eqn:Hclg; inversion H; subst.
      * eapply cinv_return0 with (p0 := PExt); try eassumption; try reflexivity; try discriminate; auto.
      * eapply cinv_return0 with (p0 := PExt); try eassumption; try reflexivity; try discriminate; auto.
        intros _. left. eexists. reflexivity.
  - (* CCancel *) destruct (pc_of th t) as [[| |c| |r| |r1|r2|r3]|] eqn:Hpc; try discriminate. inversion H; subst.
    eapply cinv_move with (p0 := PCloser1 r1) (r := r1); try eassumption; try reflexivity; auto.
    + intros [r' [Hr' _]]. discriminate.
    + intros _. right; left. exists r1. auto.
  - (* CClose *) destruct (pc_of th t) as [[| |c| |r| |r1|r2|r3]|] eqn:Hpc; try discriminate. inversion H; subst.
    eapply cinv_move with (p0 := PCloser2 r2) (r := r2); try eassumption; try reflexivity; auto.
    intros [r' [Hr' _]]. discriminate.
  - (* CExtClose *) inversion H; subst. apply cinv_append; auto; intros; discriminate.
Qed.


Lemma cinv2_same th cx qu rn fp w clg can cc h tn lt br th' cx' w' clg' can' cc' h' :
  cinv2 (mkC th cx qu rn fp w clg can cc h tn lt br) -> cinv2 (mkC th' cx' qu rn fp w' clg' can' cc' h' tn lt br).
Proof. intros [J1 J2 J3]. constructor; auto. Qed.

Lemma cinv2_step has_to s l s' : cinv s -> cinv2 s -> cstep has_to s l = Some s' -> cinv2 s'.
Proof.
  intros I I2 H. destruct s as [th cx qu rn fp w clg can cc h tn lt br].
  pose proof I2 as [J1 J2 J3]. simpl in J1, J2, J3.
  destruct l; cbn [cstep] in H.
  - destruct clg; [discriminate|]. inversion H; subst. eapply cinv2_same; eauto.
  - destruct (is_ctx_err e); [|discriminate]. inversion H; subst. eapply cinv2_same; eauto.
  - break_match H; inversion H; subst. eapply cinv2_same; eauto.
  - break_match H; inversion H; subst. eapply cinv2_same; eauto.
  - (* CEnqueue *) destruct (pc_of th t) as [[| |c| |r| |r1|r2|r3]|] eqn:Hpc; try discriminate.
    destruct fp; try discriminate.
    destruct (ctx_err cx t) as [e0|] eqn:Hct; [|destruct lt as [e0|] eqn:Hlt]; inversion H; subst;
      try (eapply cinv2_same; eauto; fail).
    constructor; simpl; try discriminate; [congruence|exact J3].
  - (* FTimer *) destruct fp; try discriminate. destruct rn; [|discriminate]. inversion H; subst.
    constructor; simpl; auto. intros Hf. destruct (J2 Hf) as [Hx _]. discriminate.
  - (* FStartWrite *) destruct fp; try discriminate.
    assert (Hnf : lt <> None -> False) by (intros Hf; destruct (J2 Hf) as [_ [_ Hx]]; discriminate).
    destruct dl as [e|].
    + destruct has_to; [|discriminate]. inversion H; subst. constructor; simpl; try discriminate; auto.
      intros Hf. exfalso. auto.
    + destruct batch as [|t0 rest]; inversion H; subst; constructor; simpl; try discriminate; auto;
        intros Hf; exfalso; auto.
  - (* FChunk *) destruct fp as [| |dn cur rest sent n|]; try discriminate. break_match H; inversion H; subst.
    constructor; simpl; auto.
  - (* FWriteRet *) destruct fp as [| |dn cur rest sent n|]; try discriminate.
    assert (Hnf : lt <> None -> False) by (intros Hf; destruct (J2 Hf) as [_ [_ Hx]]; discriminate).
    destruct (J1 eq_refl) as [Hrn Hqu].
    assert (Hfin : forall e', cinv2 (mkC (finish_flush th (dn ++ cur :: rest) (n + sent) e') cx qu rn FLoop w clg can cc h
                        (tn || torn_now sent (length (frame_of th cur)))
                        (if attribute_torn (lens_of th (dn ++ cur :: rest)) (n + sent) then Some (tear_err e') else lt)
                        (br || broken_now sent (length (frame_of th cur)) e'))).
    { intros e'. constructor; simpl; try discriminate; [auto|].
      intros Ht Hb. apply orb_false_iff in Hb. destruct Hb as [Hb Hbn].
      destruct (attribute_torn (lens_of th (dn ++ cur :: rest)) (n + sent)) eqn:Ea; [discriminate|].
      apply orb_true_iff in Ht. destruct Ht as [Ht|Ht]; [auto|]. exfalso.
      destruct (ci_last _ I _ _ _ _ _ eq_refl) as [h0 Hh0]. simpl in Hh0.
      assert (Hin0 : In (cur, sent) h) by (rewrite Hh0; apply in_or_app; simpl; auto).
      pose proof (ci_bound _ I cur sent Hin0) as Hb0. simpl in Hb0.
      destruct (ci_progress _ I Hb _ _ _ _ _ eq_refl) as [Hn _]. simpl in Hn.
      rewrite lens_of_app in Ea. simpl in Ea. rewrite Hn, attribute_torn_split in Ea by exact Hb0.
      unfold torn_now in Ht. congruence. }
    destruct e as [x|].
    + inversion H; subst. apply Hfin.
    + destruct rest as [|t' rest'].
      * inversion H; subst. apply Hfin.
      * inversion H; subst. constructor; simpl; [auto|intros Hf; exfalso; auto|].
        intros Ht Hb. apply orb_false_iff in Hb. destruct Hb as [Hb Hbn]. unfold broken_now in Hbn. simpl in Hbn.
        assert (Htn : torn_now sent (length (frame_of th cur)) = false).
        { unfold torn_now. rewrite Hbn. apply andb_false_r. }
        rewrite Htn, orb_false_r in Ht. auto.
  - (* FQuit *) destruct fp; try discriminate. destruct can; [|discriminate]. inversion H; subst.
    constructor; simpl; try discriminate; auto. intros Hf. destruct (J2 Hf) as [Hx _]. auto.
  - destruct (after_return th clg t) as [[th' clg']|] eqn:E; [|discriminate]. inversion H; subst. eapply cinv2_same; eauto.
  - break_match H; inversion H; subst. eapply cinv2_same; eauto.
  - break_match H; inversion H; subst. eapply cinv2_same; eauto.
  - inversion H; subst. eapply cinv2_same; eauto.
Qed.

Definition call (s : cstate) : Prop := cinv s /\ cinv2 s.

Lemma call_reachable has_to ls s : crun has_to c_init ls = Some s -> call s.
Proof.
  unfold crun. apply lts_invariant with (Inv := call); [|split; [exact cinv_init|exact cinv2_init]].
  intros s0 l s1 [I I2] H. split; [eapply cinv_step; eauto|eapply cinv2_step; eauto].
Qed.

Lemma cinv_reachable has_to ls s : crun has_to c_init ls = Some s -> cinv s.
Proof. intros H. exact (proj1 (call_reachable has_to ls s H)). Qed.

Lemma cinv2_reachable has_to ls s : crun has_to c_init ls = Some s -> cinv2 s.
Proof. intros H. exact (proj2 (call_reachable has_to ls s H)). Qed.
