(* C07/Proofs2.v -- the invariant of the direct writer's transition system and its preservation. *)
From GocqlV Require Import Lib.Base C07.Model C07.Spec C07.Proofs1.
Local Open Scope nat_scope.

Definition started (p : pc) : bool :=
  match p with PWriting _ | PReturned _ | PCloser1 _ | PCloser2 _ | PDone _ => true | _ => false end.
Definition critical (p : pc) : bool := match p with PHold | PWriting _ => true | _ => false end.

(* a Write call that took nothing or everything *)
Definition closed_entry (th : threads) (tc : nat * nat) : Prop :=
  snd tc = 0 \/ snd tc = length (frame_of th (fst tc)).

Record dinv (s : dstate) : Prop := {
  di_sem : forall t p, pc_of (d_thr s) t = Some p -> critical p = true -> d_sem s = Some t;
  di_wire : d_wire s = pieces (frame_of (d_thr s)) (d_hist s);
  di_nodup : NoDup (map fst (d_hist s));
  di_last : forall t c, pc_of (d_thr s) t = Some (PWriting c) -> exists h, d_hist s = h ++ [(t, c)];
  di_started : forall t, In t (map fst (d_hist s)) -> exists p, pc_of (d_thr s) t = Some p /\ started p = true;
  di_count : forall t r, result_of (d_thr s) t = Some r ->
             In (t, fst r) (d_hist s) \/ (fst r = 0 /\ ~ In t (map fst (d_hist s)));
  di_bound : forall t c, In (t, c) (d_hist s) -> c <= length (frame_of (d_thr s) t);
  di_shape_a : forall h x, d_hist s = h ++ [x] -> Forall (closed_entry (d_thr s)) h;
  di_shape_b : d_torn s = false -> forall t c, In (t, c) (d_hist s) ->
               closed_entry (d_thr s) (t, c) \/ pc_of (d_thr s) t = Some (PWriting c);
  di_ok : d_broken s = false -> forall t n, result_of (d_thr s) t = Some (n, None) -> n = length (frame_of (d_thr s) t);
  di_torn : d_torn s = true -> d_broken s = true \/ d_closing s = true \/
            exists t r, pc_of (d_thr s) t = Some (PReturned r) /\ must_close r = true;
  di_closing : d_closing s = true -> d_connclosed s = true \/
               exists t r, pc_of (d_thr s) t = Some (PCloser1 r) \/ pc_of (d_thr s) t = Some (PCloser2 r)
}.

Lemma dinv_init : dinv d_init.
Proof.
  constructor; simpl; try discriminate; try tauto; try (intros; discriminate).
  - intros t p H. destruct t; discriminate.
  - constructor.
  - intros t c H. destruct t; discriminate.
  - intros t r H. destruct t; discriminate.
  - intros h x H. destruct h; discriminate.
  - intros _ t n H. destruct t; discriminate.
Qed.

(* ---- how the thread table changes ---- *)

Lemma pieces_set th t p h : pieces (frame_of (set_pc th t p)) h = pieces (frame_of th) h.
Proof. apply pieces_ext. intros. apply frame_of_set. Qed.

Lemma closed_entry_set th t p tc : closed_entry (set_pc th t p) tc <-> closed_entry th tc.
Proof. unfold closed_entry. rewrite frame_of_set. tauto. Qed.

Lemma Forall_closed_set th t p h : Forall (closed_entry th) h -> Forall (closed_entry (set_pc th t p)) h.
Proof. intros H. eapply Forall_impl; [|exact H]. intros a Ha. apply closed_entry_set. exact Ha. Qed.

Lemma result_of_set th t0 p t r :
  result_of (set_pc th t0 p) t = Some r ->
  (t = t0 /\ result_of_pc p = Some r) \/ (t <> t0 /\ result_of th t = Some r).
Proof.
  unfold result_of. destruct (pc_of (set_pc th t0 p) t) as [q|] eqn:E; [|discriminate]. intros H.
  apply pc_of_set in E. destruct E as [[-> ->]|[Hne E]]; [left; auto|right]. rewrite E. auto.
Qed.

Lemma in_hist_lt s t : dinv s -> In t (map fst (d_hist s)) -> t < length (d_thr s).
Proof. intros I H. apply (di_started s I) in H. destruct H as [p [H _]]. eapply pc_of_lt; eauto. Qed.

Lemma not_started_notin s t p : dinv s -> pc_of (d_thr s) t = Some p -> started p = false -> ~ In t (map fst (d_hist s)).
Proof.
  intros I H Hs Hin. apply (di_started s I) in Hin. destruct Hin as [p' [H' Hs']]. congruence.
Qed.

Lemma in_fst {A B} (a : A) (b : B) l : In (a, b) l -> In a (map fst l).
Proof. intros H. change a with (fst (a, b)). apply in_map. exact H. Qed.

(* appending a new request *)
Lemma dinv_append th cx sem w q clg can cc h tn lt br f p :
  started p = false -> critical p = false -> result_of_pc p = None ->
  (forall r, p <> PReturned r) -> (forall r, p <> PCloser1 r) -> (forall r, p <> PCloser2 r) ->
  dinv (mkD th cx sem w q clg can cc h tn lt br) ->
  dinv (mkD (th ++ [(f, p)]) cx sem w q clg can cc h tn lt br).
Proof.
  intros Hs Hc Hr Hn1 Hn2 Hn3 I.
  assert (Hlt : forall t, In t (map fst h) -> t < length th) by (intros t Ht; exact (in_hist_lt _ t I Ht)).
  assert (Hfr : forall t, In t (map fst h) -> frame_of (th ++ [(f, p)]) t = frame_of th t).
  { intros t Ht. apply frame_of_app_old. auto. }
  assert (Hce : forall tc, In tc h -> closed_entry (th ++ [(f, p)]) tc <-> closed_entry th tc).
  { intros [t c] Hin. unfold closed_entry. simpl. rewrite Hfr by (eapply in_fst; eauto). tauto. }
  destruct I as [I1 I2 I3 I4 I5 I6 I7 I8 I9 I10 I11 I12]; simpl in *.
  constructor; simpl.
  - intros t p' H Hcr. apply pc_of_app in H. destruct H as [[_ H]|[_ H]]; [eauto|]. simpl in H. congruence.
  - rewrite I2. apply pieces_ext. intros t Ht. symmetry. apply Hfr. exact Ht.
  - exact I3.
  - intros t c H. apply pc_of_app in H. destruct H as [[_ H]|[_ H]]; [eauto|]. simpl in H. subst. discriminate.
  - intros t Ht. destruct (I5 t Ht) as [p' [H1 H2]]. exists p'. split; [|exact H2].
    rewrite pc_of_app_old; [exact H1|]. eapply pc_of_lt; eauto.
  - intros t r H. unfold result_of in H. destruct (pc_of (th ++ [(f, p)]) t) as [p'|] eqn:E; [|discriminate].
    apply pc_of_app in E. destruct E as [[_ E]|[_ E]].
    + apply I6. unfold result_of. rewrite E. exact H.
    + simpl in E. subst. congruence.
  - intros t c H. rewrite Hfr by (eapply in_fst; eauto). auto.
  - intros h0 x Hh. specialize (I8 h0 x Hh). rewrite Forall_forall in *. intros tc Htc.
    apply Hce; [subst; apply in_or_app; auto|]. auto.
  - intros Ht t c Hin. destruct (I9 Ht t c Hin) as [H|H].
    + left. apply Hce; assumption.
    + right. rewrite pc_of_app_old; [exact H|]. eapply pc_of_lt; eauto.
  - intros Hb t n H. unfold result_of in H. destruct (pc_of (th ++ [(f, p)]) t) as [p'|] eqn:E; [|discriminate].
    apply pc_of_app in E. destruct E as [[Hlt' E]|[_ E]].
    + rewrite frame_of_app_old by assumption. apply I10; [assumption|]. unfold result_of. rewrite E. exact H.
    + simpl in E. subst. congruence.
  - intros Ht. destruct (I11 Ht) as [H|[H|[t [r [H1 H2]]]]]; auto.
    right; right. exists t, r. split; [|exact H2]. rewrite pc_of_app_old; [exact H1|]. eapply pc_of_lt; eauto.
  - intros Hc'. destruct (I12 Hc') as [H|[t [r H]]]; auto. right. exists t, r.
    destruct H as [H|H]; [left|right]; (rewrite pc_of_app_old; [exact H|]; eapply pc_of_lt; eauto).
Qed.

(* a request that has not touched the connection returns (0, Some e) *)
Lemma dinv_return0 th cx sem sem' w q clg can cc h tn lt br t0 p0 e :
  pc_of th t0 = Some p0 -> started p0 = false ->
  (forall r, p0 <> PReturned r) -> (forall r, p0 <> PCloser1 r) -> (forall r, p0 <> PCloser2 r) ->
  (sem' = sem \/ (sem' = None /\ sem = Some t0)) ->
  dinv (mkD th cx sem w q clg can cc h tn lt br) ->
  dinv (mkD (set_pc th t0 (PReturned (0, Some e))) cx sem' w q clg can cc h tn lt br).
Proof.
  intros Hp0 Hs Hn1 Hn2 Hn3 Hsem I.
  pose proof (not_started_notin _ t0 p0 I Hp0 Hs) as Hnotin. simpl in Hnotin.
  pose proof (pc_of_lt _ _ _ Hp0) as Hlt0.
  destruct I as [I1 I2 I3 I4 I5 I6 I7 I8 I9 I10 I11 I12]; simpl in *.
  constructor; simpl.
  - intros t p H Hcr. apply pc_of_set in H. destruct H as [[-> ->]|[Hne H]]; [discriminate|].
    specialize (I1 t p H Hcr). destruct Hsem as [->|[-> Hs']]; [exact I1|]. exfalso. apply Hne. congruence.
  - rewrite pieces_set. exact I2.
  - exact I3.
  - intros t c H. apply pc_of_set in H. destruct H as [[_ H]|[_ H]]; [discriminate|eauto].
  - intros t Ht. destruct (I5 t Ht) as [p [H1 H2]]. exists p. split; [|exact H2].
    rewrite pc_of_set_other; [exact H1|]. intros ->. congruence.
  - intros t r H. apply result_of_set in H. destruct H as [[-> H]|[_ H]].
    + simpl in H. inversion H; subst. right. simpl. auto.
    + auto.
  - intros t c H. rewrite frame_of_set. auto.
  - intros h0 x Hh. apply Forall_closed_set. eauto.
  - intros Ht t c Hin. destruct (I9 Ht t c Hin) as [H|H].
    + left. apply closed_entry_set. exact H.
    + right. rewrite pc_of_set_other; [exact H|]. intros ->. rewrite Hp0 in H. inversion H; subst. discriminate.
  - intros Hb t n H. rewrite frame_of_set. apply result_of_set in H. destruct H as [[-> H]|[_ H]]; [discriminate|auto].
  - intros Ht. destruct (I11 Ht) as [H|[H|[t [r [H1 H2]]]]]; auto.
    right; right. exists t, r. split; [|exact H2]. rewrite pc_of_set_other; [exact H1|]. intros ->.
    rewrite Hp0 in H1. inversion H1. eapply Hn1; eauto.
  - intros Hc'. destruct (I12 Hc') as [H|[t [r H]]]; auto. right. exists t, r.
    destruct H as [H|H]; [left|right]; (rewrite pc_of_set_other; [exact H|]; intros ->; rewrite Hp0 in H; inversion H).
    + eapply Hn2; eauto.
    + eapply Hn3; eauto.
Qed.

(* DAcquire *)
Lemma dinv_acquire th cx w q clg can cc h tn lt br t0 :
  pc_of th t0 = Some PSelect ->
  dinv (mkD th cx None w q clg can cc h tn lt br) ->
  dinv (mkD (set_pc th t0 PHold) cx (Some t0) w q clg can cc h tn lt br).
Proof.
  intros Hp0 I. pose proof (pc_of_lt _ _ _ Hp0) as Hlt0.
  destruct I as [I1 I2 I3 I4 I5 I6 I7 I8 I9 I10 I11 I12]; simpl in *.
  constructor; simpl.
  - intros t p H Hcr. apply pc_of_set in H. destruct H as [[-> ->]|[Hne H]]; [reflexivity|].
    specialize (I1 t p H Hcr). discriminate.
  - rewrite pieces_set. exact I2.
  - exact I3.
  - intros t c H. apply pc_of_set in H. destruct H as [[_ H]|[_ H]]; [discriminate|eauto].
  - intros t Ht. destruct (I5 t Ht) as [p [H1 H2]]. exists p. split; [|exact H2].
    rewrite pc_of_set_other; [exact H1|]. intros ->. rewrite Hp0 in H1. inversion H1; subst. discriminate.
  - intros t r H. apply result_of_set in H. destruct H as [[-> H]|[_ H]]; [discriminate|auto].
  - intros t c H. rewrite frame_of_set. auto.
  - intros h0 x Hh. apply Forall_closed_set. eauto.
  - intros Ht t c Hin. destruct (I9 Ht t c Hin) as [H|H].
    + left. apply closed_entry_set. exact H.
    + right. rewrite pc_of_set_other; [exact H|]. intros ->. congruence.
  - intros Hb t n H. rewrite frame_of_set. apply result_of_set in H. destruct H as [[-> H]|[_ H]]; [discriminate|auto].
  - intros Ht. destruct (I11 Ht) as [H|[H|[t [r [H1 H2]]]]]; auto.
    right; right. exists t, r. split; [|exact H2]. rewrite pc_of_set_other; [exact H1|]. intros ->. congruence.
  - intros Hc'. destruct (I12 Hc') as [H|[t [r H]]]; auto. right. exists t, r.
    destruct H as [H|H]; [left|right]; (rewrite pc_of_set_other; [exact H|]; intros ->; congruence).
Qed.

(* DStartWrite t None *)
Lemma dinv_begin th cx sem w q clg can cc h tn lt br t0 :
  pc_of th t0 = Some PHold -> tn = false ->
  dinv (mkD th cx sem w q clg can cc h tn lt br) ->
  dinv (mkD (set_pc th t0 (PWriting 0)) cx sem w q clg can cc (h ++ [(t0, 0)]) tn lt br).
Proof.
  intros Hp0 Htn I. pose proof (pc_of_lt _ _ _ Hp0) as Hlt0.
  pose proof (not_started_notin _ t0 _ I Hp0 eq_refl) as Hnotin. simpl in Hnotin.
  assert (Hnow : forall t c, pc_of th t = Some (PWriting c) -> False).
  { intros t c H. pose proof (di_sem _ I t _ H eq_refl) as H1. pose proof (di_sem _ I t0 _ Hp0 eq_refl) as H2.
    simpl in *. assert (t = t0) by congruence. subst. congruence. }
  destruct I as [I1 I2 I3 I4 I5 I6 I7 I8 I9 I10 I11 I12]; simpl in *.
  constructor; simpl.
  - intros t p H Hcr. apply pc_of_set in H. destruct H as [[-> ->]|[Hne H]]; [eauto|eauto].
  - rewrite pieces_set, pieces_app, <- I2. simpl. rewrite app_nil_r. reflexivity.
  - rewrite map_app. simpl. apply NoDup_app_last. auto.
  - intros t c H. apply pc_of_set in H. destruct H as [[-> H]|[_ H]].
    + inversion H; subst. exists h. reflexivity.
    + exfalso. eauto.
  - intros t Ht. rewrite map_app, in_app_iff in Ht. simpl in Ht. destruct Ht as [Ht|[<-|[]]].
    + destruct (I5 t Ht) as [p [H1 H2]]. exists p. split; [|exact H2].
      rewrite pc_of_set_other; [exact H1|]. intros ->. tauto.
    + exists (PWriting 0). split; [apply pc_of_set_same; assumption|reflexivity].
  - intros t r H. apply result_of_set in H. destruct H as [[-> H]|[Hne H]]; [discriminate|].
    destruct (I6 t r H) as [H1|[H1 H2]].
    + left. apply in_or_app. auto.
    + right. split; [exact H1|]. rewrite map_app, in_app_iff. simpl. intuition congruence.
  - intros t c H. rewrite frame_of_set. apply in_app_or in H. destruct H as [H|[H|[]]]; [auto|].
    inversion H; subst. lia.
  - intros h0 x Hh. apply app_inj_tail in Hh. destruct Hh as [<- _]. apply Forall_closed_set.
    apply Forall_forall. intros [t c] Hin. destruct (I9 Htn t c Hin) as [H|H]; [exact H|]. exfalso. eauto.
  - intros Ht t c Hin. apply in_app_or in Hin. destruct Hin as [Hin|[Hin|[]]].
    + destruct (I9 Ht t c Hin) as [H|H]; [|exfalso; eauto]. left. apply closed_entry_set. exact H.
    + inversion Hin; subst. left. left. reflexivity.
  - intros Hb t n H. rewrite frame_of_set. apply result_of_set in H. destruct H as [[-> H]|[_ H]]; [discriminate|auto].
  - intros Ht. destruct (I11 Ht) as [H|[H|[t [r [H1 H2]]]]]; auto.
    right; right. exists t, r. split; [|exact H2]. rewrite pc_of_set_other; [exact H1|]. intros ->. congruence.
  - intros Hc'. destruct (I12 Hc') as [H|[t [r H]]]; auto. right. exists t, r.
    destruct H as [H|H]; [left|right]; (rewrite pc_of_set_other; [exact H|]; intros ->; congruence).
Qed.

(* DChunk *)
Lemma dinv_chunk th cx sem w q clg can cc h tn lt br t0 sent k :
  pc_of th t0 = Some (PWriting sent) -> sent + k <= length (frame_of th t0) ->
  dinv (mkD th cx sem w q clg can cc h tn lt br) ->
  dinv (mkD (set_pc th t0 (PWriting (sent + k))) cx sem
            (w ++ tag t0 (firstn k (skipn sent (frame_of th t0)))) q clg can cc (bump t0 k h) tn lt br).
Proof.
  intros Hp0 Hk I. pose proof (pc_of_lt _ _ _ Hp0) as Hlt0.
  destruct (di_last _ I t0 sent Hp0) as [h0 Hh0]. simpl in Hh0. subst h.
  assert (Hnotin : ~ In t0 (map fst h0)).
  { pose proof (di_nodup _ I) as Hnd. simpl in Hnd. rewrite map_app in Hnd. simpl in Hnd.
    apply NoDup_app_last in Hnd. tauto. }
  rewrite bump_last by assumption.
  assert (Hnow : forall t c, pc_of th t = Some (PWriting c) -> t = t0).
  { intros t c H. pose proof (di_sem _ I t _ H eq_refl) as H1. pose proof (di_sem _ I t0 _ Hp0 eq_refl) as H2.
    simpl in *. congruence. }
  destruct I as [I1 I2 I3 I4 I5 I6 I7 I8 I9 I10 I11 I12]; simpl in *.
  constructor; simpl.
  - intros t p H Hcr. apply pc_of_set in H. destruct H as [[-> ->]|[Hne H]]; [eauto|eauto].
  - rewrite pieces_set, I2, !pieces_app. simpl. rewrite !app_nil_r, <- app_assoc. f_equal.
    rewrite <- tag_app. f_equal. symmetry. apply firstn_add_skipn.
  - rewrite map_app in *. simpl in *. exact I3.
  - intros t c H. apply pc_of_set in H. destruct H as [[-> H]|[Hne H]].
    + inversion H; subst. exists h0. reflexivity.
    + exfalso. apply Hne. eauto.
  - intros t Ht. rewrite map_app in Ht. simpl in Ht.
    assert (Ht' : In t (map fst (h0 ++ [(t0, sent)]))) by (rewrite map_app; exact Ht).
    destruct (Nat.eq_dec t t0) as [->|Hne].
    + exists (PWriting (sent + k)). split; [apply pc_of_set_same; assumption|reflexivity].
    + destruct (I5 t Ht') as [p [H1 H2]]. exists p. split; [|exact H2]. rewrite pc_of_set_other; auto.
  - intros t r H. apply result_of_set in H. destruct H as [[-> H]|[Hne H]]; [discriminate|].
    destruct (I6 t r H) as [H1|[H1 H2]].
    + left. apply in_app_or in H1. apply in_or_app. destruct H1 as [H1|[H1|[]]]; [auto|].
      inversion H1; subst. congruence.
    + right. split; [exact H1|]. rewrite map_app in *. exact H2.
  - intros t c H. rewrite frame_of_set. apply in_app_or in H. destruct H as [H|[H|[]]].
    + apply I7. apply in_or_app. auto.
    + inversion H; subst. exact Hk.
  - intros h1 x Hh. apply app_inj_tail in Hh. destruct Hh as [<- _]. apply Forall_closed_set.
    eapply I8; eauto.
  - intros Ht t c Hin. apply in_app_or in Hin. destruct Hin as [Hin|[Hin|[]]].
    + destruct (I9 Ht t c) as [H|H]; [apply in_or_app; auto| |].
      * left. apply closed_entry_set. exact H.
      * exfalso. apply Hnotin. rewrite (Hnow _ _ H) in Hin. eapply in_fst; eauto.
    + inversion Hin; subst. right. apply pc_of_set_same. assumption.
  - intros Hb t n H. rewrite frame_of_set. apply result_of_set in H. destruct H as [[-> H]|[_ H]]; [discriminate|auto].
  - intros Ht. destruct (I11 Ht) as [H|[H|[t [r [H1 H2]]]]]; auto.
    right; right. exists t, r. split; [|exact H2]. rewrite pc_of_set_other; [exact H1|]. intros ->. congruence.
  - intros Hc'. destruct (I12 Hc') as [H|[t [r H]]]; auto. right. exists t, r.
    destruct H as [H|H]; [left|right]; (rewrite pc_of_set_other; [exact H|]; intros ->; congruence).
Qed.

Lemma torn_now_false sent len : sent <= len -> torn_now sent len = false -> sent = 0 \/ sent = len.
Proof. unfold torn_now. intros H1 H2. apply andb_false_iff in H2. destruct H2 as [H2|H2]; lia. Qed.

Lemma torn_now_true sent len : torn_now sent len = true -> 0 < sent /\ sent < len.
Proof. unfold torn_now. intros H. apply andb_true_iff in H. lia. Qed.

Lemma broken_now_false sent len e : sent <= len -> broken_now sent len e = false -> e = None -> sent = len.
Proof. unfold broken_now. intros H1 H2 ->. simpl in H2. lia. Qed.

Lemma must_close_partial sent x : 0 < sent -> must_close (sent, Some x) = true.
Proof. intros H. unfold must_close. destruct (Nat.eqb_spec sent 0); [lia|]. rewrite andb_false_r. reflexivity. Qed.

(* DWriteRet *)
Lemma dinv_writeret th cx sem w q clg can cc h tn lt br t0 sent e :
  pc_of th t0 = Some (PWriting sent) ->
  dinv (mkD th cx sem w q clg can cc h tn lt br) ->
  forall lt',
  dinv (mkD (set_pc th t0 (PReturned (sent, e))) cx None w q clg can cc h
            (tn || torn_now sent (length (frame_of th t0))) lt' (br || broken_now sent (length (frame_of th t0)) e)).
Proof.
  intros Hp0 I lt'. pose proof (pc_of_lt _ _ _ Hp0) as Hlt0.
  destruct (di_last _ I t0 sent Hp0) as [h0 Hh0]. simpl in Hh0.
  assert (Hin0 : In (t0, sent) h) by (subst h; apply in_or_app; simpl; auto).
  pose proof (di_bound _ I t0 sent Hin0) as Hb0. simpl in Hb0.
  assert (Hnow : forall t p, pc_of th t = Some p -> critical p = true -> t = t0).
  { intros t p H Hc. pose proof (di_sem _ I t _ H Hc) as H1. pose proof (di_sem _ I t0 _ Hp0 eq_refl) as H2.
    simpl in *. congruence. }
  destruct I as [I1 I2 I3 I4 I5 I6 I7 I8 I9 I10 I11 I12]; simpl in *.
  constructor; simpl.
  - intros t p H Hcr. apply pc_of_set in H. destruct H as [[-> ->]|[Hne H]]; [discriminate|].
    exfalso. apply Hne. eauto.
  - rewrite pieces_set. exact I2.
  - exact I3.
  - intros t c H. apply pc_of_set in H. destruct H as [[_ H]|[Hne H]]; [discriminate|].
    exfalso. apply Hne. eapply Hnow; eauto.
  - intros t Ht. destruct (Nat.eq_dec t t0) as [->|Hne].
    + exists (PReturned (sent, e)). split; [apply pc_of_set_same; assumption|reflexivity].
    + destruct (I5 t Ht) as [p [H1 H2]]. exists p. split; [|exact H2]. rewrite pc_of_set_other; auto.
  - intros t r H. apply result_of_set in H. destruct H as [[-> H]|[_ H]]; [|auto].
    simpl in H. inversion H; subst. left. exact Hin0.
  - intros t c H. rewrite frame_of_set. auto.
  - intros h1 x Hh. apply Forall_closed_set. eauto.
  - intros Ht t c Hin. apply orb_false_iff in Ht. destruct Ht as [Ht Htn].
    destruct (I9 Ht t c Hin) as [H|H].
    + left. apply closed_entry_set. exact H.
    + left. apply closed_entry_set. assert (t = t0) by (eapply Hnow; eauto). subst.
      assert (c = sent) by congruence. subst. unfold closed_entry. simpl. apply torn_now_false; assumption.
  - intros Hb t n H. rewrite frame_of_set. apply orb_false_iff in Hb. destruct Hb as [Hb Hbn].
    apply result_of_set in H. destruct H as [[-> H]|[_ H]]; [|auto].
    simpl in H. inversion H; subst. eapply broken_now_false; eauto.
  - intros Ht. apply orb_true_iff in Ht. destruct Ht as [Ht|Ht].
    + destruct (I11 Ht) as [H|[H|[t [r [H1 H2]]]]]; [left; rewrite H; reflexivity|auto|].
      right; right. exists t, r. split; [|exact H2]. rewrite pc_of_set_other; [exact H1|]. intros ->. congruence.
    + apply torn_now_true in Ht. destruct e as [x|].
      * right; right. exists t0, (sent, Some x). split; [apply pc_of_set_same; assumption|].
        apply must_close_partial. lia.
      * left. unfold broken_now. simpl. destruct (Nat.ltb_spec sent (length (frame_of th t0))); [|lia].
        apply orb_true_r.
  - intros Hc'. destruct (I12 Hc') as [H|[t [r H]]]; auto. right. exists t, r.
    destruct H as [H|H]; [left|right]; (rewrite pc_of_set_other; [exact H|]; intros ->; congruence).
Qed.

(* a request keeps its result and moves on inside exec / closeWithError *)
Lemma dinv_move th cx sem w q clg clg' can can' cc cc' h tn lt br t0 p0 p1 r :
  pc_of th t0 = Some p0 -> result_of_pc p0 = Some r -> result_of_pc p1 = Some r ->
  critical p1 = false -> (forall c, p1 <> PWriting c) ->
  (* the two chains *)
  (clg = true -> clg' = true) ->
  ((exists r', p0 = PReturned r' /\ must_close r' = true) -> clg' = true) ->
  (clg' = true -> cc' = true \/ (exists r', p1 = PCloser1 r' \/ p1 = PCloser2 r') \/
                  (clg = true /\ (forall r', p0 <> PCloser1 r') /\ (forall r', p0 <> PCloser2 r') /\ cc' = cc)) ->
  dinv (mkD th cx sem w q clg can cc h tn lt br) ->
  dinv (mkD (set_pc th t0 p1) cx sem w q clg' can' cc' h tn lt br).
Proof.
  intros Hp0 Hr0 Hr1 Hc1 Hw1 Hmono Hclose Hchain I. pose proof (pc_of_lt _ _ _ Hp0) as Hlt0.
  assert (Hst0 : started p0 = true) by (destruct p0; simpl in *; congruence).
  assert (Hst1 : started p1 = true) by (destruct p1; simpl in *; congruence).
  assert (Hcr0 : critical p0 = false) by (destruct p0; simpl in *; congruence).
  assert (Hw0 : forall c, p0 <> PWriting c) by (intros c ->; discriminate).
  destruct I as [I1 I2 I3 I4 I5 I6 I7 I8 I9 I10 I11 I12]; simpl in *.
  constructor; simpl.
  - intros t p H Hcr. apply pc_of_set in H. destruct H as [[-> ->]|[Hne H]]; [congruence|eauto].
  - rewrite pieces_set. exact I2.
  - exact I3.
  - intros t c H. apply pc_of_set in H. destruct H as [[_ H]|[_ H]]; [exfalso; eapply Hw1; eauto|eauto].
  - intros t Ht. destruct (Nat.eq_dec t t0) as [->|Hne].
    + exists p1. split; [apply pc_of_set_same; assumption|assumption].
    + destruct (I5 t Ht) as [p [H1 H2]]. exists p. split; [|exact H2]. rewrite pc_of_set_other; auto.
  - intros t r' H. apply result_of_set in H. destruct H as [[-> H]|[_ H]]; [|auto].
    apply I6. unfold result_of. rewrite Hp0. congruence.
  - intros t c H. rewrite frame_of_set. auto.
  - intros h1 x Hh. apply Forall_closed_set. eauto.
  - intros Ht t c Hin. destruct (I9 Ht t c Hin) as [H|H].
    + left. apply closed_entry_set. exact H.
    + right. rewrite pc_of_set_other; [exact H|]. intros ->. rewrite Hp0 in H. inversion H. eapply Hw0; eauto.
  - intros Hb t n H. rewrite frame_of_set. apply result_of_set in H. destruct H as [[-> H]|[_ H]]; [|auto].
    apply I10; [assumption|]. unfold result_of. rewrite Hp0, Hr0, <- Hr1. exact H.
  - intros Ht. destruct (I11 Ht) as [H|[H|[t [r' [H1 H2]]]]]; auto.
    destruct (Nat.eq_dec t t0) as [->|Hne].
    + right; left. apply Hclose. exists r'. split; [congruence|exact H2].
    + right; right. exists t, r'. split; [|exact H2]. rewrite pc_of_set_other; auto.
  - intros Hc'. destruct (Hchain Hc') as [H|[[r' H]|[Hclg [Hn1 [Hn2 ->]]]]]; auto.
    + right. exists t0, r'. destruct H as [->| ->]; [left|right]; apply pc_of_set_same; assumption.
    + destruct (I12 Hclg) as [H|[t [r' H]]]; auto. right. exists t, r'.
      destruct H as [H|H]; [left|right]; (rewrite pc_of_set_other; [exact H|]; intros ->; rewrite Hp0 in H; inversion H).
      * eapply Hn1; eauto.
      * eapply Hn2; eauto.
Qed.

(* an external closer enters closeWithError *)
Lemma dinv_ext th cx sem w q clg clg' can cc h tn lt br t0 p1 :
  pc_of th t0 = Some PExt ->
  (p1 = PDone (0, Some EConnClosed) /\ clg = true /\ clg' = true) \/ (p1 = PCloser1 (0, Some EConnClosed) /\ clg' = true) ->
  dinv (mkD th cx sem w q clg can cc h tn lt br) ->
  dinv (mkD (set_pc th t0 p1) cx sem w q clg' can cc h tn lt br).
Proof.
  intros Hp0 Hp1 I. pose proof (pc_of_lt _ _ _ Hp0) as Hlt0.
  pose proof (not_started_notin _ t0 _ I Hp0 eq_refl) as Hnotin. simpl in Hnotin.
  assert (Hcr1 : critical p1 = false) by (destruct Hp1 as [[-> _]|[-> _]]; reflexivity).
  assert (Hr1 : result_of_pc p1 = Some (0, Some EConnClosed)) by (destruct Hp1 as [[-> _]|[-> _]]; reflexivity).
  destruct I as [I1 I2 I3 I4 I5 I6 I7 I8 I9 I10 I11 I12]; simpl in *.
  constructor; simpl.
  - intros t p H Hcr. apply pc_of_set in H. destruct H as [[-> ->]|[Hne H]]; [congruence|eauto].
  - rewrite pieces_set. exact I2.
  - exact I3.
  - intros t c H. apply pc_of_set in H. destruct H as [[_ H]|[_ H]]; [|eauto].
    destruct Hp1 as [[-> _]|[-> _]]; discriminate.
  - intros t Ht. destruct (I5 t Ht) as [p [H1 H2]]. exists p. split; [|exact H2].
    rewrite pc_of_set_other; [exact H1|]. intros ->. tauto.
  - intros t r' H. apply result_of_set in H. destruct H as [[-> H]|[_ H]]; [|auto].
    rewrite Hr1 in H. inversion H; subst. right. simpl. auto.
  - intros t c H. rewrite frame_of_set. auto.
  - intros h1 x Hh. apply Forall_closed_set. eauto.
  - intros Ht t c Hin. destruct (I9 Ht t c Hin) as [H|H].
    + left. apply closed_entry_set. exact H.
    + right. rewrite pc_of_set_other; [exact H|]. intros ->. congruence.
  - intros Hb t n H. rewrite frame_of_set. apply result_of_set in H. destruct H as [[-> H]|[_ H]]; [|auto].
    rewrite Hr1 in H. discriminate.
  - intros Ht. destruct (I11 Ht) as [H|[H|[t [r' [H1 H2]]]]]; auto.
    + right; left. destruct Hp1 as [[_ [_ ->]]|[_ ->]]; reflexivity.
    + right; right. exists t, r'. split; [|exact H2]. rewrite pc_of_set_other; [exact H1|]. intros ->. congruence.
  - intros _. destruct Hp1 as [[-> [Hclg _]]|[-> _]].
    + destruct (I12 Hclg) as [H|[t [r' H]]]; auto. right. exists t, r'.
      destruct H as [H|H]; [left|right]; (rewrite pc_of_set_other; [exact H|]; intros ->; congruence).
    + right. exists t0, (0, Some EConnClosed). left. apply pc_of_set_same. assumption.
Qed.

Ltac break_match H :=
  repeat match type of H with
         | context [match ?x with _ => _ end] => destruct x eqn:?; try discriminate
         end.

(* what the writer remembers about torn writes *)
Record dinv2 (s : dstate) : Prop := {
  d2_torn : d_torn s = true -> d_failed s <> None;
  d2_hold : forall t p, pc_of (d_thr s) t = Some p -> critical p = true -> d_failed s = None
}.

Lemma dinv2_init : dinv2 d_init.
Proof. constructor; simpl; [discriminate|]. intros t p H. destruct t; discriminate. Qed.

Lemma dinv_step has_to s l s' : dinv s -> dinv2 s -> dstep has_to s l = Some s' -> dinv s'.
Proof.
  intros I I2 H. destruct s as [th cx sem w q clg can cc h tn lt br]. destruct l; cbn [dstep] in H.
  - (* DCall *) destruct clg; [discriminate|]. inversion H; subst. apply dinv_append; auto; intros; discriminate.
  - (* DCtxDone *) destruct (is_ctx_err e); [|discriminate]. inversion H; subst. destruct I; constructor; auto.
  - (* DCtx *) break_match H. inversion H; subst.
    eapply dinv_return0; eauto; try (intros; discriminate).
  - (* DQuitSel *) break_match H. inversion H; subst.
    eapply dinv_return0; eauto; try (intros; discriminate).
  - (* DAcquire *) break_match H; inversion H; subst.
    + apply dinv_return0 with (p0 := PSelect) (sem := None); try assumption; try reflexivity; try (intros; discriminate).
      left. reflexivity.
    + apply dinv_return0 with (p0 := PSelect) (sem := None); try assumption; try reflexivity; try (intros; discriminate).
      left. reflexivity.
    + apply dinv_acquire; assumption.
  - (* DStartWrite *) break_match H; inversion H; subst.
    + apply dinv_return0 with (p0 := PHold) (sem := sem); try assumption; try reflexivity; try (intros; discriminate).
      right. split; [reflexivity|]. eapply (di_sem _ I); [simpl; eassumption|reflexivity].
    + apply dinv_begin; try assumption.
      destruct tn; [|reflexivity]. exfalso. apply (d2_torn _ I2 eq_refl). eapply (d2_hold _ I2); [simpl; eassumption|reflexivity].
  - (* DChunk *) break_match H. inversion H; subst. apply dinv_chunk; [assumption| |assumption].
    apply Nat.leb_le. assumption.
  - (* DWriteRet *) destruct (pc_of th t) as [[| |c| |r| |r1|r2|r3]|] eqn:Hpc; try discriminate. inversion H; subst.
    eapply dinv_writeret; eassumption.
  - (* DAfter *) unfold after_return in H.
    destruct (pc_of th t) as [[| |c| |r| |r1|r2|r3]|] eqn:Hpc; try discriminate.
    + destruct (must_close r) eqn:Hm; [destruct clg eqn:Hclg|]; inversion H; subst.
      * (* must close, already closing *)
        eapply dinv_move with (p0 := PReturned r) (r := r); try eassumption; try reflexivity; try (intros; discriminate); auto.
        intros _. right; right. repeat split; auto; intros; discriminate.
      * eapply dinv_move with (p0 := PReturned r) (r := r); try eassumption; try reflexivity; try (intros; discriminate); auto.
        intros _. right; left. exists r. auto.
      * eapply dinv_move with (p0 := PReturned r) (r := r); try eassumption; try reflexivity; try (intros; discriminate); auto.
        -- intros [r' [Hr' Hm']]. inversion Hr'; subst. congruence.
        -- intros Hc. right; right. repeat split; auto; intros; discriminate.
    + destruct clg eqn:Hclg; inversion H; subst.
      * eapply dinv_ext; try eassumption. left. auto.
      * eapply dinv_ext; try eassumption. right. auto.
  - (* DCancel *) destruct (pc_of th t) as [[| |c| |r| |r1|r2|r3]|] eqn:Hpc; try discriminate. inversion H; subst.
    eapply dinv_move with (p0 := PCloser1 r1) (r := r1); try eassumption; try reflexivity; try (intros; discriminate); auto.
    + intros [r' [Hr' _]]. discriminate.
    + intros _. right; left. exists r1. auto.
  - (* DClose *) destruct (pc_of th t) as [[| |c| |r| |r1|r2|r3]|] eqn:Hpc; try discriminate. inversion H; subst.
    eapply dinv_move with (p0 := PCloser2 r2) (r := r2); try eassumption; try reflexivity; try (intros; discriminate); auto.
    intros [r' [Hr' _]]. discriminate.
  - (* DExtClose *) inversion H; subst. apply dinv_append; auto; intros; discriminate.
  - (* DEnvQuit *) inversion H; subst. destruct I; constructor; auto.
Qed.

Lemma dinv2_step has_to s l s' : dinv s -> dinv2 s -> dstep has_to s l = Some s' -> dinv2 s'.
Proof.
  intros I I2 H. destruct s as [th cx sem w q clg can cc h tn lt br]. destruct I2 as [J1 J2]. simpl in J1, J2.
  assert (Hset : forall t0 p0 p1 tn' lt', pc_of th t0 = Some p0 ->
            (critical p1 = true -> lt' = None) ->
            (tn' = true -> lt' <> None) ->
            (lt' = lt \/ forall t p, pc_of th t = Some p -> critical p = true -> t = t0) ->
            forall cx' sem' w' q' clg' can' cc' h' br',
            dinv2 (mkD (set_pc th t0 p1) cx' sem' w' q' clg' can' cc' h' tn' lt' br')).
  { intros t0 p0 p1 tn' lt' Hp0 Hp1 Ht Hl cx' sem' w' q' clg' can' cc' h' br'. constructor; simpl; [exact Ht|].
    intros t p Hp Hc. apply pc_of_set in Hp. destruct Hp as [[_ ->]|[Hne Hp]]; [auto|].
    destruct Hl as [->|Hl]; [eauto|]. exfalso. apply Hne. eapply Hl; eauto. }
  assert (Happ : forall f p1, critical p1 = false -> dinv2 (mkD (th ++ [(f, p1)]) cx sem w q clg can cc h tn lt br)).
  { intros f p1 Hp1. constructor; simpl; [exact J1|]. intros t p Hp Hc. apply pc_of_app in Hp.
    destruct Hp as [[_ Hp]|[_ Hp]]; [eauto|]. simpl in Hp. congruence. }
  destruct l; cbn [dstep] in H.
  - destruct clg; [discriminate|]. inversion H; subst. apply Happ. reflexivity.
  - destruct (is_ctx_err e); [|discriminate]. inversion H; subst. constructor; simpl; auto.
  - break_match H. inversion H; subst. eapply Hset; eauto; discriminate.
  - break_match H. inversion H; subst. eapply Hset; eauto; discriminate.
  - break_match H; inversion H; subst.
    + eapply Hset; eauto; discriminate.
    + eapply Hset; eauto; discriminate.
    + (* acquired with tornErr = nil *)
      constructor; simpl; [intros Ht; apply J1 in Ht; congruence|]. intros; reflexivity.
  - destruct (pc_of th t) as [[| |c| |r| |r1|r2|r3]|] eqn:Hpc; try discriminate.
    pose proof (J2 t _ Hpc eq_refl) as Hn. destruct dl as [e|].
    + destruct has_to; [|discriminate]. inversion H; subst. eapply Hset; eauto; discriminate.
    + inversion H; subst. eapply Hset; eauto.
  - destruct (pc_of th t) as [[| |c| |r| |r1|r2|r3]|] eqn:Hpc; try discriminate.
    pose proof (J2 t _ Hpc eq_refl) as Hn. break_match H; inversion H; subst. eapply Hset; eauto.
  - (* DWriteRet *) destruct (pc_of th t) as [[| |c| |r| |r1|r2|r3]|] eqn:Hpc; try discriminate. inversion H; subst.
    eapply Hset; eauto; try discriminate.
    + intros Ht. destruct (torn_now c (length (frame_of th t))); [discriminate|].
      rewrite orb_false_r in Ht. auto.
    + right. intros t' p Hp Hc. pose proof (di_sem _ I t' _ Hp Hc) as H1. simpl in H1.
      pose proof (di_sem _ I t _ Hpc eq_refl) as H2. simpl in H2. congruence.
  - (* DAfter *) destruct (after_return th clg t) as [[th' clg']|] eqn:E; [|discriminate]. inversion H; subst.
    unfold after_return in E. break_match E; inversion E; subst; (eapply Hset; eauto; discriminate).
  - break_match H. inversion H; subst. eapply Hset; eauto; discriminate.
  - break_match H. inversion H; subst. eapply Hset; eauto; discriminate.
  - inversion H; subst. apply Happ. reflexivity.
  - inversion H; subst. constructor; simpl; auto.
Qed.

Definition dall (s : dstate) : Prop := dinv s /\ dinv2 s.

Lemma dall_reachable has_to ls s : drun has_to d_init ls = Some s -> dall s.
Proof.
  unfold drun. apply lts_invariant with (Inv := dall); [|split; [exact dinv_init|exact dinv2_init]].
  intros s0 l s1 [I I2] H. split; [eapply dinv_step; eauto|eapply dinv2_step; eauto].
Qed.

Lemma dinv_reachable has_to ls s : drun has_to d_init ls = Some s -> dinv s.
Proof. intros H. exact (proj1 (dall_reachable has_to ls s H)). Qed.

Lemma dinv2_reachable has_to ls s : drun has_to d_init ls = Some s -> dinv2 s.
Proof. intros H. exact (proj2 (dall_reachable has_to ls s H)). Qed.
