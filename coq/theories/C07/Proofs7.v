(* C07/Proofs7.v -- consequences of the coalescer's invariant: the statements of Props.v. *)
From GocqlV Require Import Lib.Base C07.Model C07.Spec C07.Proofs1 C07.Proofs2 C07.Proofs3 C07.Proofs4 C07.Proofs5 C07.Proofs6.
Local Open Scope nat_scope.

(* no request of the coalescing writer is ever in the direct writer's critical section *)
Definition cnw (s : cstate) : Prop := forall t p, pc_of (c_thr s) t = Some p -> critical p = false.

Lemma deliver_pc_weak ts : forall th rs t p,
  pc_of (deliver th ts rs) t = Some p -> pc_of th t = Some p \/ exists r, p = PReturned r.
Proof.
  induction ts as [|t0 ts IH]; intros th rs t p H; simpl in H; [auto|].
  destruct rs as [|r rs]; [auto|]. apply IH in H. destruct H as [H|H]; [|auto].
  apply pc_of_set in H. destruct H as [[_ ->]|[_ H]]; [right; eauto|auto].
Qed.

Lemma cnw_step has_to s l s' : cnw s -> cstep has_to s l = Some s' -> cnw s'.
Proof.
  unfold cnw. intros I H. destruct s as [th cx qu rn fp w clg can cc h tn lt br]. simpl in I.
  assert (Hset : forall t0 p1, critical p1 = false -> forall t p, pc_of (set_pc th t0 p1) t = Some p -> critical p = false).
  { intros t0 p1 Hc t p Hp. apply pc_of_set in Hp. destruct Hp as [[_ ->]|[_ Hp]]; eauto. }
  assert (Happ : forall f p1, critical p1 = false -> forall t p, pc_of (th ++ [(f, p1)]) t = Some p -> critical p = false).
  { intros f p1 Hc t p Hp. apply pc_of_app in Hp. destruct Hp as [[_ Hp]|[_ ->]]; eauto. }
  assert (Hdel : forall ts rs t p, pc_of (deliver th ts rs) t = Some p -> critical p = false).
  { intros ts rs t p Hp. apply deliver_pc_weak in Hp. destruct Hp as [Hp|[r ->]]; eauto. }
  assert (Hfin : forall s0, Some s0 = Some s' ->
            (c_thr s0 = th \/ (exists t0 p1, critical p1 = false /\ c_thr s0 = set_pc th t0 p1) \/
             (exists f p1, critical p1 = false /\ c_thr s0 = th ++ [(f, p1)]) \/ (exists ts rs, c_thr s0 = deliver th ts rs)) ->
            forall t p, pc_of (c_thr s') t = Some p -> critical p = false).
  { intros s0 Hs0 Hc t p Hp. inversion Hs0; subst s0.
    destruct Hc as [Hc|[[t0 [p1 [Hc1 Hc]]]|[[f [p1 [Hc1 Hc]]]|[ts [rs Hc]]]]]; rewrite Hc in Hp; eauto. }
  destruct l; cbn [cstep] in H.
  all: try (unfold finish_flush in H; break_match H; (eapply Hfin; [exact H|]); simpl;
    first [ left; reflexivity
          | right; left; eexists; eexists; split; [|reflexivity]; reflexivity
          | right; right; left; eexists; eexists; split; [|reflexivity]; reflexivity
          | right; right; right; eexists; eexists; reflexivity ]; fail).
  destruct (after_return th clg t) as [[th' clg']|] eqn:E; [|discriminate]. eapply Hfin; [exact H|]. simpl.
  unfold after_return in E. break_match E; inversion E; subst; right; left; eexists; eexists; (split; [|reflexivity]); reflexivity.
Qed.

Lemma cnw_reachable has_to ls s : crun has_to c_init ls = Some s -> cnw s.
Proof.
  unfold crun. apply lts_invariant with (Inv := cnw).
  - intros s0 l s1. apply cnw_step.
  - intros t p H. destruct t; discriminate.
Qed.

Section Coal.
  Variable has_to : bool.
  Variable ls : list clabel.
  Variable s : cstate.
  Hypothesis Hrun : crun has_to c_init ls = Some s.

  Let I : cinv s := cinv_reachable has_to ls s Hrun.
  Let NW : cnw s := cnw_reachable has_to ls s Hrun.
  Local Notation fr := (frame_of (c_thr s)).

  Lemma coal_no_interleave_lemma : no_interleave fr (c_wire s).
  Proof. exists (c_hist s). split; [exact (ci_wire s I)|exact (ci_nodup s I)]. Qed.

  Lemma coal_count_exact_lemma t n e :
    c_broken s = false -> result_of (c_thr s) t = Some (n, e) -> bytes_of t (c_wire s) = firstn n (fr t).
  Proof.
    intros Hb H. rewrite (ci_wire s I). destruct (ci_count s I Hb t _ H) as [Hin|[H0 Hnot]]; simpl in *.
    - apply bytes_of_pieces_in; [exact (ci_nodup s I)|exact Hin].
    - subst. simpl. apply bytes_of_pieces_notin. exact Hnot.
  Qed.

  Lemma coal_success_whole_lemma t n :
    c_broken s = false -> result_of (c_thr s) t = Some (n, None) ->
    n = length (fr t) /\ frame_present fr t (c_wire s).
  Proof.
    intros Hb H. pose proof (ci_ok s I Hb t n H) as Hn. split; [exact Hn|]. rewrite (ci_wire s I).
    destruct (ci_count s I Hb t _ H) as [Hin|[H0 Hnot]]; simpl in *.
    - apply in_pieces_present. rewrite <- Hn. exact Hin.
    - exists (pieces fr (c_hist s)), [].
      assert (Hnil : fr t = []) by (apply length_zero_iff_nil; lia).
      rewrite Hnil. simpl. rewrite app_nil_r. reflexivity.
  Qed.

  Lemma coal_wire_shape_lemma :
    c_broken s = false ->
    exists ts tl, c_wire s = whole fr ts ++ tl /\ NoDup ts /\
      (tl = [] \/ exists t c, ~ In t ts /\ 0 < c < length (fr t) /\ tl = tag t (firstn c (fr t)) /\
         (cur_writing (c_fpc s) t c \/
          (c_torn s = true /\ (c_broken s = false -> exists x, result_of (c_thr s) t = Some (c, Some x))))).
  Proof.
    intros Hl. rewrite (ci_wire s I).
    destruct (shape_of_hist fr (c_hist s) (ci_nodup s I) (ci_bound s I)) as [ts [tl [H1 [H2 H3]]]].
    { intros h0 x Hh. exact (ci_shape_a s I Hl h0 x Hh). }
    exists ts, tl. split; [exact H1|]. split; [exact H2|]. destruct H3 as [H3|[t [c [Hn [Hc [Htl [h0 Hh]]]]]]]; [left; exact H3|].
    right. exists t, c. repeat split; auto; try lia.
    assert (Hin : In (t, c) (c_hist s)) by (rewrite Hh; apply in_or_app; simpl; auto).
    assert (Huniq : forall c', In (t, c') (c_hist s) -> c' = c).
    { intros c' Hin'. pose proof (ci_nodup s I) as Hnd. rewrite Hh in Hnd, Hin'. rewrite map_app in Hnd. simpl in Hnd.
      apply NoDup_app_last in Hnd. destruct Hnd as [_ Hnot]. apply in_app_or in Hin'.
      destruct Hin' as [Hin'|[Hin'|[]]]; [exfalso; apply Hnot; eapply in_fst; eauto|congruence]. }
    assert (Hcw : In t (handed (c_fpc s)) -> cur_writing (c_fpc s) t c).
    { destruct (c_fpc s) as [| |dn cur rest sent n|] eqn:Ef; simpl; try tauto. intros _.
      destruct (ci_last s I _ _ _ _ _ Ef) as [h1 Hh1]. rewrite Hh in Hh1. apply app_inj_tail in Hh1.
      destruct Hh1 as [_ Hh1]. inversion Hh1; subst. exists dn, rest, n. reflexivity. }
    destruct (ci_started s I t) as [[p [Hp Hs]]|Hh']; [eapply in_fst; eauto| |left; auto].
    right. split.
    - destruct (c_torn s) eqn:Ht; [reflexivity|]. destruct (ci_shape_b s I Ht t c Hin) as [[H|H]|H]; simpl in *; try lia.
      exfalso. destruct H as [dn [rest [n H]]].
      assert (Hq : pc_of (c_thr s) t = Some PQueued).
      { apply (ci_queued s I). rewrite H. simpl. rewrite !in_app_iff. simpl. auto. }
      rewrite Hq in Hp. inversion Hp; subst. discriminate.
    - intros Hb. assert (Hr : exists r, result_of (c_thr s) t = Some r).
      { unfold result_of. rewrite Hp. pose proof (NW t p Hp) as Hc'. destruct p; simpl in *; try discriminate; eauto. }
      destruct Hr as [[n e] Hr]. destruct (ci_count s I Hb t _ Hr) as [Hin'|[_ Hnot]]; simpl in *; [|exfalso; apply Hnot; eapply in_fst; eauto].
      assert (n = c) by (apply Huniq; exact Hin'). subst n. destruct e as [x|]; [exists x; exact Hr|].
      pose proof (ci_ok s I Hb t c Hr). lia.
  Qed.

  Definition c_quiescent (s0 : cstate) : Prop :=
    forall t p, pc_of (c_thr s0) t = Some p -> exists r, p = PDone r.

  Lemma coal_torn_closed_lemma :
    c_torn s = true -> c_broken s = false -> c_quiescent s -> c_connclosed s = true.
  Proof.
    intros Ht Hb Hq. assert (Hc : c_closing s = true).
    { destruct (ci_torn s I Ht) as [H|[H|[t [r [H _]]]]]; [congruence|exact H|].
      destruct (Hq t _ H) as [r' Hr']. discriminate. }
    destruct (ci_closing s I Hc) as [H|[t [r [H|H]]]]; [exact H| |]; destruct (Hq t _ H) as [r' Hr']; discriminate.
  Qed.
End Coal.

(* ---- results are final, and so are the bytes of a request that has its result ---- *)

Lemma deliver_result_notin ts th rs t : ~ In t ts -> result_of (deliver th ts rs) t = result_of th t.
Proof. intros H. unfold result_of. rewrite deliver_pc_notin by assumption. reflexivity. Qed.

Lemma has_result_not_queued th t r : result_of th t = Some r -> pc_of th t <> Some PQueued.
Proof. unfold result_of. intros H Hq. rewrite Hq in H. discriminate. Qed.

Lemma cstep_final has_to s l s' t r :
  cinv s -> cstep has_to s l = Some s' -> result_of (c_thr s) t = Some r ->
  result_of (c_thr s') t = Some r /\ bytes_of t (c_wire s') = bytes_of t (c_wire s).
Proof.
  intros I H Hr. destruct s as [th cx qu rn fp w clg can cc h tn lt br]. simpl in Hr.
  pose proof (has_result_not_queued _ _ _ Hr) as Hnq.
  assert (Hnotin : ~ In t (qu ++ inflight fp)) by (intros Hin; apply Hnq; apply (ci_queued _ I); exact Hin).
  destruct l; cbn [cstep] in H.
  - destruct clg; [discriminate|]. inversion H; subst; simpl. split; [apply app_result_stable; exact Hr|reflexivity].
  - break_match H; inversion H; subst; simpl; auto.
  - break_match H; inversion H; subst; simpl; (split; [|reflexivity]);
      (eapply set_pc_result_stable; [exact Hr|eassumption|]; simpl; auto).
  - break_match H; inversion H; subst; simpl; (split; [|reflexivity]);
      (eapply set_pc_result_stable; [exact Hr|eassumption|]; simpl; auto).
  - break_match H; inversion H; subst; simpl; (split; [|reflexivity]);
      (eapply set_pc_result_stable; [exact Hr|eassumption|]; simpl; auto).
  - break_match H; inversion H; subst; simpl. auto.
  - destruct fp; try discriminate. destruct dl as [e|].
    + destruct has_to; [|discriminate]. inversion H; subst; simpl. split; [|reflexivity].
      rewrite deliver_result_notin; [exact Hr|]. intros Hin. apply Hnotin. apply in_or_app. simpl. auto.
    + destruct batch; inversion H; subst; simpl; auto.
  - destruct fp as [| |dn cur rest sent n|]; try discriminate. break_match H; inversion H; subst; simpl. split; [exact Hr|].
    rewrite bytes_of_app, bytes_of_tag_other; [apply app_nil_r|].
    intros ->. apply Hnotin. apply in_or_app. right. simpl. apply in_or_app. simpl. auto.
  - destruct fp as [| |dn cur rest sent n|]; try discriminate.
    assert (Hfin : forall e', result_of (finish_flush th (dn ++ cur :: rest) (n + sent) e') t = Some r).
    { intros e'. unfold finish_flush. rewrite deliver_result_notin; [exact Hr|]. intros Hin. apply Hnotin.
      apply in_or_app. simpl. auto. }
    destruct e as [x|]; [|destruct rest as [|t' rest']]; inversion H; subst; simpl; auto.
  - destruct fp; try discriminate. destruct can; [|discriminate]. inversion H; subst; simpl. split; [|reflexivity].
    rewrite deliver_result_notin; [exact Hr|]. intros Hin. apply Hnotin. apply in_or_app. auto.
  - destruct (after_return th clg t0) as [[th' clg']|] eqn:E; [|discriminate]. inversion H; subst; simpl.
    split; [eapply after_return_result; eauto|reflexivity].
  - break_match H; inversion H; subst; simpl; (split; [|reflexivity]);
      (eapply set_pc_result_stable; [exact Hr|eassumption|]; simpl; auto).
  - break_match H; inversion H; subst; simpl; (split; [|reflexivity]);
      (eapply set_pc_result_stable; [exact Hr|eassumption|]; simpl; auto).
  - inversion H; subst; simpl. split; [apply app_result_stable; exact Hr|reflexivity].
Qed.

Lemma crun_final has_to ls : forall s s' t r,
  call s -> crun has_to s ls = Some s' -> result_of (c_thr s) t = Some r ->
  result_of (c_thr s') t = Some r /\ bytes_of t (c_wire s') = bytes_of t (c_wire s).
Proof.
  unfold crun. induction ls as [|l ls IH]; intros s s' t r I H Hr; simpl in H.
  - inversion H; subst. auto.
  - destruct (cstep has_to s l) as [s1|] eqn:E; [|discriminate].
    destruct I as [I I2]. destruct (cstep_final _ _ _ _ _ _ I E Hr) as [Hr1 Hb1].
    destruct (IH s1 s' t r (conj (cinv_step _ _ _ _ I I2 E) (cinv2_step _ _ _ _ I I2 E)) H Hr1) as [Hr2 Hb2].
    split; [exact Hr2|congruence].
Qed.

(* once a request has its result, the bytes of its frame on the wire never change *)
Lemma coal_result_final_lemma has_to ls1 ls2 s1 s2 t r :
  crun has_to c_init ls1 = Some s1 -> crun has_to s1 ls2 = Some s2 -> result_of (c_thr s1) t = Some r ->
  result_of (c_thr s2) t = Some r /\ bytes_of t (c_wire s2) = bytes_of t (c_wire s1).
Proof. intros H1 H2 Hr. eapply crun_final; eauto. eapply call_reachable; eauto. Qed.

(* leaving the select through ctx.Done() or quit: nothing of the frame is ever on the wire *)
Lemma coal_select_exit_lemma has_to ls s t l :
  crun has_to c_init ls = Some s -> In l ls -> (exists e, l = CCtx t e) \/ l = CQuitSel t ->
  (exists e, result_of (c_thr s) t = Some (0, Some e)) /\ bytes_of t (c_wire s) = [].
Proof.
  intros Hrun Hin Hl. unfold crun in Hrun.
  destruct (lts_run_split _ _ _ _ _ Hin Hrun) as [ls1 [ls2 [s1 [s2 [Hls [H1 [H2 H3]]]]]]].
  pose proof (cinv_reachable has_to ls1 s1 H1) as I1. pose proof (cinv2_reachable has_to ls1 s1 H1) as I12.
  assert (Hr : (exists e, result_of (c_thr s2) t = Some (0, Some e)) /\ bytes_of t (c_wire s2) = []).
  { destruct s1 as [th cx qu rn fp w clg can cc h tn lt br].
    assert (Hsel : pc_of th t = Some PSelect -> bytes_of t w = []).
    { intros Hp. pose proof (ci_wire _ I1) as Hw. simpl in Hw. rewrite Hw. apply bytes_of_pieces_notin.
      eapply (c_not_started_notin _ t PSelect I1); eauto. simpl. intros Hx. apply handed_inflight in Hx.
      assert (Hq : pc_of th t = Some PQueued) by (apply (ci_queued _ I1); simpl; apply in_or_app; auto). congruence. }
    destruct Hl as [[e ->]| ->]; cbn [cstep] in H2;
      (destruct (pc_of th t) as [[| |c| |r| |r1|r2|r3]|] eqn:Hpc; try discriminate);
      break_match H2; inversion H2; subst; simpl; (split; [|auto]); eexists;
        (rewrite result_of_set_same; [reflexivity|]); eapply pc_of_lt; eauto. }
  destruct Hr as [[e Hr] Hb].
  destruct (crun_final has_to ls2 s2 s t _ (conj (cinv_step _ _ _ _ I1 I12 H2) (cinv2_step _ _ _ _ I1 I12 H2)) H3 Hr) as [Hr' Hb'].
  split; [exists e; exact Hr'|congruence].
Qed.

(* a closed connection accepts nothing *)
Lemma cstep_after_close has_to s l s' :
  cstep has_to s l = Some s' -> c_connclosed s = true -> c_connclosed s' = true /\ c_wire s' = c_wire s.
Proof.
  intros H Hc. destruct s as [th cx qu rn fp w clg can cc h tn lt br]. simpl in Hc. subst cc.
  destruct l; cbn [cstep] in H; break_match H; inversion H; subst; simpl; auto.
Qed.

Lemma coal_after_close_lemma has_to ls : forall s s',
  crun has_to s ls = Some s' -> c_connclosed s = true -> c_connclosed s' = true /\ c_wire s' = c_wire s.
Proof.
  unfold crun. induction ls as [|l ls IH]; intros s s' H Hc; simpl in H.
  - inversion H; subst. auto.
  - destruct (cstep has_to s l) as [s1|] eqn:E; [|discriminate].
    destruct (cstep_after_close _ _ _ _ E Hc) as [Hc1 Hw1]. destruct (IH _ _ H Hc1) as [Hc2 Hw2].
    split; [exact Hc2|congruence].
Qed.

(* ---- a context that ended while the request was still at the select ---- *)

Definition c_cancelled_early (t : nat) (s : cstate) : Prop :=
  (exists e, ctx_err (c_ctx s) t = Some e) /\
  (pc_of (c_thr s) t = Some PSelect \/ exists e, result_of (c_thr s) t = Some (0, Some e)).

Lemma c_ctx_step has_to t s l s' e :
  cstep has_to s l = Some s' -> ctx_err (c_ctx s) t = Some e -> ctx_err (c_ctx s') t = Some e.
Proof.
  intros H Hc. destruct s as [th cx qu rn fp w clg can cc h tn lt br]. simpl in *.
  destruct l; cbn [cstep] in H; try (destruct (after_return th clg t0) as [[th' clg']|]; [|discriminate]);
    break_match H; inversion H; subst; simpl; auto using ctx_err_ctx_end.
Qed.

(* the bytes of a request that is not in the flusher's hands do not change *)
Lemma cstep_bytes_notqueued has_to s l s' t :
  ~ In t (c_queue s ++ inflight (c_fpc s)) -> cstep has_to s l = Some s' ->
  bytes_of t (c_wire s') = bytes_of t (c_wire s).
Proof.
  intros Hnotin H. destruct s as [th cx qu rn fp w clg can cc h tn lt br]. simpl in Hnotin.
  destruct l; cbn [cstep] in H; try (destruct (after_return th clg t0) as [[th' clg']|]; [|discriminate]);
    try (destruct fp as [| |dn cur rest sent n|]; try discriminate);
    break_match H; inversion H; subst; simpl; auto.
  rewrite bytes_of_app, bytes_of_tag_other; [apply app_nil_r|].
  intros ->. apply Hnotin. apply in_or_app. right. simpl. apply in_or_app. simpl. auto.
Qed.

Lemma c_cancelled_early_step has_to t s l s' :
  cinv s -> cstep has_to s l = Some s' -> c_cancelled_early t s -> c_cancelled_early t s'.
Proof.
  intros I H [[e0 Hc] Hp]. split; [exists e0; eapply c_ctx_step; eauto|].
  destruct Hp as [Hp|[e1 Hp]]; [|right; exists e1; eapply cstep_final; eauto].
  destruct s as [th cx qu rn fp w clg can cc h tn lt br]. simpl in *.
  pose proof (pc_of_lt _ _ _ Hp) as Hlt.
  assert (Hnq : ~ In t (qu ++ inflight fp)) by (intros Hin; apply (ci_queued _ I) in Hin; simpl in Hin; congruence).
  assert (Hother : forall t0 p0 p1, pc_of th t0 = Some p0 -> p0 <> PSelect -> pc_of (set_pc th t0 p1) t = Some PSelect).
  { intros t0 p0 p1 H0 Hne. rewrite pc_of_set_other; [exact Hp|]. intros ->. congruence. }
  assert (Hsel : forall t0 p1, pc_of th t0 = Some PSelect ->
            (exists e, result_of_pc p1 = Some (0, Some e)) \/ t0 <> t ->
            pc_of (set_pc th t0 p1) t = Some PSelect \/ exists e, result_of (set_pc th t0 p1) t = Some (0, Some e)).
  { intros t0 p1 H0 Hor. destruct (Nat.eq_dec t0 t) as [->|Hne].
    - right. destruct Hor as [[e He]|Hx]; [|congruence]. exists e. rewrite result_of_set_same by assumption. exact He.
    - left. rewrite pc_of_set_other by assumption. exact Hp. }
  assert (Hdel : forall ts rs, (forall x, In x ts -> In x (qu ++ inflight fp)) -> pc_of (deliver th ts rs) t = Some PSelect).
  { intros ts rs Hts. rewrite deliver_pc_notin; [exact Hp|]. intros Hin. apply Hnq. auto. }
  destruct l; cbn [cstep] in H.
  - destruct clg; [discriminate|]. inversion H; subst; simpl. left. rewrite pc_of_app_old by assumption. exact Hp.
  - destruct (is_ctx_err e); [|discriminate]. inversion H; subst; simpl. auto.
  - break_match H; inversion H; subst; simpl. apply Hsel; [assumption|]. left. simpl. eauto.
  - break_match H; inversion H; subst; simpl. apply Hsel; [assumption|]. left. simpl. eauto.
  - (* CEnqueue: the flusher checks req.ctx.Err() when it receives the request *)
    destruct (pc_of th t0) as [[| |c| |r| |r1|r2|r3]|] eqn:Hpc; try discriminate. destruct fp; try discriminate.
    destruct (ctx_err cx t0) as [e|] eqn:Hct.
    + inversion H; subst; simpl. apply Hsel; [assumption|]. left. simpl. eauto.
    + assert (t0 <> t) by (intros ->; congruence).
      destruct lt; inversion H; subst; simpl; (apply Hsel; [assumption|right; assumption]).
  - break_match H; inversion H; subst; simpl; auto.
  - destruct fp; try discriminate. destruct dl as [e|].
    + destruct has_to; [|discriminate]. inversion H; subst; simpl. left. apply Hdel. intros x Hx. apply in_or_app. simpl. auto.
    + destruct batch; inversion H; subst; simpl; auto.
  - destruct fp as [| |dn cur rest sent n|]; try discriminate. break_match H; inversion H; subst; simpl. auto.
  - destruct fp as [| |dn cur rest sent n|]; try discriminate.
    assert (Hfin : forall e', pc_of (finish_flush th (dn ++ cur :: rest) (n + sent) e') t = Some PSelect).
    { intros e'. unfold finish_flush. apply Hdel. intros x Hx. apply in_or_app. simpl. auto. }
    destruct e as [x|]; [|destruct rest as [|t' rest']]; inversion H; subst; simpl; auto.
  - destruct fp; try discriminate. destruct can; [|discriminate]. inversion H; subst; simpl. left. apply Hdel.
    intros x Hx. apply in_or_app. auto.
  - destruct (after_return th clg t0) as [[th' clg']|] eqn:E; [|discriminate]. inversion H; subst; simpl.
    unfold after_return in E. break_match E; inversion E; subst; left; (eapply Hother; [eassumption|discriminate]).
  - break_match H; inversion H; subst; simpl; left; (eapply Hother; [eassumption|discriminate]).
  - break_match H; inversion H; subst; simpl; left; (eapply Hother; [eassumption|discriminate]).
  - inversion H; subst; simpl. left. rewrite pc_of_app_old by assumption. exact Hp.
Qed.

Lemma c_cancelled_early_notqueued t s : cinv s -> c_cancelled_early t s -> ~ In t (c_queue s ++ inflight (c_fpc s)).
Proof.
  intros I [_ [Hp|[e Hr]]] Hin; apply (ci_queued s I) in Hin.
  - congruence.
  - eapply has_result_not_queued; eauto.
Qed.

Lemma c_cancelled_early_run has_to t ls : forall s s',
  call s -> crun has_to s ls = Some s' -> c_cancelled_early t s -> bytes_of t (c_wire s) = [] ->
  c_cancelled_early t s' /\ bytes_of t (c_wire s') = [].
Proof.
  unfold crun. induction ls as [|l ls IH]; intros s s' [I I2] H Hc Hb; simpl in H.
  - inversion H; subst. auto.
  - destruct (cstep has_to s l) as [s1|] eqn:E; [|discriminate].
    apply (IH s1 s' (conj (cinv_step _ _ _ _ I I2 E) (cinv2_step _ _ _ _ I I2 E)) H).
    + eapply c_cancelled_early_step; eauto.
    + rewrite (cstep_bytes_notqueued _ _ _ _ t (c_cancelled_early_notqueued t s I Hc) E). exact Hb.
Qed.

(* if the context of a request ends while the request is still at the select, none of its bytes is ever written,
   and whatever it is told is (0, some error) *)
Lemma coal_ctx_done_lemma has_to ls1 ls2 s1 s t e :
  crun has_to c_init ls1 = Some s1 -> pc_of (c_thr s1) t = Some PSelect ->
  crun has_to s1 (CCtxDone t e :: ls2) = Some s ->
  bytes_of t (c_wire s) = [] /\ forall r, result_of (c_thr s) t = Some r -> fst r = 0 /\ snd r <> None.
Proof.
  intros H1 Hp H2.
  pose proof (call_reachable _ _ _ H1) as [I1 I12].
  unfold crun in H2. simpl in H2. destruct (cstep has_to s1 (CCtxDone t e)) as [s2|] eqn:E; [|discriminate].
  pose proof (conj (cinv_step _ _ _ _ I1 I12 E) (cinv2_step _ _ _ _ I1 I12 E)) as A2.
  assert (Hc2 : c_cancelled_early t s2 /\ bytes_of t (c_wire s2) = []).
  { destruct s1 as [th cx qu rn fp w clg can cc h tn lt br]. cbn [cstep] in E. destruct (is_ctx_err e); [|discriminate].
    inversion E; subst. split; [split; simpl; [apply ctx_err_ctx_end_same|left; exact Hp]|]. simpl.
    pose proof (ci_wire _ I1) as Hw. simpl in Hw. rewrite Hw. apply bytes_of_pieces_notin.
    eapply (c_not_started_notin _ t PSelect I1); eauto. simpl. intros Hx. apply handed_inflight in Hx.
    assert (Hq : pc_of th t = Some PQueued) by (apply (ci_queued _ I1); simpl; apply in_or_app; auto).
    simpl in Hp. congruence. }
  destruct Hc2 as [Hc2 Hb2].
  destruct (c_cancelled_early_run has_to t ls2 s2 s A2 H2 Hc2 Hb2) as [[_ Hfin] Hb]. split; [exact Hb|].
  intros r Hr. destruct Hfin as [Hsel|[e1 Hr1]].
  - unfold result_of in Hr. rewrite Hsel in Hr. discriminate.
  - rewrite Hr1 in Hr. inversion Hr; subst. simpl. split; [reflexivity|discriminate].
Qed.

(* ---- after a torn flush nothing more is written ---- *)

Lemma cstep_after_torn has_to s l s' :
  cinv2 s -> c_failed s <> None -> cstep has_to s l = Some s' -> c_failed s' <> None /\ c_wire s' = c_wire s.
Proof.
  intros I2 Hf H. destruct (c2_failed _ I2 Hf) as [_ [_ Hb]].
  destruct s as [th cx qu rn fp w clg can cc h tn lt br]. simpl in Hf, Hb.
  destruct l; cbn [cstep] in H; try (destruct (after_return th clg t) as [[th' clg']|]; [|discriminate]);
    try (destruct fp as [| |dn cur rest sent n|]; try discriminate);
    break_match H; inversion H; subst; simpl; auto.
Qed.

Lemma coal_after_torn_run has_to ls : forall s s',
  call s -> c_failed s <> None -> crun has_to s ls = Some s' -> c_wire s' = c_wire s.
Proof.
  unfold crun. induction ls as [|l ls IH]; intros s s' [I I2] Hf H; simpl in H.
  - inversion H; subst. reflexivity.
  - destruct (cstep has_to s l) as [s1|] eqn:E; [|discriminate].
    destruct (cstep_after_torn _ _ _ _ I2 Hf E) as [Hf1 Hw1].
    rewrite <- Hw1. apply IH; [|exact Hf1|exact H].
    split; [eapply cinv_step; eauto|eapply cinv2_step; eauto].
Qed.

Lemma coal_nothing_after_partial_lemma has_to ls1 ls2 s1 s2 :
  crun has_to c_init ls1 = Some s1 -> c_torn s1 = true -> c_broken s1 = false ->
  crun has_to s1 ls2 = Some s2 -> c_wire s2 = c_wire s1.
Proof.
  intros H1 Ht Hb H2. pose proof (call_reachable _ _ _ H1) as A.
  eapply coal_after_torn_run; eauto. exact (c2_torn _ (proj2 A) Ht Hb).
Qed.

(* ---- what exec can observe from writeContext (coalescing writer) ---- *)

Lemma coal_exec_view_lemma has_to ls s t n e :
  crun has_to c_init ls = Some s -> c_broken s = false -> result_of (c_thr s) t = Some (n, e) ->
  let f := frame_of (c_thr s) t in
  (e = None /\ n = length f /\ frame_present (frame_of (c_thr s)) t (c_wire s))
  \/ (e <> None /\ n = 0 /\ forall ls2 s2, crun has_to s ls2 = Some s2 -> bytes_of t (c_wire s2) = [])
  \/ (e <> None /\ 0 < n < length f /\ must_close (n, e) = true /\ bytes_of t (c_wire s) = firstn n f /\
      forall ls2 s2, crun has_to s ls2 = Some s2 -> c_wire s2 = c_wire s)
  \/ (e <> None /\ 0 < n /\ n = length f /\ must_close (n, e) = true /\ frame_present (frame_of (c_thr s)) t (c_wire s)).
Proof.
  intros Hrun Hb Hr. cbv zeta. pose proof (cinv_reachable _ _ _ Hrun) as I.
  destruct e as [x|].
  2: { left. split; [reflexivity|]. exact (coal_success_whole_lemma has_to ls s Hrun t n Hb Hr). }
  right. pose proof (coal_count_exact_lemma has_to ls s Hrun t n (Some x) Hb Hr) as Hbytes.
  destruct (Nat.eq_dec n 0) as [->|Hn0].
  - left. split; [discriminate|]. split; [reflexivity|]. intros ls2 s2 H2.
    destruct (coal_result_final_lemma has_to ls ls2 s s2 t _ Hrun H2 Hr) as [_ Hb2]. rewrite Hb2, Hbytes. reflexivity.
  - right. assert (Hin : In (t, n) (c_hist s)).
    { destruct (ci_count s I Hb t _ Hr) as [H|[H _]]; simpl in *; [exact H|lia]. }
    pose proof (ci_bound s I t n Hin) as Hle.
    assert (Hmc : must_close (n, Some x) = true) by (apply must_close_partial; lia).
    destruct (Nat.eq_dec n (length (frame_of (c_thr s) t))) as [Heq|Hne].
    + right. split; [discriminate|]. split; [lia|]. split; [exact Heq|]. split; [exact Hmc|].
      rewrite (ci_wire s I). apply in_pieces_present. rewrite <- Heq. exact Hin.
    + left. split; [discriminate|]. split; [lia|]. split; [exact Hmc|]. split; [exact Hbytes|].
      assert (Ht : c_torn s = true).
      { destruct (c_torn s) eqn:Et; [reflexivity|]. exfalso.
        destruct (ci_shape_b s I Et t n Hin) as [[H|H]|[dn [rest [m H]]]]; simpl in H; try lia.
        assert (Hq : pc_of (c_thr s) t = Some PQueued).
        { apply (ci_queued s I). rewrite H. simpl. rewrite !in_app_iff. simpl. auto. }
        unfold result_of in Hr. rewrite Hq in Hr. discriminate. }
      intros ls2 s2 H2. eapply coal_nothing_after_partial_lemma; eauto.
Qed.
