(* C07/Spec.v -- what the property and the contextWriter contract (conn.go:804-816, gocql's own
   documentation of writeContext) say, written without looking at how the writers are implemented.
   Shared vocabulary with the model: request ids, frames as byte lists, [tag] (a wire byte together with
   the request whose Write call handed it over), [res] = (n, err). *)
From GocqlV Require Import Lib.Base C07.Model.
Local Open Scope nat_scope.

Section Wire.
  Variable fr : nat -> list Z.          (* the frame of each request *)

  (* the stream consists of contiguous pieces, piece i being the first c_i bytes of the frame of request t_i *)
  Definition pieces (segs : list (nat * nat)) : list (nat * Z) :=
    flat_map (fun tc => tag (fst tc) (firstn (snd tc) (fr (fst tc)))) segs.

  (* "concurrent requests never interleave bytes": every frame contributes one contiguous piece at most *)
  Definition no_interleave (w : list (nat * Z)) : Prop :=
    exists segs, w = pieces segs /\ NoDup (map fst segs).

  Definition whole (ts : list nat) : list (nat * Z) := flat_map (fun t => tag t (fr t)) ts.

  (* "a concatenation of complete request frames, each appearing once and contiguously, possibly followed
     by one incomplete frame" *)
  Definition wire_shape (w : list (nat * Z)) : Prop :=
    exists ts tl, w = whole ts ++ tl /\ NoDup ts /\
      (tl = [] \/ exists t c, ~ In t ts /\ 0 < c < length (fr t) /\ tl = tag t (firstn c (fr t))).

  (* the whole frame of request t is in the stream, contiguously *)
  Definition frame_present (t : nat) (w : list (nat * Z)) : Prop :=
    exists a b, w = a ++ tag t (fr t) ++ b.
End Wire.

(* What a batch of frames of lengths [lens], of which the connection took the first [n] bytes before
   failing with [e], must be told (writeContext: "returns the number of bytes written from p and any error
   that caused the write to stop early; must return a non-nil error if it returns n < len(p)"):
   request i owns the bytes [before i, before i + len i). *)
Definition before (lens : list nat) (i : nat) : nat := list_sum (firstn i lens).

Definition spec_result (lens : list nat) (n : nat) (e : option err) (i : nat) : res :=
  let l := nth i lens 0 in
  if before lens i + l <=? n then (l, None) else (n - before lens i, e).
