(* C07/Proofs3.v -- consequences of the direct writer's invariant: the statements of Props.v. *)
From GocqlV Require Import Lib.Base C07.Model C07.Spec C07.Proofs1 C07.Proofs2.
Local Open Scope nat_scope.

(* ---- list facts about histories ---- *)

Lemma in_map_fst_filter {A B} (p : A * B -> bool) l x : In x (map fst (filter p l)) -> In x (map fst l).
Proof.
  induction l as [|a l IH]; simpl; [tauto|]. destruct (p a); simpl; intros H; tauto.
Qed.

Lemma NoDup_map_fst_filter {A B} (p : A * B -> bool) l : NoDup (map fst l) -> NoDup (map fst (filter p l)).
Proof.
  induction l as [|a l IH]; simpl; intros H; [constructor|]. inversion H; subst.
  destruct (p a); simpl; auto. constructor; auto. intros Hin. apply in_map_fst_filter in Hin. auto.
Qed.

Definition took (tc : nat * nat) : bool := 0 <? snd tc.

Lemma pieces_closed fr h :
  Forall (fun tc => snd tc = 0 \/ snd tc = length (fr (fst tc))) h ->
  pieces fr h = whole fr (map fst (filter took h)).
Proof.
  induction h as [|[t c] h IH]; intros H; simpl; [reflexivity|]. inversion H as [|x l Hx Hl]; subst.
  simpl in Hx. unfold took at 1. simpl. destruct (Nat.ltb_spec 0 c) as [Hc|Hc]; simpl.
  - destruct Hx as [Hx|Hx]; [lia|]. subst. rewrite firstn_all. f_equal. apply IH. exact Hl.
  - assert (c = 0) by lia. subst. simpl. apply IH. exact Hl.
Qed.

(* the general shape lemma: all Write calls but the last took nothing or everything *)
Lemma shape_of_hist fr h :
  NoDup (map fst h) ->
  (forall t c, In (t, c) h -> c <= length (fr t)) ->
  (forall h0 x, h = h0 ++ [x] -> Forall (fun tc => snd tc = 0 \/ snd tc = length (fr (fst tc))) h0) ->
  exists ts tl, pieces fr h = whole fr ts ++ tl /\ NoDup ts /\
    (tl = [] \/ exists t c, ~ In t ts /\ 0 < c < length (fr t) /\ tl = tag t (firstn c (fr t)) /\
                            exists h0, h = h0 ++ [(t, c)]).
Proof.
  intros Hnd Hb Hcl. destruct h as [|a h'] eqn:Eh.
  - exists [], []. simpl. split; [reflexivity|]. split; [constructor|]. left. reflexivity.
  - assert (Hne : a :: h' <> []) by discriminate. destruct (exists_last Hne) as [h0 [[t c] Hl]].
    rewrite Hl in *. clear Hne Eh Hl a h'.
    specialize (Hcl h0 (t, c) eq_refl). rewrite map_app in Hnd. simpl in Hnd. apply NoDup_app_last in Hnd.
    destruct Hnd as [Hnd0 Hnotin].
    assert (Hc : c <= length (fr t)) by (apply Hb; apply in_or_app; simpl; auto).
    rewrite pieces_app, (pieces_closed fr h0 Hcl). simpl. rewrite app_nil_r.
    set (ts := map fst (filter took h0)).
    assert (Hts : NoDup ts) by (apply NoDup_map_fst_filter; exact Hnd0).
    assert (Hnt : ~ In t ts) by (intros Hin; apply in_map_fst_filter in Hin; auto).
    destruct (Nat.eq_dec c 0) as [->|Hc0].
    + exists ts, []. simpl. split; [reflexivity|]. split; [exact Hts|]. left. reflexivity.
    + destruct (Nat.eq_dec c (length (fr t))) as [->|Hcl'].
      * exists (ts ++ [t]), []. unfold whole. rewrite flat_map_app. simpl. rewrite firstn_all, !app_nil_r.
        split; [reflexivity|]. split; [apply NoDup_app_last; auto|]. left. reflexivity.
      * exists ts, (tag t (firstn c (fr t))). split; [reflexivity|]. split; [exact Hts|]. right.
        exists t, c. repeat split; auto; try lia. exists h0. reflexivity.
Qed.

(* ---- theorems about reachable states of the direct writer ---- *)

Section Direct.
  Variable has_to : bool.
  Variable ls : list dlabel.
  Variable s : dstate.
  Hypothesis Hrun : drun has_to d_init ls = Some s.

  Let I : dinv s := dinv_reachable has_to ls s Hrun.
  Local Notation fr := (frame_of (d_thr s)).

  Lemma direct_mutex_lemma t t' p p' :
    pc_of (d_thr s) t = Some p -> critical p = true -> pc_of (d_thr s) t' = Some p' -> critical p' = true -> t = t'.
  Proof.
    intros H1 H2 H3 H4. pose proof (di_sem s I t p H1 H2). pose proof (di_sem s I t' p' H3 H4). congruence.
  Qed.

  Lemma direct_no_interleave_lemma : no_interleave fr (d_wire s).
  Proof. exists (d_hist s). split; [exact (di_wire s I)|exact (di_nodup s I)]. Qed.

  Lemma direct_count_exact_lemma t n e :
    result_of (d_thr s) t = Some (n, e) -> bytes_of t (d_wire s) = firstn n (fr t).
  Proof.
    intros H. rewrite (di_wire s I). destruct (di_count s I t _ H) as [Hin|[H0 Hnot]]; simpl in *.
    - apply bytes_of_pieces_in; [exact (di_nodup s I)|exact Hin].
    - subst. simpl. apply bytes_of_pieces_notin. exact Hnot.
  Qed.

  Lemma direct_success_whole_lemma t n :
    d_broken s = false -> result_of (d_thr s) t = Some (n, None) ->
    n = length (fr t) /\ frame_present fr t (d_wire s).
  Proof.
    intros Hb H. pose proof (di_ok s I Hb t n H) as Hn. split; [exact Hn|]. rewrite (di_wire s I).
    destruct (di_count s I t _ H) as [Hin|[H0 Hnot]]; simpl in *.
    - apply in_pieces_present. rewrite <- Hn. exact Hin.
    - exists (pieces (frame_of (d_thr s)) (d_hist s)), [].
      assert (Hnil : fr t = []) by (apply length_zero_iff_nil; lia).
      rewrite Hnil. simpl. rewrite app_nil_r. reflexivity.
  Qed.

  Lemma direct_wire_shape_lemma :
    d_late s = false ->
    exists ts tl, d_wire s = whole fr ts ++ tl /\ NoDup ts /\
      (tl = [] \/ exists t c, ~ In t ts /\ 0 < c < length (fr t) /\ tl = tag t (firstn c (fr t)) /\
         (pc_of (d_thr s) t = Some (PWriting c) \/
          (d_torn s = true /\ exists e, result_of (d_thr s) t = Some (c, e) /\ (d_broken s = false -> e <> None)))).
  Proof.
    intros Hl. rewrite (di_wire s I).
    destruct (shape_of_hist fr (d_hist s) (di_nodup s I) (di_bound s I)) as [ts [tl [H1 [H2 H3]]]].
    { intros h0 x Hh. exact (di_shape_a s I Hl h0 x Hh). }
    exists ts, tl. split; [exact H1|]. split; [exact H2|]. destruct H3 as [H3|[t [c [Hn [Hc [Htl [h0 Hh]]]]]]]; [left; exact H3|].
    right. exists t, c. repeat split; auto; try lia.
    assert (Hin : In (t, c) (d_hist s)) by (rewrite Hh; apply in_or_app; simpl; auto).
    destruct (di_started s I t) as [p [Hp Hs]]; [eapply in_fst; eauto|].
    assert (Huniq : forall c', In (t, c') (d_hist s) -> c' = c).
    { intros c' Hin'. pose proof (di_nodup s I) as Hnd. rewrite Hh in Hnd, Hin'. rewrite map_app in Hnd. simpl in Hnd.
      apply NoDup_app_last in Hnd. destruct Hnd as [_ Hnot]. apply in_app_or in Hin'.
      destruct Hin' as [Hin'|[Hin'|[]]]; [exfalso; apply Hnot; eapply in_fst; eauto|congruence]. }
    destruct p as [| |c'| |r| |r|r|r]; try discriminate.
    - left. destruct (di_last s I t c' Hp) as [h1 Hh1]. assert (c' = c) by (apply Huniq; rewrite Hh1; apply in_or_app; simpl; auto).
      subst. exact Hp.
    - right. assert (Hr : result_of (d_thr s) t = Some r) by (unfold result_of; rewrite Hp; reflexivity).
      destruct r as [n e]. destruct (di_count s I t _ Hr) as [Hin'|[_ Hnot]]; simpl in *; [|exfalso; apply Hnot; eapply in_fst; eauto].
      assert (n = c) by (apply Huniq; exact Hin'). subst n. split.
      + destruct (d_torn s) eqn:Ht; [reflexivity|]. destruct (di_shape_b s I Ht t c Hin) as [[H|H]|H]; simpl in *; try lia. congruence.
      + exists e. split; [exact Hr|]. intros Hb ->. pose proof (di_ok s I Hb t c Hr). lia.
    - right. assert (Hr : result_of (d_thr s) t = Some r) by (unfold result_of; rewrite Hp; reflexivity).
      destruct r as [n e]. destruct (di_count s I t _ Hr) as [Hin'|[_ Hnot]]; simpl in *; [|exfalso; apply Hnot; eapply in_fst; eauto].
      assert (n = c) by (apply Huniq; exact Hin'). subst n. split.
      + destruct (d_torn s) eqn:Ht; [reflexivity|]. destruct (di_shape_b s I Ht t c Hin) as [[H|H]|H]; simpl in *; try lia. congruence.
      + exists e. split; [exact Hr|]. intros Hb ->. pose proof (di_ok s I Hb t c Hr). lia.
    - right. assert (Hr : result_of (d_thr s) t = Some r) by (unfold result_of; rewrite Hp; reflexivity).
      destruct r as [n e]. destruct (di_count s I t _ Hr) as [Hin'|[_ Hnot]]; simpl in *; [|exfalso; apply Hnot; eapply in_fst; eauto].
      assert (n = c) by (apply Huniq; exact Hin'). subst n. split.
      + destruct (d_torn s) eqn:Ht; [reflexivity|]. destruct (di_shape_b s I Ht t c Hin) as [[H|H]|H]; simpl in *; try lia. congruence.
      + exists e. split; [exact Hr|]. intros Hb ->. pose proof (di_ok s I Hb t c Hr). lia.
    - right. assert (Hr : result_of (d_thr s) t = Some r) by (unfold result_of; rewrite Hp; reflexivity).
      destruct r as [n e]. destruct (di_count s I t _ Hr) as [Hin'|[_ Hnot]]; simpl in *; [|exfalso; apply Hnot; eapply in_fst; eauto].
      assert (n = c) by (apply Huniq; exact Hin'). subst n. split.
      + destruct (d_torn s) eqn:Ht; [reflexivity|]. destruct (di_shape_b s I Ht t c Hin) as [[H|H]|H]; simpl in *; try lia. congruence.
      + exists e. split; [exact Hr|]. intros Hb ->. pose proof (di_ok s I Hb t c Hr). lia.
  Qed.

  Definition d_quiescent (s0 : dstate) : Prop :=
    forall t p, pc_of (d_thr s0) t = Some p -> exists r, p = PDone r.

  Lemma direct_torn_closed_lemma :
    d_torn s = true -> d_broken s = false -> d_quiescent s -> d_connclosed s = true.
  Proof.
    intros Ht Hb Hq. assert (Hc : d_closing s = true).
    { destruct (di_torn s I Ht) as [H|[H|[t [r [H _]]]]]; [congruence|exact H|].
      destruct (Hq t _ H) as [r' Hr']. discriminate. }
    destruct (di_closing s I Hc) as [H|[t [r [H|H]]]]; [exact H| |]; destruct (Hq t _ H) as [r' Hr']; discriminate.
  Qed.
End Direct.

(* results are final *)
Lemma set_pc_result_stable th t r t0 p0 p1 :
  result_of th t = Some r -> pc_of th t0 = Some p0 ->
  (result_of_pc p0 = None \/ result_of_pc p1 = result_of_pc p0) ->
  result_of (set_pc th t0 p1) t = Some r.
Proof.
  intros Hr Hp0 Hor. destruct (Nat.eq_dec t0 t) as [->|Hne].
  - pose proof (pc_of_lt _ _ _ Hp0) as Hlt. unfold result_of in Hr. rewrite Hp0 in Hr.
    destruct Hor as [Hor|Hor]; [congruence|]. rewrite result_of_set_same by assumption. congruence.
  - rewrite result_of_set_other by assumption. exact Hr.
Qed.

Lemma after_return_result th clg t0 th' clg' t r :
  after_return th clg t0 = Some (th', clg') -> result_of th t = Some r -> result_of th' t = Some r.
Proof.
  unfold after_return. intros H Hr. break_match H; inversion H; subst;
    (eapply set_pc_result_stable; [exact Hr|eassumption|]; simpl; auto).
Qed.

Lemma app_result_stable th x t r : result_of th t = Some r -> result_of (th ++ [x]) t = Some r.
Proof.
  intros Hr. assert (Hlt : t < length th).
  { unfold result_of in Hr. destruct (pc_of th t) eqn:E; [|discriminate]. eapply pc_of_lt; eauto. }
  unfold result_of. rewrite pc_of_app_old by assumption. exact Hr.
Qed.

Lemma dstep_result_stable has_to s l s' t r :
  dstep has_to s l = Some s' -> result_of (d_thr s) t = Some r -> result_of (d_thr s') t = Some r.
Proof.
  intros H Hr. destruct s as [th cx sem w q clg can cc h tn lt br]. simpl in Hr.
  destruct l; cbn [dstep] in H;
    try (destruct (after_return th clg t0) as [[th' clg']|] eqn:E; [|discriminate]; inversion H; subst; simpl;
         eapply after_return_result; eauto);
    break_match H; inversion H; subst; simpl; auto using app_result_stable;
    try (eapply set_pc_result_stable; [exact Hr|eassumption|]; simpl; auto).
Qed.

Lemma drun_result_stable has_to ls : forall s s' t r,
  drun has_to s ls = Some s' -> result_of (d_thr s) t = Some r -> result_of (d_thr s') t = Some r.
Proof.
  unfold drun. induction ls as [|l ls IH]; intros s s' t r H Hr; simpl in H.
  - inversion H; subst. exact Hr.
  - destruct (dstep has_to s l) as [s1|] eqn:E; [|discriminate]. eapply IH; [exact H|].
    eapply dstep_result_stable; eauto.
Qed.

(* leaving the select through ctx.Done() or quit: nothing of the frame is ever on the wire *)
Lemma direct_select_exit_lemma has_to ls s t l :
  drun has_to d_init ls = Some s -> In l ls -> (exists e, l = DCtx t e) \/ l = DQuitSel t ->
  (exists e, result_of (d_thr s) t = Some (0, Some e)) /\ bytes_of t (d_wire s) = [].
Proof.
  intros Hrun Hin Hl. unfold drun in Hrun.
  destruct (lts_run_split _ _ _ _ _ Hin Hrun) as [ls1 [ls2 [s1 [s2 [Hls [H1 [H2 H3]]]]]]].
  assert (Hr : exists e, result_of (d_thr s2) t = Some (0, Some e)).
  { destruct s1 as [th cx sem w q clg can cc h tn lt br]. destruct Hl as [[e ->]| ->]; cbn [dstep] in H2;
      break_match H2; inversion H2; subst; simpl; eexists; (rewrite result_of_set_same; [reflexivity|]); eapply pc_of_lt; eauto. }
  destruct Hr as [e Hr]. pose proof (drun_result_stable _ _ _ _ _ _ H3 Hr) as Hr'.
  split; [exists e; exact Hr'|].
  rewrite (direct_count_exact_lemma has_to ls s Hrun t 0 (Some e) Hr'). reflexivity.
Qed.

(* a closed connection accepts nothing *)
Lemma dstep_after_close has_to s l s' :
  dstep has_to s l = Some s' -> d_connclosed s = true -> d_connclosed s' = true /\ d_wire s' = d_wire s.
Proof.
  intros H Hc. destruct s as [th cx sem w q clg can cc h tn lt br]. simpl in Hc. subst cc.
  destruct l; cbn [dstep] in H; unfold after_return in H; break_match H; inversion H; subst; simpl; auto.
Qed.

Lemma direct_after_close_lemma has_to ls : forall s s',
  drun has_to s ls = Some s' -> d_connclosed s = true -> d_connclosed s' = true /\ d_wire s' = d_wire s.
Proof.
  unfold drun. induction ls as [|l ls IH]; intros s s' H Hc; simpl in H.
  - inversion H; subst. auto.
  - destruct (dstep has_to s l) as [s1|] eqn:E; [|discriminate].
    destruct (dstep_after_close _ _ _ _ E Hc) as [Hc1 Hw1]. destruct (IH _ _ H Hc1) as [Hc2 Hw2].
    split; [exact Hc2|congruence].
Qed.
