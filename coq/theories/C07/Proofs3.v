(* C07/Proofs3.v -- consequences of the direct writer's invariant: the statements of Props.v. *)
From GocqlV Require Import Lib.Base C07.Model C07.Spec C07.Proofs1 C07.Proofs2.
Local Open Scope nat_scope.

(* ---- list facts about histories ---- *)

Lemma in_map_fst_filter {A B} (p : A * B -> bool) l x : In x (map fst (filter p l)) -> In x (map fst l).
Proof.
  induction l as [|a l IH]; simpl; [tauto|]. destruct (p a); simpl; intros H; tauto.
Qed.

Lemma NoDup_map_fst_filter {A B} (p : A * B -> bool) l : NoDup (map fst l) -> NoDup (map fst (filter p l)).
Proof.
  induction l as [|a l IH]; simpl; intros H; [constructor|]. inversion H; subst.
  destruct (p a); simpl; auto. constructor; auto. intros Hin. apply in_map_fst_filter in Hin. auto.
Qed.

Definition took (tc : nat * nat) : bool := 0 <? snd tc.

Lemma pieces_closed fr h :
  Forall (fun tc => snd tc = 0 \/ snd tc = length (fr (fst tc))) h ->
  pieces fr h = whole fr (map fst (filter took h)).
Proof.
  induction h as [|[t c] h IH]; intros H; simpl; [reflexivity|]. inversion H as [|x l Hx Hl]; subst.
  simpl in Hx. unfold took at 1. simpl. destruct (Nat.ltb_spec 0 c) as [Hc|Hc]; simpl.
  - destruct Hx as [Hx|Hx]; [lia|]. subst. rewrite firstn_all. f_equal. apply IH. exact Hl.
  - assert (c = 0) by lia. subst. simpl. apply IH. exact Hl.
Qed.

(* the general shape lemma: all Write calls but the last took nothing or everything *)
Lemma shape_of_hist fr h :
  NoDup (map fst h) ->
  (forall t c, In (t, c) h -> c <= length (fr t)) ->
  (forall h0 x, h = h0 ++ [x] -> Forall (fun tc => snd tc = 0 \/ snd tc = length (fr (fst tc))) h0) ->
  exists ts tl, pieces fr h = whole fr ts ++ tl /\ NoDup ts /\
    (tl = [] \/ exists t c, ~ In t ts /\ 0 < c < length (fr t) /\ tl = tag t (firstn c (fr t)) /\
                            exists h0, h = h0 ++ [(t, c)]).
Proof.
  intros Hnd Hb Hcl. destruct h as [|a h'] eqn:Eh.
  - exists [], []. simpl. split; [reflexivity|]. split; [constructor|]. left. reflexivity.
  - assert (Hne : a :: h' <> []) by discriminate. destruct (exists_last Hne) as [h0 [[t c] Hl]].
    rewrite Hl in *. clear Hne Eh Hl a h'.
    specialize (Hcl h0 (t, c) eq_refl). rewrite map_app in Hnd. simpl in Hnd. apply NoDup_app_last in Hnd.
    destruct Hnd as [Hnd0 Hnotin].
    assert (Hc : c <= length (fr t)) by (apply Hb; apply in_or_app; simpl; auto).
    rewrite pieces_app, (pieces_closed fr h0 Hcl). simpl. rewrite app_nil_r.
    set (ts := map fst (filter took h0)).
    assert (Hts : NoDup ts) by (apply NoDup_map_fst_filter; exact Hnd0).
    assert (Hnt : ~ In t ts) by (intros Hin; apply in_map_fst_filter in Hin; auto).
    destruct (Nat.eq_dec c 0) as [->|Hc0].
    + exists ts, []. simpl. split; [reflexivity|]. split; [exact Hts|]. left. reflexivity.
    + destruct (Nat.eq_dec c (length (fr t))) as [->|Hcl'].
      * exists (ts ++ [t]), []. unfold whole. rewrite flat_map_app. simpl. rewrite firstn_all, !app_nil_r.
        split; [reflexivity|]. split; [apply NoDup_app_last; auto|]. left. reflexivity.
      * exists ts, (tag t (firstn c (fr t))). split; [reflexivity|]. split; [exact Hts|]. right.
        exists t, c. repeat split; auto; try lia. exists h0. reflexivity.
Qed.

(* ---- theorems about reachable states of the direct writer ---- *)

Section Direct.
  Variable has_to : bool.
  Variable ls : list dlabel.
  Variable s : dstate.
  Hypothesis Hrun : drun has_to d_init ls = Some s.

  Let I : dinv s := dinv_reachable has_to ls s Hrun.
  Local Notation fr := (frame_of (d_thr s)).

  Lemma direct_mutex_lemma t t' p p' :
    pc_of (d_thr s) t = Some p -> critical p = true -> pc_of (d_thr s) t' = Some p' -> critical p' = true -> t = t'.
  Proof.
    intros H1 H2 H3 H4. pose proof (di_sem s I t p H1 H2). pose proof (di_sem s I t' p' H3 H4). congruence.
  Qed.

  Lemma direct_no_interleave_lemma : no_interleave fr (d_wire s).
  Proof. exists (d_hist s). split; [exact (di_wire s I)|exact (di_nodup s I)]. Qed.

  Lemma direct_count_exact_lemma t n e :
    result_of (d_thr s) t = Some (n, e) -> bytes_of t (d_wire s) = firstn n (fr t).
  Proof.
    intros H. rewrite (di_wire s I). destruct (di_count s I t _ H) as [Hin|[H0 Hnot]]; simpl in *.
    - apply bytes_of_pieces_in; [exact (di_nodup s I)|exact Hin].
    - subst. simpl. apply bytes_of_pieces_notin. exact Hnot.
  Qed.

  Lemma direct_success_whole_lemma t n :
    d_broken s = false -> result_of (d_thr s) t = Some (n, None) ->
    n = length (fr t) /\ frame_present fr t (d_wire s).
  Proof.
    intros Hb H. pose proof (di_ok s I Hb t n H) as Hn. split; [exact Hn|]. rewrite (di_wire s I).
    destruct (di_count s I t _ H) as [Hin|[H0 Hnot]]; simpl in *.
    - apply in_pieces_present. rewrite <- Hn. exact Hin.
    - exists (pieces (frame_of (d_thr s)) (d_hist s)), [].
      assert (Hnil : fr t = []) by (apply length_zero_iff_nil; lia).
      rewrite Hnil. simpl. rewrite app_nil_r. reflexivity.
  Qed.

  Lemma direct_wire_shape_lemma :
    exists ts tl, d_wire s = whole fr ts ++ tl /\ NoDup ts /\
      (tl = [] \/ exists t c, ~ In t ts /\ 0 < c < length (fr t) /\ tl = tag t (firstn c (fr t)) /\
         (pc_of (d_thr s) t = Some (PWriting c) \/
          (d_torn s = true /\ exists e, result_of (d_thr s) t = Some (c, e) /\ (d_broken s = false -> e <> None)))).
  Proof.
    rewrite (di_wire s I).
    destruct (shape_of_hist fr (d_hist s) (di_nodup s I) (di_bound s I)) as [ts [tl [H1 [H2 H3]]]].
    { intros h0 x Hh. exact (di_shape_a s I h0 x Hh). }
    exists ts, tl. split; [exact H1|]. split; [exact H2|]. destruct H3 as [H3|[t [c [Hn [Hc [Htl [h0 Hh]]]]]]]; [left; exact H3|].
    right. exists t, c. repeat split; auto; try lia.
    assert (Hin : In (t, c) (d_hist s)) by (rewrite Hh; apply in_or_app; simpl; auto).
    destruct (di_started s I t) as [p [Hp Hs]]; [eapply in_fst; eauto|].
    assert (Huniq : forall c', In (t, c') (d_hist s) -> c' = c).
    { intros c' Hin'. pose proof (di_nodup s I) as Hnd. rewrite Hh in Hnd, Hin'. rewrite map_app in Hnd. simpl in Hnd.
      apply NoDup_app_last in Hnd. destruct Hnd as [_ Hnot]. apply in_app_or in Hin'.
      destruct Hin' as [Hin'|[Hin'|[]]]; [exfalso; apply Hnot; eapply in_fst; eauto|congruence]. }
    destruct p as [| |c'| |r| |r|r|r]; try discriminate.
    - left. destruct (di_last s I t c' Hp) as [h1 Hh1]. assert (c' = c) by (apply Huniq; rewrite Hh1; apply in_or_app; simpl; auto).
      subst. exact Hp.
    - right. assert (Hr : result_of (d_thr s) t = Some r) by (unfold result_of; rewrite Hp; reflexivity).
      destruct r as [n e]. destruct (di_count s I t _ Hr) as [Hin'|[_ Hnot]]; simpl in *; [|exfalso; apply Hnot; eapply in_fst; eauto].
      assert (n = c) by (apply Huniq; exact Hin'). subst n. split.
      + destruct (d_torn s) eqn:Ht; [reflexivity|]. destruct (di_shape_b s I Ht t c Hin) as [[H|H]|H]; simpl in *; try lia. congruence.
      + exists e. split; [exact Hr|]. intros Hb ->. pose proof (di_ok s I Hb t c Hr). lia.
    - right. assert (Hr : result_of (d_thr s) t = Some r) by (unfold result_of; rewrite Hp; reflexivity).
      destruct r as [n e]. destruct (di_count s I t _ Hr) as [Hin'|[_ Hnot]]; simpl in *; [|exfalso; apply Hnot; eapply in_fst; eauto].
      assert (n = c) by (apply Huniq; exact Hin'). subst n. split.
      + destruct (d_torn s) eqn:Ht; [reflexivity|]. destruct (di_shape_b s I Ht t c Hin) as [[H|H]|H]; simpl in *; try lia. congruence.
      + exists e. split; [exact Hr|]. intros Hb ->. pose proof (di_ok s I Hb t c Hr). lia.
    - right. assert (Hr : result_of (d_thr s) t = Some r) by (unfold result_of; rewrite Hp; reflexivity).
      destruct r as [n e]. destruct (di_count s I t _ Hr) as [Hin'|[_ Hnot]]; simpl in *; [|exfalso; apply Hnot; eapply in_fst; eauto].
      assert (n = c) by (apply Huniq; exact Hin'). subst n. split.
      + destruct (d_torn s) eqn:Ht; [reflexivity|]. destruct (di_shape_b s I Ht t c Hin) as [[H|H]|H]; simpl in *; try lia. congruence.
      + exists e. split; [exact Hr|]. intros Hb ->. pose proof (di_ok s I Hb t c Hr). lia.
    - right. assert (Hr : result_of (d_thr s) t = Some r) by (unfold result_of; rewrite Hp; reflexivity).
      destruct r as [n e]. destruct (di_count s I t _ Hr) as [Hin'|[_ Hnot]]; simpl in *; [|exfalso; apply Hnot; eapply in_fst; eauto].
      assert (n = c) by (apply Huniq; exact Hin'). subst n. split.
      + destruct (d_torn s) eqn:Ht; [reflexivity|]. destruct (di_shape_b s I Ht t c Hin) as [[H|H]|H]; simpl in *; try lia. congruence.
      + exists e. split; [exact Hr|]. intros Hb ->. pose proof (di_ok s I Hb t c Hr). lia.
  Qed.

  Definition d_quiescent (s0 : dstate) : Prop :=
    forall t p, pc_of (d_thr s0) t = Some p -> exists r, p = PDone r.

  Lemma direct_torn_closed_lemma :
    d_torn s = true -> d_broken s = false -> d_quiescent s -> d_connclosed s = true.
  Proof.
    intros Ht Hb Hq. assert (Hc : d_closing s = true).
    { destruct (di_torn s I Ht) as [H|[H|[t [r [H _]]]]]; [congruence|exact H|].
      destruct (Hq t _ H) as [r' Hr']. discriminate. }
    destruct (di_closing s I Hc) as [H|[t [r [H|H]]]]; [exact H| |]; destruct (Hq t _ H) as [r' Hr']; discriminate.
  Qed.
End Direct.

(* results are final *)
Lemma set_pc_result_stable th t r t0 p0 p1 :
  result_of th t = Some r -> pc_of th t0 = Some p0 ->
  (result_of_pc p0 = None \/ result_of_pc p1 = result_of_pc p0) ->
  result_of (set_pc th t0 p1) t = Some r.
Proof.
  intros Hr Hp0 Hor. destruct (Nat.eq_dec t0 t) as [->|Hne].
  - pose proof (pc_of_lt _ _ _ Hp0) as Hlt. unfold result_of in Hr. rewrite Hp0 in Hr.
    destruct Hor as [Hor|Hor]; [congruence|]. rewrite result_of_set_same by assumption. congruence.
  - rewrite result_of_set_other by assumption. exact Hr.
Qed.

Lemma after_return_result th clg t0 th' clg' t r :
  after_return th clg t0 = Some (th', clg') -> result_of th t = Some r -> result_of th' t = Some r.
Proof.
  unfold after_return. intros H Hr. break_match H; inversion H; subst;
    (eapply set_pc_result_stable; [exact Hr|eassumption|]; simpl; auto).
Qed.

Lemma app_result_stable th x t r : result_of th t = Some r -> result_of (th ++ [x]) t = Some r.
Proof.
  intros Hr. assert (Hlt : t < length th).
  { unfold result_of in Hr. destruct (pc_of th t) eqn:E; [|discriminate]. eapply pc_of_lt; eauto. }
  unfold result_of. rewrite pc_of_app_old by assumption. exact Hr.
Qed.

Lemma dstep_result_stable has_to s l s' t r :
  dstep has_to s l = Some s' -> result_of (d_thr s) t = Some r -> result_of (d_thr s') t = Some r.
Proof.
  intros H Hr. destruct s as [th cx sem w q clg can cc h tn lt br]. simpl in Hr.
  destruct l; cbn [dstep] in H;
    try (destruct (after_return th clg t0) as [[th' clg']|] eqn:E; [|discriminate]; inversion H; subst; simpl;
         eapply after_return_result; eauto);
    break_match H; inversion H; subst; simpl; auto using app_result_stable;
    try (eapply set_pc_result_stable; [exact Hr|eassumption|]; simpl; auto).
Qed.

Lemma drun_result_stable has_to ls : forall s s' t r,
  drun has_to s ls = Some s' -> result_of (d_thr s) t = Some r -> result_of (d_thr s') t = Some r.
Proof.
  unfold drun. induction ls as [|l ls IH]; intros s s' t r H Hr; simpl in H.
  - inversion H; subst. exact Hr.
  - destruct (dstep has_to s l) as [s1|] eqn:E; [|discriminate]. eapply IH; [exact H|].
    eapply dstep_result_stable; eauto.
Qed.

(* leaving the select through ctx.Done() or quit: nothing of the frame is ever on the wire *)
Lemma direct_select_exit_lemma has_to ls s t l :
  drun has_to d_init ls = Some s -> In l ls -> (exists e, l = DCtx t e) \/ l = DQuitSel t ->
  (exists e, result_of (d_thr s) t = Some (0, Some e)) /\ bytes_of t (d_wire s) = [].
Proof.
  intros Hrun Hin Hl. unfold drun in Hrun.
  destruct (lts_run_split _ _ _ _ _ Hin Hrun) as [ls1 [ls2 [s1 [s2 [Hls [H1 [H2 H3]]]]]]].
  assert (Hr : exists e, result_of (d_thr s2) t = Some (0, Some e)).
  { destruct s1 as [th cx sem w q clg can cc h tn lt br]. destruct Hl as [[e ->]| ->]; cbn [dstep] in H2;
      break_match H2; inversion H2; subst; simpl; eexists; (rewrite result_of_set_same; [reflexivity|]); eapply pc_of_lt; eauto. }
  destruct Hr as [e Hr]. pose proof (drun_result_stable _ _ _ _ _ _ H3 Hr) as Hr'.
  split; [exists e; exact Hr'|].
  rewrite (direct_count_exact_lemma has_to ls s Hrun t 0 (Some e) Hr'). reflexivity.
Qed.

(* a closed connection accepts nothing *)
Lemma dstep_after_close has_to s l s' :
  dstep has_to s l = Some s' -> d_connclosed s = true -> d_connclosed s' = true /\ d_wire s' = d_wire s.
Proof.
  intros H Hc. destruct s as [th cx sem w q clg can cc h tn lt br]. simpl in Hc. subst cc.
  destruct l; cbn [dstep] in H; unfold after_return in H; break_match H; inversion H; subst; simpl; auto.
Qed.

Lemma direct_after_close_lemma has_to ls : forall s s',
  drun has_to s ls = Some s' -> d_connclosed s = true -> d_connclosed s' = true /\ d_wire s' = d_wire s.
Proof.
  unfold drun. induction ls as [|l ls IH]; intros s s' H Hc; simpl in H.
  - inversion H; subst. auto.
  - destruct (dstep has_to s l) as [s1|] eqn:E; [|discriminate].
    destruct (dstep_after_close _ _ _ _ E Hc) as [Hc1 Hw1]. destruct (IH _ _ H Hc1) as [Hc2 Hw2].
    split; [exact Hc2|congruence].
Qed.

(* ---- a context that ended while the request was still at the select ---- *)

Definition d_cancelled_early (t : nat) (s : dstate) : Prop :=
  (exists e, ctx_err (d_ctx s) t = Some e) /\
  (pc_of (d_thr s) t = Some PSelect \/ exists e, result_of (d_thr s) t = Some (0, Some e)).

Lemma d_ctx_step has_to t s l s' e :
  dstep has_to s l = Some s' -> ctx_err (d_ctx s) t = Some e -> ctx_err (d_ctx s') t = Some e.
Proof.
  intros H Hc. destruct s as [th cx sem w q clg can cc h tn lt br]. simpl in *.
  destruct l; cbn [dstep] in H; try (destruct (after_return th clg t0) as [[th' clg']|]; [|discriminate]);
    break_match H; inversion H; subst; simpl; auto using ctx_err_ctx_end.
Qed.

Lemma d_cancelled_early_step has_to t s l s' :
  dstep has_to s l = Some s' -> d_cancelled_early t s -> d_cancelled_early t s'.
Proof.
  intros H [[e0 Hc] Hp]. split; [exists e0; eapply d_ctx_step; eauto|].
  destruct Hp as [Hp|[e1 Hp]]; [|right; exists e1; eapply dstep_result_stable; eauto].
  destruct s as [th cx sem w q clg can cc h tn lt br]. simpl in *.
  pose proof (pc_of_lt _ _ _ Hp) as Hlt.
  assert (Hother : forall t0 p0 p1, pc_of th t0 = Some p0 -> p0 <> PSelect -> pc_of (set_pc th t0 p1) t = Some PSelect).
  { intros t0 p0 p1 H0 Hne. rewrite pc_of_set_other; [exact Hp|]. intros ->. congruence. }
  assert (Hsel : forall t0 p1, pc_of th t0 = Some PSelect ->
            (exists e, result_of_pc p1 = Some (0, Some e)) \/ t0 <> t ->
            pc_of (set_pc th t0 p1) t = Some PSelect \/ exists e, result_of (set_pc th t0 p1) t = Some (0, Some e)).
  { intros t0 p1 H0 Hor. destruct (Nat.eq_dec t0 t) as [->|Hne].
    - right. destruct Hor as [[e He]|Hx]; [|congruence]. exists e. rewrite result_of_set_same by assumption. exact He.
    - left. rewrite pc_of_set_other by assumption. exact Hp. }
  destruct l; cbn [dstep] in H.
  - destruct clg; [discriminate|]. inversion H; subst; simpl. left. rewrite pc_of_app_old by assumption. exact Hp.
  - destruct (is_ctx_err e); [|discriminate]. inversion H; subst; simpl. auto.
  - break_match H; inversion H; subst; simpl. apply Hsel; [assumption|]. left. simpl. eauto.
  - break_match H; inversion H; subst; simpl. apply Hsel; [assumption|]. left. simpl. eauto.
  - (* DAcquire: the check of ctx.Err() after the semaphore has been acquired *)
    destruct (pc_of th t0) as [[| |c| |r| |r1|r2|r3]|] eqn:Hpc; try discriminate. destruct sem; [discriminate|].
    destruct (ctx_err cx t0) as [e|] eqn:Hct.
    + inversion H; subst; simpl. apply Hsel; [assumption|]. left. simpl. eauto.
    + assert (t0 <> t) by (intros ->; congruence).
      destruct lt; inversion H; subst; simpl; (apply Hsel; [assumption|right; assumption]).
  - break_match H; inversion H; subst; simpl; left; (eapply Hother; [eassumption|discriminate]).
  - break_match H; inversion H; subst; simpl; left; (eapply Hother; [eassumption|discriminate]).
  - destruct (pc_of th t0) as [[| |c| |r| |r1|r2|r3]|] eqn:Hpc; try discriminate. inversion H; subst; simpl.
    left. eapply Hother; [eassumption|discriminate].
  - destruct (after_return th clg t0) as [[th' clg']|] eqn:E; [|discriminate]. inversion H; subst; simpl.
    unfold after_return in E. break_match E; inversion E; subst; left; (eapply Hother; [eassumption|discriminate]).
  - break_match H; inversion H; subst; simpl; left; (eapply Hother; [eassumption|discriminate]).
  - break_match H; inversion H; subst; simpl; left; (eapply Hother; [eassumption|discriminate]).
  - inversion H; subst; simpl. left. rewrite pc_of_app_old by assumption. exact Hp.
  - inversion H; subst; simpl. auto.
Qed.

Lemma d_cancelled_early_run has_to t ls : forall s s',
  drun has_to s ls = Some s' -> d_cancelled_early t s -> d_cancelled_early t s'.
Proof.
  unfold drun. induction ls as [|l ls IH]; intros s s' H Hc; simpl in H.
  - inversion H; subst. exact Hc.
  - destruct (dstep has_to s l) as [s1|] eqn:E; [|discriminate]. eapply IH; [exact H|].
    eapply d_cancelled_early_step; eauto.
Qed.

(* if the context of a request ends while the request is still at the select, none of its bytes is ever written,
   and whatever it is told is (0, some error) *)
Lemma direct_ctx_done_lemma has_to ls1 ls2 s1 s t e :
  drun has_to d_init ls1 = Some s1 -> pc_of (d_thr s1) t = Some PSelect ->
  drun has_to s1 (DCtxDone t e :: ls2) = Some s ->
  bytes_of t (d_wire s) = [] /\ forall r, result_of (d_thr s) t = Some r -> fst r = 0 /\ snd r <> None.
Proof.
  intros H1 Hp H2.
  assert (Hrun : drun has_to d_init (ls1 ++ DCtxDone t e :: ls2) = Some s).
  { unfold drun in *. rewrite lts_run_app, H1. exact H2. }
  pose proof (dinv_reachable _ _ _ Hrun) as I.
  unfold drun in H2. simpl in H2. destruct (dstep has_to s1 (DCtxDone t e)) as [s2|] eqn:E; [|discriminate].
  assert (Hc2 : d_cancelled_early t s2).
  { destruct s1 as [th cx sem w q clg can cc h tn lt br]. cbn [dstep] in E. destruct (is_ctx_err e); [|discriminate].
    inversion E; subst. split; simpl; [apply ctx_err_ctx_end_same|]. left. exact Hp. }
  destruct (d_cancelled_early_run has_to t ls2 s2 s H2 Hc2) as [_ Hfin]. destruct Hfin as [Hsel|[e1 Hr]].
  - split.
    + rewrite (di_wire s I). apply bytes_of_pieces_notin. eapply not_started_notin; eauto.
    + intros r Hr. unfold result_of in Hr. rewrite Hsel in Hr. discriminate.
  - split.
    + rewrite (direct_count_exact_lemma has_to _ s Hrun t 0 (Some e1) Hr). reflexivity.
    + intros r Hr'. rewrite Hr in Hr'. inversion Hr'; subst. simpl. split; [reflexivity|discriminate].
Qed.

(* ---- after a torn Write nothing more is written ---- *)

Lemma dstep_after_torn has_to s l s' :
  dinv2 s -> d_failed s <> None -> dstep has_to s l = Some s' -> d_failed s' <> None /\ d_wire s' = d_wire s.
Proof.
  intros I2 Hf H. destruct s as [th cx sem w q clg can cc h tn lt br]. simpl in Hf.
  assert (Hnc : forall t p, pc_of th t = Some p -> critical p = true -> False).
  { intros t p Hp Hc. apply Hf. exact (d2_hold _ I2 t p Hp Hc). }
  destruct l; cbn [dstep] in H; try (destruct (after_return th clg t) as [[th' clg']|]; [|discriminate]);
    try (destruct (pc_of th t) as [[| |c| |r| |r1|r2|r3]|] eqn:Hpc; try discriminate;
         try (exfalso; eapply Hnc; [exact Hpc|reflexivity]));
    break_match H; inversion H; subst; simpl; auto.
Qed.

Lemma direct_after_torn_run has_to ls : forall s s',
  dall s -> d_failed s <> None -> drun has_to s ls = Some s' -> d_wire s' = d_wire s.
Proof.
  unfold drun. induction ls as [|l ls IH]; intros s s' [I I2] Hf H; simpl in H.
  - inversion H; subst. reflexivity.
  - destruct (dstep has_to s l) as [s1|] eqn:E; [|discriminate].
    destruct (dstep_after_torn _ _ _ _ I2 Hf E) as [Hf1 Hw1].
    rewrite <- Hw1. apply IH; [|exact Hf1|exact H].
    split; [eapply dinv_step; eauto|eapply dinv2_step; eauto].
Qed.

Lemma direct_nothing_after_partial_lemma has_to ls1 ls2 s1 s2 :
  drun has_to d_init ls1 = Some s1 -> d_torn s1 = true -> drun has_to s1 ls2 = Some s2 -> d_wire s2 = d_wire s1.
Proof.
  intros H1 Ht H2. pose proof (dall_reachable _ _ _ H1) as A.
  eapply direct_after_torn_run; eauto. exact (d2_torn _ (proj2 A) Ht).
Qed.

(* ---- what exec can observe from writeContext (direct writer) ---- *)

Lemma direct_exec_view_lemma has_to ls s t n e :
  drun has_to d_init ls = Some s -> d_broken s = false -> result_of (d_thr s) t = Some (n, e) ->
  let f := frame_of (d_thr s) t in
  (e = None /\ n = length f /\ frame_present (frame_of (d_thr s)) t (d_wire s))
  \/ (e <> None /\ n = 0 /\ forall ls2 s2, drun has_to s ls2 = Some s2 -> bytes_of t (d_wire s2) = [])
  \/ (e <> None /\ 0 < n < length f /\ must_close (n, e) = true /\ bytes_of t (d_wire s) = firstn n f /\
      forall ls2 s2, drun has_to s ls2 = Some s2 -> d_wire s2 = d_wire s)
  \/ (e <> None /\ 0 < n /\ n = length f /\ must_close (n, e) = true /\ frame_present (frame_of (d_thr s)) t (d_wire s)).
Proof.
  intros Hrun Hb Hr. cbv zeta. pose proof (dinv_reachable _ _ _ Hrun) as I.
  destruct e as [x|].
  2: { left. split; [reflexivity|]. exact (direct_success_whole_lemma has_to ls s Hrun t n Hb Hr). }
  right. destruct (Nat.eq_dec n 0) as [->|Hn0].
  - left. split; [discriminate|]. split; [reflexivity|]. intros ls2 s2 H2.
    assert (Hrun2 : drun has_to d_init (ls ++ ls2) = Some s2).
    { unfold drun in *. rewrite lts_run_app, Hrun. exact H2. }
    pose proof (drun_result_stable _ _ _ _ _ _ H2 Hr) as Hr2.
    rewrite (direct_count_exact_lemma has_to _ s2 Hrun2 t 0 (Some x) Hr2). reflexivity.
  - right. assert (Hin : In (t, n) (d_hist s)).
    { destruct (di_count s I t _ Hr) as [H|[H _]]; simpl in *; [exact H|lia]. }
    pose proof (di_bound s I t n Hin) as Hle.
    assert (Hmc : must_close (n, Some x) = true) by (apply must_close_partial; lia).
    destruct (Nat.eq_dec n (length (frame_of (d_thr s) t))) as [Heq|Hne].
    + right. split; [discriminate|]. split; [lia|]. split; [exact Heq|]. split; [exact Hmc|].
      rewrite (di_wire s I). apply in_pieces_present. rewrite <- Heq. exact Hin.
    + left. split; [discriminate|]. split; [lia|]. split; [exact Hmc|].
      split; [exact (direct_count_exact_lemma has_to ls s Hrun t n (Some x) Hr)|].
      assert (Ht : d_torn s = true).
      { destruct (d_torn s) eqn:Et; [reflexivity|]. exfalso.
        destruct (di_shape_b s I Et t n Hin) as [[H|H]|H]; simpl in H; try lia.
        unfold result_of in Hr. rewrite H in Hr. discriminate. }
      intros ls2 s2 H2. eapply direct_nothing_after_partial_lemma; eauto.
Qed.
