(* C07/Proofs1.v -- list / thread-table lemmas and the attribution loop. *)
From GocqlV Require Import Lib.Base C07.Model C07.Spec.
Local Open Scope nat_scope.

(* ---------------------------------------------------------------------------------------------- *)
(* upd / thread table *)

Lemma nth_error_upd_same {A} (l : list A) i v : i < length l -> nth_error (upd l i v) i = Some v.
Proof.
  revert i; induction l as [|x l IH]; intros [|i] H; simpl in *; try lia; auto. apply IH; lia.
Qed.

Lemma nth_error_upd_other {A} (l : list A) i j v : i <> j -> nth_error (upd l i v) j = nth_error l j.
Proof.
  revert i j; induction l as [|x l IH]; intros [|i] [|j] H; simpl in *; auto; try congruence.
Qed.

Lemma upd_oob {A} (l : list A) i v : length l <= i -> upd l i v = l.
Proof.
  revert i; induction l as [|x l IH]; intros [|i] H; simpl in *; auto; try lia. f_equal. apply IH; lia.
Qed.

Lemma pc_of_lt th t p : pc_of th t = Some p -> t < length th.
Proof.
  unfold pc_of. destruct (nth_error th t) eqn:E; [|discriminate]. intros _. apply nth_error_Some. congruence.
Qed.

Lemma set_pc_length th t p : length (set_pc th t p) = length th.
Proof. unfold set_pc. apply upd_length. Qed.

Lemma pc_of_set_same th t p : t < length th -> pc_of (set_pc th t p) t = Some p.
Proof. intros H. unfold pc_of, set_pc. rewrite nth_error_upd_same by assumption. reflexivity. Qed.

Lemma pc_of_set_other th t t' p : t <> t' -> pc_of (set_pc th t p) t' = pc_of th t'.
Proof. intros H. unfold pc_of, set_pc. rewrite nth_error_upd_other by assumption. reflexivity. Qed.

Lemma frame_of_set th t t' p : frame_of (set_pc th t p) t' = frame_of th t'.
Proof.
  unfold set_pc. destruct (Nat.eq_dec t t') as [->|Hne].
  - destruct (Nat.lt_ge_cases t' (length th)) as [Hlt|Hge].
    + unfold frame_of at 1. rewrite nth_error_upd_same by assumption. reflexivity.
    + rewrite upd_oob by assumption. reflexivity.
  - unfold frame_of at 1. rewrite nth_error_upd_other by assumption. reflexivity.
Qed.

Lemma pc_of_set th t t' p q :
  pc_of (set_pc th t p) t' = Some q -> (t' = t /\ q = p) \/ (t' <> t /\ pc_of th t' = Some q).
Proof.
  intros H. destruct (Nat.eq_dec t t') as [->|Hne].
  - left. split; [reflexivity|]. pose proof (pc_of_lt _ _ _ H) as Hlt. rewrite set_pc_length in Hlt.
    rewrite pc_of_set_same in H by assumption. congruence.
  - right. rewrite pc_of_set_other in H by assumption. auto.
Qed.

Lemma pc_of_app th x t q :
  pc_of (th ++ [x]) t = Some q -> (t < length th /\ pc_of th t = Some q) \/ (t = length th /\ q = snd x).
Proof.
  unfold pc_of. intros H. destruct (Nat.lt_ge_cases t (length th)) as [Hlt|Hge].
  - left. rewrite nth_error_app1 in H by assumption. auto.
  - right. rewrite nth_error_app2 in H by assumption.
    destruct (t - length th) as [|k] eqn:E; simpl in H.
    + split; [lia|]. congruence.
    + destruct k; discriminate.
Qed.

Lemma pc_of_app_old th x t : t < length th -> pc_of (th ++ [x]) t = pc_of th t.
Proof. intros H. unfold pc_of. rewrite nth_error_app1 by assumption. reflexivity. Qed.

Lemma pc_of_app_new th x : pc_of (th ++ [x]) (length th) = Some (snd x).
Proof. unfold pc_of. rewrite nth_error_app2 by lia. rewrite Nat.sub_diag. reflexivity. Qed.

Lemma frame_of_app_old th x t : t < length th -> frame_of (th ++ [x]) t = frame_of th t.
Proof. intros H. unfold frame_of. rewrite nth_error_app1 by assumption. reflexivity. Qed.

Lemma frame_of_oob th t : length th <= t -> frame_of th t = [].
Proof. intros H. unfold frame_of. apply nth_error_None in H. rewrite H. reflexivity. Qed.

Lemma result_of_set_same th t p : t < length th -> result_of (set_pc th t p) t = result_of_pc p.
Proof. intros H. unfold result_of. rewrite pc_of_set_same by assumption. reflexivity. Qed.

Lemma result_of_set_other th t t' p : t <> t' -> result_of (set_pc th t p) t' = result_of th t'.
Proof. intros H. unfold result_of. rewrite pc_of_set_other by assumption. reflexivity. Qed.

(* ---------------------------------------------------------------------------------------------- *)
(* pieces, tags, bytes_of *)

Lemma tag_app t a b : tag t (a ++ b) = tag t a ++ tag t b.
Proof. unfold tag. apply map_app. Qed.

Lemma tag_length t a : length (tag t a) = length a.
Proof. unfold tag. apply map_length. Qed.

Lemma pieces_app fr a b : pieces fr (a ++ b) = pieces fr a ++ pieces fr b.
Proof. unfold pieces. apply flat_map_app. Qed.

Lemma pieces_ext fr fr' h : (forall t, In t (map fst h) -> fr t = fr' t) -> pieces fr h = pieces fr' h.
Proof.
  induction h as [|[t c] h IH]; intros H; simpl; [reflexivity|].
  rewrite (H t) by (simpl; auto). f_equal. apply IH. intros t' Ht'. apply H. simpl; auto.
Qed.

Lemma firstn_add_skipn {A} (l : list A) a b : firstn (a + b) l = firstn a l ++ firstn b (skipn a l).
Proof.
  revert l; induction a as [|a IH]; intros l; simpl; [reflexivity|].
  destruct l as [|x l]; simpl; [now rewrite firstn_nil|]. f_equal. apply IH.
Qed.

Lemma bump_notin t k h : ~ In t (map fst h) -> bump t k h = h.
Proof.
  induction h as [|[t' c] h IH]; intros H; simpl in *; [reflexivity|].
  destruct (Nat.eqb_spec t' t) as [->|Hne]; [exfalso; auto|]. f_equal. apply IH. tauto.
Qed.

Lemma bump_last t k c h : ~ In t (map fst h) -> bump t k (h ++ [(t, c)]) = h ++ [(t, c + k)].
Proof.
  intros H. unfold bump. rewrite map_app. fold (bump t k h). rewrite bump_notin by assumption.
  simpl. rewrite Nat.eqb_refl. reflexivity.
Qed.

Lemma map_fst_bump t k h : map fst (bump t k h) = map fst h.
Proof.
  induction h as [|[t' c] h IH]; simpl; [reflexivity|]. rewrite IH.
  destruct (t' =? t); reflexivity.
Qed.

Lemma NoDup_app_last {A} (l : list A) x : NoDup (l ++ [x]) <-> NoDup l /\ ~ In x l.
Proof.
  split.
  - intros H. apply NoDup_remove in H. rewrite app_nil_r in H. exact H.
  - intros [H1 H2]. induction l as [|y l IH]; simpl.
    + constructor; [simpl; tauto|constructor].
    + inversion H1; subst. constructor.
      * rewrite in_app_iff. simpl in *. intuition.
      * apply IH; [assumption|]. simpl in H2. tauto.
Qed.

Lemma bytes_of_app t a b : bytes_of t (a ++ b) = bytes_of t a ++ bytes_of t b.
Proof. unfold bytes_of. rewrite filter_app, map_app. reflexivity. Qed.

Lemma bytes_of_tag_same t bs : bytes_of t (tag t bs) = bs.
Proof.
  unfold bytes_of, tag. induction bs as [|b bs IH]; simpl; [reflexivity|].
  rewrite Nat.eqb_refl. simpl. f_equal. exact IH.
Qed.

Lemma bytes_of_tag_other t t' bs : t <> t' -> bytes_of t (tag t' bs) = [].
Proof.
  intros H. unfold bytes_of, tag. induction bs as [|b bs IH]; simpl; [reflexivity|].
  destruct (Nat.eqb_spec t' t); [congruence|]. exact IH.
Qed.

Lemma bytes_of_pieces_notin fr t h : ~ In t (map fst h) -> bytes_of t (pieces fr h) = [].
Proof.
  induction h as [|[t' c] h IH]; intros H; simpl in *; [reflexivity|].
  assert (t <> t') by (intros ->; apply H; left; reflexivity).
  rewrite bytes_of_app, bytes_of_tag_other by assumption. simpl. apply IH. tauto.
Qed.

Lemma bytes_of_pieces_in fr t c h :
  NoDup (map fst h) -> In (t, c) h -> bytes_of t (pieces fr h) = firstn c (fr t).
Proof.
  induction h as [|[t' c'] h IH]; intros Hnd Hin; simpl in *; [tauto|].
  inversion Hnd as [|x l Hx Hl]; subst. rewrite bytes_of_app. destruct Hin as [Heq|Hin].
  - inversion Heq; subst. rewrite bytes_of_tag_same, bytes_of_pieces_notin by assumption. apply app_nil_r.
  - assert (t <> t') as Hne.
    { intros ->. apply Hx. change t' with (fst (t', c)). apply in_map. exact Hin. }
    rewrite bytes_of_tag_other by assumption. simpl. apply IH; assumption.
Qed.

Lemma in_pieces_present fr t h :
  In (t, length (fr t)) h -> frame_present fr t (pieces fr h).
Proof.
  intros Hin. apply in_split in Hin. destruct Hin as [h1 [h2 ->]].
  exists (pieces fr h1), (pieces fr h2). rewrite pieces_app. simpl. rewrite firstn_all. reflexivity.
Qed.

(* ---------------------------------------------------------------------------------------------- *)
(* generic facts about runs *)

Lemma lts_run_app {S L} (step : S -> L -> option S) s ls1 ls2 :
  lts_run step s (ls1 ++ ls2) = match lts_run step s ls1 with Some s1 => lts_run step s1 ls2 | None => None end.
Proof.
  revert s; induction ls1 as [|l ls1 IH]; intros s; simpl; [reflexivity|].
  destruct (step s l); [apply IH|reflexivity].
Qed.

Lemma lts_invariant {S L} (step : S -> L -> option S) (Inv : S -> Prop) :
  (forall s l s', Inv s -> step s l = Some s' -> Inv s') ->
  forall ls s s', Inv s -> lts_run step s ls = Some s' -> Inv s'.
Proof.
  intros Hstep. induction ls as [|l ls IH]; intros s s' Hi Hr; simpl in Hr.
  - congruence.
  - destruct (step s l) as [s1|] eqn:E; [|discriminate]. eapply IH; [|exact Hr]. eapply Hstep; eauto.
Qed.

Lemma lts_run_split {S L} (step : S -> L -> option S) s ls l s' :
  In l ls -> lts_run step s ls = Some s' ->
  exists ls1 ls2 s1 s2, ls = ls1 ++ l :: ls2 /\ lts_run step s ls1 = Some s1 /\ step s1 l = Some s2
                        /\ lts_run step s2 ls2 = Some s'.
Proof.
  intros Hin Hr. apply in_split in Hin. destruct Hin as [ls1 [ls2 ->]].
  rewrite lts_run_app in Hr. destruct (lts_run step s ls1) as [s1|] eqn:E1; [|discriminate].
  simpl in Hr. destruct (step s1 l) as [s2|] eqn:E2; [|discriminate].
  exists ls1, ls2, s1, s2. auto.
Qed.

(* ---------------------------------------------------------------------------------------------- *)
(* the attribution loop *)

Lemma attribute_length lens n e : length (attribute lens n e) = length lens.
Proof.
  revert n; induction lens as [|l rest IH]; intros n; simpl; [reflexivity|].
  destruct (l <=? n); simpl; rewrite IH; reflexivity.
Qed.

Lemma attribute_nth lens : forall n e i,
  Forall (fun l => 0 < l) lens -> i < length lens ->
  nth i (attribute lens n e) (0, None) = spec_result lens n e i.
Proof.
  induction lens as [|l rest IH]; intros n e i Hpos Hi; simpl in Hi; [lia|].
  inversion Hpos as [|x y Hl Hrest]; subst.
  destruct i as [|i].
  - unfold spec_result, before. simpl. destruct (Nat.leb_spec l n); simpl; [reflexivity|].
    rewrite Nat.sub_0_r. reflexivity.
  - assert (Hi' : i < length rest) by lia.
    assert (Hx : 0 < nth i rest 0).
    { rewrite Forall_forall in Hrest. apply Hrest. apply nth_In. exact Hi'. }
    unfold spec_result, before. cbn [firstn nth attribute].
    change (list_sum (l :: firstn i rest)) with (l + list_sum (firstn i rest)).
    destruct (Nat.leb_spec l n) as [Hle|Hgt]; cbn [nth].
    + rewrite IH by assumption. unfold spec_result, before.
      destruct (Nat.leb_spec (list_sum (firstn i rest) + nth i rest 0) (n - l));
        destruct (Nat.leb_spec (l + list_sum (firstn i rest) + nth i rest 0) n); try lia; try reflexivity.
      f_equal. lia.
    + rewrite IH by assumption. unfold spec_result, before.
      destruct (Nat.leb_spec (list_sum (firstn i rest) + nth i rest 0) 0);
        destruct (Nat.leb_spec (l + list_sum (firstn i rest) + nth i rest 0) n); try lia.
      f_equal. lia.
Qed.

Lemma attribute_zero_sum lens e : list_sum (map fst (attribute lens 0 e)) = 0.
Proof.
  induction lens as [|l rest IH]; simpl; [reflexivity|].
  destruct (Nat.leb_spec l 0); simpl.
  - assert (l = 0) by lia. subst. simpl. exact IH.
  - exact IH.
Qed.

Lemma attribute_sum lens : forall n e, n <= list_sum lens -> list_sum (map fst (attribute lens n e)) = n.
Proof.
  induction lens as [|l rest IH]; intros n e Hn; simpl in *; [lia|].
  destruct (Nat.leb_spec l n); simpl.
  - rewrite IH by lia. lia.
  - rewrite attribute_zero_sum. lia.
Qed.

(* a request is told "no error" iff its last byte is among the first n *)
Lemma attribute_success_iff lens n x i :
  Forall (fun l => 0 < l) lens -> i < length lens ->
  (snd (nth i (attribute lens n (Some x)) (0, None)) = None <-> before lens i + nth i lens 0 <= n).
Proof.
  intros Hpos Hi. rewrite attribute_nth by assumption. unfold spec_result.
  destruct (Nat.leb_spec (before lens i + nth i lens 0) n); simpl; split; intros; try lia; try reflexivity; discriminate.
Qed.

(* the shape used by the flusher: [dn] fully written, [cl] got [sent] bytes, nothing of [rest] *)
Definition unwritten (e : option err) (l : nat) : res := if l =? 0 then (0, None) else (0, e).

Lemma attribute_zero lens e : attribute lens 0 e = map (unwritten e) lens.
Proof.
  induction lens as [|l rest IH]; simpl; [reflexivity|]. unfold unwritten at 1.
  destruct (Nat.leb_spec l 0); destruct (Nat.eqb_spec l 0); try lia; subst; simpl; rewrite IH; reflexivity.
Qed.

Lemma attribute_split dn : forall cl rest sent e,
  sent <= cl ->
  attribute (dn ++ cl :: rest) (list_sum dn + sent) e =
  map (fun l => (l, None)) dn ++ (if cl <=? sent then (cl, None) else (sent, e)) :: map (unwritten e) rest.
Proof.
  induction dn as [|d dn IH]; intros cl rest sent e Hs; simpl.
  - destruct (Nat.leb_spec cl sent).
    + assert (sent = cl) by lia. subst. rewrite Nat.sub_diag. rewrite attribute_zero. reflexivity.
    + rewrite attribute_zero. reflexivity.
  - destruct (Nat.leb_spec d (d + list_sum dn + sent)); [|lia].
    replace (d + list_sum dn + sent - d) with (list_sum dn + sent) by lia.
    rewrite IH by assumption. reflexivity.
Qed.

(* flush reports a torn buffer exactly when the buffer it stopped in got a proper, non-empty part *)
Lemma attribute_torn_zero lens : attribute_torn lens 0 = false.
Proof.
  induction lens as [|l rest IH]; simpl; [reflexivity|]. destruct (Nat.leb_spec l 0); simpl; [|exact IH].
  assert (l = 0) by lia. subst. simpl. exact IH.
Qed.

Lemma attribute_torn_split dn : forall cl rest sent,
  sent <= cl -> attribute_torn (dn ++ cl :: rest) (list_sum dn + sent) = (0 <? sent) && (sent <? cl).
Proof.
  induction dn as [|d dn IH]; intros cl rest sent Hs; simpl.
  - destruct (Nat.leb_spec cl sent).
    + assert (sent = cl) by lia. subst. rewrite Nat.sub_diag, attribute_torn_zero.
      destruct (Nat.ltb_spec cl cl); [lia|]. apply eq_sym, andb_false_r.
    + rewrite attribute_torn_zero, orb_false_r. destruct (Nat.ltb_spec sent cl); [|lia]. rewrite andb_true_r. reflexivity.
  - destruct (Nat.leb_spec d (d + list_sum dn + sent)); [|lia].
    replace (d + list_sum dn + sent - d) with (list_sum dn + sent) by lia. apply IH. exact Hs.
Qed.

(* a context that has ended stays ended, with the same error *)
Lemma ctx_err_ctx_end cx t e t' e' : ctx_err cx t = Some e -> ctx_err (ctx_end cx t' e') t = Some e.
Proof.
  intros H. unfold ctx_end. destruct (ctx_err cx t') eqn:E; [exact H|]. simpl.
  destruct (Nat.eqb_spec t' t) as [->|]; [congruence|exact H].
Qed.

Lemma ctx_err_ctx_end_same cx t e : exists e', ctx_err (ctx_end cx t e) t = Some e'.
Proof.
  unfold ctx_end. destruct (ctx_err cx t) eqn:E; [eauto|]. simpl. rewrite Nat.eqb_refl. eauto.
Qed.
