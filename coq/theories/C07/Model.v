(* C07/Model.v -- executable model of the two connection writers of conn.go and of how exec uses them.

   Anchors (pinned tree):
     (line numbers of the pinned tree; the model follows the code as repaired by the fixes of F-C07-1 / F-C07-2:
      both writers re-check ctx.Err() after the select and remember a torn Write in tornErr)
     conn.go:835-857   deadlineContextWriter.writeContext  (select ctx/quit/semaphore; SetWriteDeadline; one Write)
     conn.go:898-920   writeCoalescer.writeContext          (select ctx/quit/send on writeCh; wait for the result)
     conn.go:933-970   writeCoalescer.writeFlusherImpl      (enqueue / quit / timer)
     conn.go:972-1009  writeCoalescer.flush                 (SetWriteDeadline; net.Buffers.WriteTo; attribution loop)
     net.Buffers.WriteTo on a connection without writev: one Write per buffer, stops at the first error
     conn.go:1011-1027 addCall (refuses new requests once c.closed)
     conn.go:1089-1115 exec after writeContext returned an error
     conn.go:525-574   closeWithError (c.closed under the mutex; c.cancel(); c.conn.Close())

   Both writers are labelled transition systems.  A label is one atomic action of one goroutine or of
   the environment (the context of a request ending, the connection accepting some more bytes of a
   Write call, a Write call returning, the coalescing timer firing).  The environment is not
   constrained by [step]: a Write may accept any number of bytes and return any error, in particular
   it may break the io.Writer contract (short count with a nil error); such facts are recorded in
   ghost flags ([broken], [torn]) that theorems mention as hypotheses.

   Counts are [nat] (they are lengths of byte strings).  Bytes on the wire carry, as ghost
   information, the identity of the request whose Write call handed them to the connection. *)
From GocqlV Require Import Lib.Base.
Local Open Scope nat_scope.

(* ---------------------------------------------------------------------------------------------- *)
(* errors, results *)

Inductive err :=
| ECanceled            (* context.Canceled *)
| EDeadlineExceeded    (* context.DeadlineExceeded *)
| EConnClosed          (* ErrConnectionClosed *)
| EEOF                 (* io.EOF *)
| EShortWrite          (* io.ErrShortWrite *)
| EOther (code : Z).   (* whatever the connection returned *)

Definition res := (nat * option err)%type.      (* what writeContext returns: (n, err) *)

(* conn.go:1095  errors.Is(err, context.Canceled) || errors.Is(err, context.DeadlineExceeded) *)
Definition is_ctx_err (e : err) : bool :=
  match e with ECanceled | EDeadlineExceeded => true | _ => false end.

Definition err_eqb (a b : err) : bool :=
  match a, b with
  | ECanceled, ECanceled | EDeadlineExceeded, EDeadlineExceeded | EConnClosed, EConnClosed | EEOF, EEOF
  | EShortWrite, EShortWrite => true
  | EOther x, EOther y => Z.eqb x y
  | _, _ => false
  end.

(* the error both writers remember after a Write that left part of a frame on the connection *)
Definition tear_err (e : option err) : err := match e with Some x => x | None => EShortWrite end.

(* conn.go:1090-1113: after writeContext returned r, does exec call closeWithError? *)
Definition must_close (r : res) : bool :=
  match r with
  | (_, None) => false
  | (n, Some e) => negb (is_ctx_err e && (n =? 0))
  end.

(* ---------------------------------------------------------------------------------------------- *)
(* the attribution loop of flush, conn.go:992-1008.  [n] is the count returned by WriteTo. *)

(* does the attribution loop meet a buffer of which a proper, non-empty part was written (the [if n > 0] in its
   else branch)?  Then flush returns a non-nil tornErr. *)
Fixpoint attribute_torn (lens : list nat) (n : nat) : bool :=
  match lens with
  | [] => false
  | l :: rest => if l <=? n then attribute_torn rest (n - l) else (0 <? n) || attribute_torn rest 0
  end.

Fixpoint attribute (lens : list nat) (n : nat) (e : option err) : list res :=
  match lens with
  | [] => []
  | l :: rest =>
      if l <=? n                                   (* int64(len(buffers[i])) <= n *)
      then (l, None) :: attribute rest (n - l) e   (* fully written; n -= len *)
      else (n, e) :: attribute rest 0 e            (* not (fully) written; n = 0 *)
  end.

(* ---------------------------------------------------------------------------------------------- *)
(* requests (one goroutine inside exec each) *)

Inductive pc :=
| PSelect                (* inside writeContext, at the select *)
| PHold                  (* direct writer: semaphore acquired, before SetWriteDeadline / Write *)
| PWriting (sent : nat)  (* direct writer: inside c.w.Write(p); [sent] bytes accepted so far *)
| PQueued                (* coalescer: handed to the flusher, waiting on resultChan *)
| PReturned (r : res)    (* writeContext returned r to exec *)
| PExt                   (* some other goroutine about to call closeWithError (serve, Conn.Close) *)
| PCloser1 (r : res)     (* inside closeWithError as the first closer: c.closed set, before c.cancel() *)
| PCloser2 (r : res)     (* after c.cancel(), before c.conn.Close() *)
| PDone (r : res).       (* finished with the writer and with closing *)

Definition threads := list (list Z * pc).       (* request id = position; (frame bytes, where it is) *)

Definition pc_of (th : threads) (t : nat) : option pc := option_map snd (nth_error th t).
Definition frame_of (th : threads) (t : nat) : list Z :=
  match nth_error th t with Some (f, _) => f | None => [] end.
Definition set_pc (th : threads) (t : nat) (p : pc) : threads := upd th t (frame_of th t, p).

Definition tag (t : nat) (bs : list Z) : list (nat * Z) := map (pair t) bs.

Definition memb (t : nat) (l : list nat) : bool := existsb (Nat.eqb t) l.

(* contexts that have ended, with their ctx.Err(); the first entry of a request counts *)
Fixpoint ctx_err (cx : list (nat * err)) (t : nat) : option err :=
  match cx with
  | [] => None
  | (t', e) :: cx' => if t' =? t then Some e else ctx_err cx' t
  end.
Definition ctx_end (cx : list (nat * err)) (t : nat) (e : err) : list (nat * err) :=
  match ctx_err cx t with Some _ => cx | None => (t, e) :: cx end.
Definition opt_err_eqb (a b : option err) : bool :=
  match a, b with Some x, Some y => err_eqb x y | None, None => true | _, _ => false end.

(* ghost history of Write calls: (request, bytes accepted by that call so far) *)
Definition bump (t k : nat) (h : list (nat * nat)) : list (nat * nat) :=
  map (fun tc => if fst tc =? t then (fst tc, snd tc + k) else tc) h.

Definition is_none {A} (o : option A) : bool := match o with None => true | Some _ => false end.

(* a Write call of a [len]-byte buffer returned after accepting [sent] bytes *)
Definition torn_now (sent len : nat) : bool := (0 <? sent) && (sent <? len).
Definition broken_now (sent len : nat) (e : option err) : bool := is_none e && (sent <? len).

(* exec after writeContext returned, and closeWithError's critical section (c.closed) *)
Definition after_return (th : threads) (closing : bool) (t : nat) : option (threads * bool) :=
  match pc_of th t with
  | Some (PReturned r) =>
      if must_close r then
        if closing then Some (set_pc th t (PDone r), closing)           (* closeWithError: already closed *)
        else Some (set_pc th t (PCloser1 r), true)
      else Some (set_pc th t (PDone r), closing)
  | Some PExt =>
      (* no write result of its own: a placeholder that is not a success *)
      if closing then Some (set_pc th t (PDone (0, Some EConnClosed)), closing)
      else Some (set_pc th t (PCloser1 (0, Some EConnClosed)), true)
  | _ => None
  end.

(* generic run of a transition system *)
Fixpoint lts_run {S L : Type} (step : S -> L -> option S) (s : S) (ls : list L) : option S :=
  match ls with
  | [] => Some s
  | l :: ls' => match step s l with Some s' => lts_run step s' ls' | None => None end
  end.

(* ---------------------------------------------------------------------------------------------- *)
(* the direct writer (deadlineContextWriter) *)

Record dstate := mkD {
  d_thr : threads;
  d_ctx : list (nat * err);        (* requests whose context has ended, with ctx.Err() *)
  d_sem : option nat;              (* who holds the semaphore *)
  d_wire : list (nat * Z);         (* bytes the connection has accepted, in order *)
  d_quit : bool;                   (* deadlineContextWriter.quit closed (nobody in the driver closes it) *)
  d_closing : bool;                (* c.closed *)
  d_cancelled : bool;              (* c.cancel() called *)
  d_connclosed : bool;             (* c.conn.Close() called *)
  d_hist : list (nat * nat);       (* ghost: Write calls in order *)
  d_torn : bool;                   (* ghost: some Write call returned having accepted part of its buffer *)
  d_failed : option err;           (* deadlineContextWriter.tornErr *)
  d_broken : bool                  (* ghost: a Write call returned n < len(p) with a nil error *)
}.

Definition d_init : dstate := mkD [] [] None [] false false false false [] false None false.

Inductive dlabel :=
| DCall (f : list Z)             (* exec: addCall succeeded, frame f built, writeContext called *)
| DCtxDone (t : nat) (e : err)   (* environment: the context of request t ends; ctx.Err() = e from now on *)
| DCtx (t : nat) (e : err)       (* select: case <-ctx.Done(): return 0, ctx.Err() *)
| DQuitSel (t : nat)             (* select: case <-c.quit: return 0, ErrConnectionClosed *)
| DAcquire (t : nat)             (* select: case c.semaphore <- struct{}{}, then the checks of ctx.Err() and tornErr
                                    (one step: while t holds the semaphore nobody else can change tornErr, and a context
                                    ending between the acquisition and the check is the same as one ending just before) *)
| DStartWrite (t : nat) (dl : option err)
                                 (* SetWriteDeadline returned dl (None also when timeout = 0); on success Write(p) is called *)
| DChunk (t k : nat)             (* environment: the connection accepts k more bytes of t's Write *)
| DWriteRet (t : nat) (e : option err)  (* Write returns (sent, e); deferred release; writeContext returns *)
| DAfter (t : nat)               (* exec looks at the result / closeWithError's critical section *)
| DCancel (t : nat)              (* c.cancel() *)
| DClose (t : nat)               (* c.conn.Close() *)
| DExtClose                      (* another goroutine is about to call closeWithError *)
| DEnvQuit.                      (* environment: someone closes the quit channel *)

Definition dstep (has_to : bool) (s : dstate) (l : dlabel) : option dstate :=
  let '(mkD th cx sem w q clg can cc h tn lt br) := s in
  match l with
  | DCall f =>
      if clg then None                                   (* addCall: ErrConnectionClosed *)
      else Some (mkD (th ++ [(f, PSelect)]) cx sem w q clg can cc h tn lt br)
  | DCtxDone t e => if is_ctx_err e then Some (mkD th (ctx_end cx t e) sem w q clg can cc h tn lt br) else None
  | DCtx t e =>
      match pc_of th t with
      | Some PSelect =>
          if opt_err_eqb (ctx_err cx t) (Some e)
          then Some (mkD (set_pc th t (PReturned (0, Some e))) cx sem w q clg can cc h tn lt br)
          else None
      | _ => None
      end
  | DQuitSel t =>
      match pc_of th t with
      | Some PSelect =>
          if q then Some (mkD (set_pc th t (PReturned (0, Some EConnClosed))) cx sem w q clg can cc h tn lt br)
          else None
      | _ => None
      end
  | DAcquire t =>
      match pc_of th t, sem with
      | Some PSelect, None =>
          match ctx_err cx t, lt with
          | Some e, _ => Some (mkD (set_pc th t (PReturned (0, Some e))) cx None w q clg can cc h tn lt br)   (* ctx.Err() != nil *)
          | None, Some e => Some (mkD (set_pc th t (PReturned (0, Some e))) cx None w q clg can cc h tn lt br) (* tornErr != nil *)
          | None, None => Some (mkD (set_pc th t PHold) cx (Some t) w q clg can cc h tn lt br)
          end
      | _, _ => None
      end
  | DStartWrite t dl =>
      match pc_of th t with
      | Some PHold =>
          match dl with
          | Some e =>
              if has_to                                   (* SetWriteDeadline failed: return 0, err; release *)
              then Some (mkD (set_pc th t (PReturned (0, Some e))) cx None w q clg can cc h tn lt br)
              else None
          | None =>
              Some (mkD (set_pc th t (PWriting 0)) cx sem w q clg can cc (h ++ [(t, 0)]) tn lt br)
          end
      | _ => None
      end
  | DChunk t k =>
      match pc_of th t with
      | Some (PWriting sent) =>
          if cc then None                                 (* a closed connection accepts nothing *)
          else if sent + k <=? length (frame_of th t)
          then Some (mkD (set_pc th t (PWriting (sent + k))) cx sem
                         (w ++ tag t (firstn k (skipn sent (frame_of th t))))
                         q clg can cc (bump t k h) tn lt br)
          else None
      | _ => None
      end
  | DWriteRet t e =>
      match pc_of th t with
      | Some (PWriting sent) =>
          let len := length (frame_of th t) in
          Some (mkD (set_pc th t (PReturned (sent, e))) cx None w q clg can cc h
                    (tn || torn_now sent len)
                    (if torn_now sent len then Some (tear_err e) else lt)       (* n > 0 && n < len(p): tornErr = err or ErrShortWrite *)
                    (br || broken_now sent len e))
      | _ => None
      end
  | DAfter t =>
      match after_return th clg t with
      | Some (th', clg') => Some (mkD th' cx sem w q clg' can cc h tn lt br)
      | None => None
      end
  | DCancel t =>
      match pc_of th t with
      | Some (PCloser1 r) => Some (mkD (set_pc th t (PCloser2 r)) cx sem w q clg true cc h tn lt br)
      | _ => None
      end
  | DClose t =>
      match pc_of th t with
      | Some (PCloser2 r) => Some (mkD (set_pc th t (PDone r)) cx sem w q clg can true h tn lt br)
      | _ => None
      end
  | DExtClose => Some (mkD (th ++ [([], PExt)]) cx sem w q clg can cc h tn lt br)
  | DEnvQuit => Some (mkD th cx sem w true clg can cc h tn lt br)
  end.

Definition drun (has_to : bool) := lts_run (dstep has_to).

(* ---------------------------------------------------------------------------------------------- *)
(* the coalescing writer (writeCoalescer + its flusher goroutine) *)

Inductive fpc :=
| FLoop                              (* flusher at the select of writeFlusherImpl *)
| FFlush (batch : list nat)          (* timer fired: inside flush, before SetWriteDeadline *)
| FWriting (done : list nat) (cur : nat) (rest : list nat) (sent n : nat)
                                     (* inside WriteTo: buffers [done] written, inside Write(cur) with [sent]
                                        bytes accepted, [rest] to come; n = WriteTo's running total *)
| FExited.                           (* flusher returned (quit) *)

Record cstate := mkC {
  c_thr : threads;
  c_ctx : list (nat * err);
  c_queue : list nat;                (* buffers / resultChans, in order *)
  c_running : bool;                  (* timer armed *)
  c_fpc : fpc;
  c_wire : list (nat * Z);
  c_closing : bool;
  c_cancelled : bool;                (* c.cancel() called = the coalescer's quit channel closed *)
  c_connclosed : bool;
  c_hist : list (nat * nat);
  c_torn : bool;
  c_failed : option err;             (* the flusher's tornErr *)
  c_broken : bool
}.

Definition c_init : cstate := mkC [] [] [] false FLoop [] false false false [] false None false.

Inductive clabel :=
| CCall (f : list Z)
| CCtxDone (t : nat) (e : err)
| CCtx (t : nat) (e : err)           (* select: <-ctx.Done() *)
| CQuitSel (t : nat)                 (* select: <-w.quit: return 0, io.EOF *)
| CEnqueue (t : nat)                 (* rendezvous on writeCh between writer t and the flusher *)
| FTimer                             (* flusher: <-timerC *)
| FStartWrite (dl : option err)      (* flush: SetWriteDeadline returned dl; on success WriteTo starts *)
| FChunk (k : nat)                   (* environment: the connection accepts k more bytes *)
| FWriteRet (e : option err)         (* the current Write returns (sent, e) *)
| FQuit                              (* flusher: <-w.quit *)
| CAfter (t : nat) | CCancel (t : nat) | CClose (t : nat) | CExtClose.

(* resultChans[i] <- rs[i] ; the waiting writer returns it *)
Fixpoint deliver (th : threads) (ts : list nat) (rs : list res) : threads :=
  match ts, rs with
  | t :: ts', r :: rs' => deliver (set_pc th t (PReturned r)) ts' rs'
  | _, _ => th
  end.

Definition lens_of (th : threads) (ts : list nat) : list nat := map (fun t => length (frame_of th t)) ts.

(* WriteTo returned (n, e): the attribution loop *)
Definition finish_flush (th : threads) (batch : list nat) (n : nat) (e : option err) : threads :=
  deliver th batch (attribute (lens_of th batch) n e).

Definition cstep (has_to : bool) (s : cstate) (l : clabel) : option cstate :=
  let '(mkC th cx qu rn fp w clg can cc h tn lt br) := s in
  match l with
  | CCall f =>
      if clg then None
      else Some (mkC (th ++ [(f, PSelect)]) cx qu rn fp w clg can cc h tn lt br)
  | CCtxDone t e => if is_ctx_err e then Some (mkC th (ctx_end cx t e) qu rn fp w clg can cc h tn lt br) else None
  | CCtx t e =>
      match pc_of th t with
      | Some PSelect =>
          if opt_err_eqb (ctx_err cx t) (Some e)
          then Some (mkC (set_pc th t (PReturned (0, Some e))) cx qu rn fp w clg can cc h tn lt br)
          else None
      | _ => None
      end
  | CQuitSel t =>
      match pc_of th t with
      | Some PSelect =>
          if can then Some (mkC (set_pc th t (PReturned (0, Some EEOF))) cx qu rn fp w clg can cc h tn lt br)
          else None
      | _ => None
      end
  | CEnqueue t =>
      match pc_of th t, fp with
      | Some PSelect, FLoop =>
          match ctx_err cx t, lt with
          | Some e, _ => Some (mkC (set_pc th t (PReturned (0, Some e))) cx qu rn fp w clg can cc h tn lt br)   (* req.ctx.Err() != nil *)
          | None, Some e => Some (mkC (set_pc th t (PReturned (0, Some e))) cx qu rn fp w clg can cc h tn lt br) (* tornErr != nil *)
          | None, None =>
              (* buffers = append(buffers, req.data); if !running { resetTimer(); running = true } *)
              Some (mkC (set_pc th t PQueued) cx (qu ++ [t]) true fp w clg can cc h tn lt br)
          end
      | _, _ => None
      end
  | FTimer =>
      match fp with
      | FLoop => if rn then Some (mkC th cx [] false (FFlush qu) w clg can cc h tn lt br) else None
      | _ => None
      end
  | FStartWrite dl =>
      match fp with
      | FFlush batch =>
          match dl with
          | Some e =>
              if has_to
              then Some (mkC (deliver th batch (map (fun _ => (0, Some e)) batch)) cx qu rn FLoop w clg can cc h tn lt br)
              else None
          | None =>
              match batch with
              | [] => Some (mkC th cx qu rn FLoop w clg can cc h tn lt br)
              | t :: rest =>
                  Some (mkC th cx qu rn (FWriting [] t rest 0 0) w clg can cc (h ++ [(t, 0)]) tn lt br)
              end
          end
      | _ => None
      end
  | FChunk k =>
      match fp with
      | FWriting dn cur rest sent n =>
          if cc then None
          else if sent + k <=? length (frame_of th cur)
          then Some (mkC th cx qu rn (FWriting dn cur rest (sent + k) n)
                         (w ++ tag cur (firstn k (skipn sent (frame_of th cur))))
                         clg can cc (bump cur k h) tn lt br)
          else None
      | _ => None
      end
  | FWriteRet e =>
      match fp with
      | FWriting dn cur rest sent n =>
          let len := length (frame_of th cur) in
          let tn' := tn || torn_now sent len in
          let br' := br || broken_now sent len e in
          let n' := n + sent in
          match e, rest with
          | None, t' :: rest' =>                       (* WriteTo goes on with the next buffer *)
              Some (mkC th cx qu rn (FWriting (dn ++ [cur]) t' rest' 0 n') w clg can cc
                        (h ++ [(t', 0)]) tn' lt br')
          | _, _ =>                                    (* WriteTo returns (n', e) *)
              let lt' := if attribute_torn (lens_of th (dn ++ cur :: rest)) n' then Some (tear_err e) else lt in
              Some (mkC (finish_flush th (dn ++ cur :: rest) n' e) cx qu rn FLoop w clg can cc h tn' lt' br')
          end
      | _ => None
      end
  | FQuit =>
      match fp with
      | FLoop =>
          if can
          then Some (mkC (deliver th qu (map (fun _ => (0, Some EEOF)) qu)) cx [] rn FExited w clg can cc h tn lt br)
          else None
      | _ => None
      end
  | CAfter t =>
      match after_return th clg t with
      | Some (th', clg') => Some (mkC th' cx qu rn fp w clg' can cc h tn lt br)
      | None => None
      end
  | CCancel t =>
      match pc_of th t with
      | Some (PCloser1 r) => Some (mkC (set_pc th t (PCloser2 r)) cx qu rn fp w clg true cc h tn lt br)
      | _ => None
      end
  | CClose t =>
      match pc_of th t with
      | Some (PCloser2 r) => Some (mkC (set_pc th t (PDone r)) cx qu rn fp w clg can true h tn lt br)
      | _ => None
      end
  | CExtClose => Some (mkC (th ++ [([], PExt)]) cx qu rn fp w clg can cc h tn lt br)
  end.

Definition crun (has_to : bool) := lts_run (cstep has_to).

(* the result a request got from writeContext, once it has one *)
Definition result_of_pc (p : pc) : option res :=
  match p with
  | PReturned r | PCloser1 r | PCloser2 r | PDone r => Some r
  | _ => None
  end.
Definition result_of (th : threads) (t : nat) : option res :=
  match pc_of th t with Some p => result_of_pc p | None => None end.

(* the bytes of request t on the wire, in wire order *)
Definition bytes_of (t : nat) (w : list (nat * Z)) : list Z :=
  map snd (filter (fun x => fst x =? t) w).
