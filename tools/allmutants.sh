#!/bin/bash
# allmutants.sh [ids...] -- runs trymutant.sh for every seeded change (6 at a time), prints one line per change
cd /verif
ids="$@"; [ -z "$ids" ] && ids=$(ls seeded | grep -v INDEX)
run() { id=$1; P=${id%%-*}; out=$(tools/trymutant.sh $P /verif/seeded/$id/patch.diff 2>&1); v=$(echo "$out" | tail -1); k=$(echo "$out" | grep -o '"monitor": "[^"]*"\|"kind": "[a-z-]*"' | sort | uniq -c | sort -rn | head -3 | tr '\n' ' '); echo "$id $v $k"; }
export -f run
printf "%s\n" $ids | xargs -P 6 -I{} bash -c 'run {}'
