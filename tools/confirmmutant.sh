#!/bin/bash
# confirmmutant.sh Cxx tag -- my own confirmation in the agent's worktree: builds, baseline tests pass with the change, demo fails with / passes without
export GOFLAGS=-mod=mod GOPROXY=off GOSUMDB=off GOTOOLCHAIN=local
WT=/tmp/mut/$1-$2; cd $WT || exit 2
DEMO=$(find . -name zz_mutant_demo_test.go | head -1); DDIR=$(dirname $DEMO)
echo "== build"; go build ./... && echo build-ok
echo "== baseline tests with change (demo moved aside)"; mv $DEMO /tmp/zz_demo_$$.go
go test -vet=off -count=1 -timeout 20m . ./internal/... 2>&1 | tail -5
mv /tmp/zz_demo_$$.go $DEMO
echo "== demo WITH change (must FAIL)"; (cd $DDIR && go test -vet=off -count=1 -run TestMutantDemo . 2>&1 | tail -4)
echo "== demo WITHOUT change (must PASS)"; git apply -R patch.diff; (cd $DDIR && go test -vet=off -count=1 -run TestMutantDemo . 2>&1 | tail -3); git apply patch.diff
git diff --stat | tail -3
