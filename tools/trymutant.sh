#!/bin/bash
# trymutant.sh Cxx /path/to/patch.diff [tier]  -- applies a seeded change to a scratch copy of /repo (so that /repo itself is
# not disturbed while other work is going on), runs the property's check against it, prints the verdict, removes the copy.
set -u
PID=$1; PATCH=$2; TIER=${3:-quick}
export GOFLAGS=-mod=mod GOPROXY=off GOSUMDB=off GOTOOLCHAIN=local
S=/verif/work/mutscratch-$PID-$$
mkdir -p $S/repo && git -C /repo archive HEAD | tar -x -C $S/repo || exit 3
# uncommitted add-only shim files of this property only (other properties' half-written shims must not interfere)
low=$(echo $PID | tr A-Z a-z)
( cd /repo && { git ls-files --others --exclude-standard; git diff --name-only; } | grep -i "verif" | grep -i -e "$low" -e "verif_trace" -e "verif_conn" -e "verif_on" -e "verif_off" | while read f; do mkdir -p $S/repo/$(dirname $f); cp $f $S/repo/$f; done )
( cd $S/repo && patch -p1 -s < $PATCH ) || { echo "PATCH-FAILED"; rm -rf $S; exit 3; }
( cd $S/repo && go build ./... ) || { echo "BUILD-FAILED"; rm -rf $S; exit 3; }
cd /verif && cp evidence/$PID.json $S/evidence.bak 2>/dev/null
VERIF_REPO=$S/repo timeout 3000 python3 tools/check.py $PID --tier $TIER > $S/out.txt 2>&1; rc=$?
head -8 $S/out.txt
for f in $(grep -o 'replay=[^ ]*' $S/out.txt | head -2 | cut -d= -f2); do echo "--- $f"; head -c 700 $f; echo; done
cp $S/evidence.bak evidence/$PID.json 2>/dev/null
rm -rf $S
echo "rc=$rc"
[ $rc -eq 1 ] && echo DETECTED || echo MISSED
