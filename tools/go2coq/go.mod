module go2coq

go 1.23
