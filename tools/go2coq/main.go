// go2coq: regenerates coq/theories/Gen/Code.v from /repo's current source.
//
// It translates a fixed list of Go functions (the table `targets` below) from the straight-line
// integer-arithmetic subset of Go into Gallina definitions inside module GC.  The hand-written models
// of the properties are then proved equal to these definitions (Cxx/GenEquiv.v), so that the theorems
// about the models are re-checked against what the source says on every run.
//
// Conventions of the generated code (the same as the hand-written models, see tools/PLUGIN_GUIDE.md):
//   - a Go integer is an unbounded Z holding the CANONICAL representative of the machine value:
//     [-2^(w-1), 2^(w-1)) for intW, [0, 2^w) for uintW (int, uint = 64 bits: amd64); every operation
//     that can leave that range is followed by `signed w` / `wrap w` (Lib/Base.v), i.e. Go's wrap-around;
//   - []byte and [N]byte are `list Z`; a[i] is `nth i a 0`, a[i:] is `skipn i a`, a[i] = v is `upd a i v`;
//     Go panics where an index is out of range, the generated definition returns the default there: the
//     bounds are printed as side conditions in a comment under every definition;
//   - locals become `let`; re-assignment shadows; if/switch without `return` inside yield the tuple of the
//     variables they assign; `fallthrough` duplicates the tail; a counted `for` loop becomes a Fixpoint
//     over a nat counter that threads the tuple of the variables assigned in the body.
//
// Anything outside the supported subset is rejected with file:line and exit status 2.
package main

import (
	"fmt"
	"go/ast"
	"go/build"
	"go/constant"
	"go/parser"
	"go/token"
	"go/types"
	"math/big"
	"os"
	"path/filepath"
	"sort"
	"strings"
)

// ---------------------------------------------------------------------------------------------------
// The functions that are translated, in dependency order (a callee before its callers).
// dir: package directory relative to the repository root; recv: receiver type name for methods;
// coq: name inside module GC ("" = name, or recv_name for methods).
type target struct{ dir, recv, name, coq string }

var targets = []target{
	// internal/murmur (property C09)
	{"internal/murmur", "", "rotl", ""},
	{"internal/murmur", "", "fmix", ""},
	{"internal/murmur", "", "block", ""},
	{"internal/murmur", "", "getBlock", ""},
	{"internal/murmur", "", "Murmur3H1", ""},
	// uuid.go (property C19)
	{".", "UUID", "Version", ""},
	{".", "UUID", "Variant", ""},
	{".", "UUID", "Clock", ""},
	{".", "UUID", "Timestamp", ""},
	{".", "", "TimeUUIDWith", ""},
	// marshal.go: fixed-width integer codecs and the zig-zag step of vints (property C12)
	{".", "", "encInt", ""},
	{".", "", "decInt", ""},
	{".", "", "encShort", ""},
	{".", "", "decShort", ""},
	{".", "", "encBigInt", ""},
	{".", "", "decBigInt", ""},
	{".", "", "encIntZigZag", ""},
	{".", "", "decIntZigZag", ""},
	// internal/streams: bit arithmetic of the stream-id allocator (property C08)
	{"internal/streams", "", "streamFromBucket", ""},
	{"internal/streams", "", "bucketOffset", ""},
	{"internal/streams", "", "streamOffset", ""},
	{"internal/streams", "", "isSet", ""},
}

// ---------------------------------------------------------------------------------------------------
// loading and type checking (imports are stubbed as in tools/constgen: the translated functions use
// only built-in types, package-level constants and each other; `unsafe` is the real one)

type fakeImporter struct{ pkgs map[string]*types.Package }

func (f *fakeImporter) Import(path string) (*types.Package, error) {
	if path == "unsafe" {
		return types.Unsafe, nil
	}
	if p, ok := f.pkgs[path]; ok {
		return p, nil
	}
	name := filepath.Base(path)
	if strings.HasSuffix(path, ".v0") {
		name = strings.TrimSuffix(name, ".v0")
	}
	if i := strings.LastIndex(name, "-"); i >= 0 {
		name = name[i+1:]
	}
	p := types.NewPackage(path, name)
	p.MarkComplete()
	f.pkgs[path] = p
	return p, nil
}

type pkgInfo struct {
	dir   string
	fset  *token.FileSet
	files []*ast.File
	pkg   *types.Package
	info  *types.Info
}

func load(repo, dir string) (*pkgInfo, error) {
	ctx := build.Default // default build tags of the host: picks murmur_unsafe.go, not murmur_appengine.go
	ctx.CgoEnabled = false
	full := filepath.Join(repo, dir)
	bp, err := ctx.ImportDir(full, 0)
	if err != nil {
		return nil, err
	}
	fset := token.NewFileSet()
	var files []*ast.File
	for _, f := range bp.GoFiles {
		if strings.HasPrefix(f, "verif_") {
			continue // verification shims are not part of the product
		}
		af, err := parser.ParseFile(fset, filepath.Join(full, f), nil, 0)
		if err != nil {
			return nil, err
		}
		files = append(files, af)
	}
	conf := types.Config{Importer: &fakeImporter{pkgs: map[string]*types.Package{}}, Error: func(error) {}, FakeImportC: true}
	info := &types.Info{
		Types:      map[ast.Expr]types.TypeAndValue{},
		Defs:       map[*ast.Ident]types.Object{},
		Uses:       map[*ast.Ident]types.Object{},
		Selections: map[*ast.SelectorExpr]*types.Selection{},
	}
	pkg, _ := conf.Check(bp.ImportPath, fset, files, info)
	if pkg == nil {
		return nil, fmt.Errorf("type check of %s produced no package", full)
	}
	return &pkgInfo{dir, fset, files, pkg, info}, nil
}

// ---------------------------------------------------------------------------------------------------
// rejection

type unsupported struct {
	pos token.Position
	msg string
}

func (f *fn) bad(n ast.Node, format string, a ...interface{}) {
	panic(unsupported{f.p.fset.Position(n.Pos()), fmt.Sprintf(format, a...)})
}

func fail(format string, a ...interface{}) {
	fmt.Fprintf(os.Stderr, "go2coq: "+format+"\n", a...)
	os.Exit(2)
}

// ---------------------------------------------------------------------------------------------------
// types

type ity struct {
	signed bool
	w      int
}

func intType(t types.Type) (ity, bool) {
	b, ok := t.Underlying().(*types.Basic)
	if !ok {
		return ity{}, false
	}
	switch b.Kind() {
	case types.Int8:
		return ity{true, 8}, true
	case types.Int16:
		return ity{true, 16}, true
	case types.Int32:
		return ity{true, 32}, true
	case types.Int64, types.Int, types.UntypedInt, types.UntypedRune:
		return ity{true, 64}, true
	case types.Uint8:
		return ity{false, 8}, true
	case types.Uint16:
		return ity{false, 16}, true
	case types.Uint32:
		return ity{false, 32}, true
	case types.Uint64, types.Uint:
		return ity{false, 64}, true
	}
	return ity{}, false
}

func isBool(t types.Type) bool {
	b, ok := t.Underlying().(*types.Basic)
	return ok && (b.Kind() == types.Bool || b.Kind() == types.UntypedBool)
}

// seqType: array or slice with integer elements; n = array length or -1
func seqType(t types.Type) (elem ity, n int64, ok bool) {
	switch u := t.Underlying().(type) {
	case *types.Array:
		e, ok := intType(u.Elem())
		return e, u.Len(), ok
	case *types.Slice:
		e, ok := intType(u.Elem())
		return e, -1, ok
	}
	return ity{}, 0, false
}

func coqType(t types.Type) (string, bool) {
	if _, ok := intType(t); ok {
		return "Z", true
	}
	if isBool(t) {
		return "bool", true
	}
	if _, _, ok := seqType(t); ok {
		return "list Z", true
	}
	return "", false
}

func pow2(w int) *big.Int { return new(big.Int).Lsh(big.NewInt(1), uint(w)) }

func (t ity) min() *big.Int {
	if !t.signed {
		return big.NewInt(0)
	}
	return new(big.Int).Neg(pow2(t.w - 1))
}

func (t ity) max() *big.Int {
	if !t.signed {
		return new(big.Int).Sub(pow2(t.w), big.NewInt(1))
	}
	return new(big.Int).Sub(pow2(t.w-1), big.NewInt(1))
}

func (t ity) goName() string {
	if t.signed {
		return fmt.Sprintf("int%d", t.w)
	}
	return fmt.Sprintf("uint%d", t.w)
}

// norm: Go's wrap-around into type t
func norm(t ity, s string) string {
	if t.signed {
		return "(signed " + fmt.Sprint(t.w) + " " + s + ")"
	}
	return "(wrap " + fmt.Sprint(t.w) + " " + s + ")"
}

// every value of `from` is a value of `to` (conversion is the identity on canonical representatives)
func widens(from, to ity) bool {
	if from.signed == to.signed {
		return from.w <= to.w
	}
	return !from.signed && to.signed && from.w < to.w
}

// text placed inside a Coq comment
func comment(s string) string {
	s = strings.ReplaceAll(s, "(*", "( *")
	s = strings.ReplaceAll(s, "*)", "* )")
	return strings.ReplaceAll(s, "\"", "'")
}

func zlit(v *big.Int) string {
	if v.Sign() < 0 {
		return "(" + v.String() + ")"
	}
	return v.String()
}

// ---------------------------------------------------------------------------------------------------
// the translator

var reserved = map[string]bool{"Set": true, "Type": true, "Prop": true, "SProp": true, "end": true, "in": true,
	"as": true, "at": true, "fun": true, "forall": true, "exists": true, "let": true, "match": true, "with": true,
	"if": true, "then": true, "else": true, "return": true, "where": true, "fix": true, "cofix": true, "for": true,
	"using": true, "list": true, "nat": true, "bool": true, "true": true, "false": true, "Some": true, "None": true,
	"nil": true, "cons": true, "bytes": true, "length": true, "map": true, "app": true, "Z": true, "N": true,
	"nth": true, "skipn": true, "firstn": true, "repeat": true, "upd": true, "wrap": true, "signed": true,
	"negb": true, "andb": true, "orb": true, "fst": true, "snd": true, "pair": true, "tt": true, "unit": true,
	"le_val": true, "le_load": true, "copy_at": true, "O": true, "S": true, "I": true, "mod": true, "seq": true,
	"rev": true, "fold_left": true, "fold_right": true, "is_byte": true, "wf_bytes": true, "byte_of": true, "sx8": true}

type translator struct {
	done map[string]string // "dir|recv|name" -> coq name
	out  strings.Builder
	coqs map[string]bool
}

type view struct { // p := (*[N]T)(unsafe.Pointer(&base[off])): little-endian loads from base
	base string
	off  string
	elem ity
	n    int64
}

type fn struct {
	tr      *translator
	p       *pkgInfo
	decl    *ast.FuncDecl
	coqName string
	names   map[types.Object]string
	used    map[string]bool
	views   map[types.Object]*view
	written map[types.Object]bool // element-assigned somewhere in the function
	fresh   map[types.Object]bool // slice variables initialised by make / a composite literal
	aux     []string
	conds   []string
	nloop   int
	ntmp    int
}

func (f *fn) tv(e ast.Expr) types.TypeAndValue {
	tv, ok := f.p.info.Types[e]
	if !ok || tv.Type == nil {
		f.bad(e, "expression has no type (does the package still compile?)")
	}
	if b, ok := tv.Type.(*types.Basic); ok && b.Kind() == types.Invalid {
		f.bad(e, "expression has an invalid type (does the package still compile?)")
	}
	return tv
}

func (f *fn) ity(e ast.Expr) ity {
	t, ok := intType(f.tv(e).Type)
	if !ok {
		f.bad(e, "expression of type %s where an integer is required", f.tv(e).Type)
	}
	return t
}

func (f *fn) cond(s string, a ...interface{}) {
	c := fmt.Sprintf(s, a...)
	for _, x := range f.conds {
		if x == c {
			return
		}
	}
	f.conds = append(f.conds, c)
}

func (f *fn) declare(obj types.Object, n ast.Node) string {
	if obj == nil {
		f.bad(n, "identifier without object")
	}
	if nm, ok := f.names[obj]; ok {
		return nm
	}
	base := obj.Name()
	if base == "_" {
		base = "blank"
	}
	if reserved[base] || f.tr.coqs[base] || strings.HasSuffix(base, "_") {
		base += "_"
	}
	nm := base
	for i := 1; f.used[nm]; i++ {
		nm = fmt.Sprintf("%s_%d", base, i)
	}
	f.used[nm] = true
	f.names[obj] = nm
	return nm
}

func (f *fn) tmp(prefix string) string {
	for {
		f.ntmp++
		nm := fmt.Sprintf("%s%d_", prefix, f.ntmp)
		if !f.used[nm] {
			f.used[nm] = true
			return nm
		}
	}
}

func (f *fn) varOf(id *ast.Ident) *types.Var {
	obj := f.p.info.Uses[id]
	if obj == nil {
		obj = f.p.info.Defs[id]
	}
	v, ok := obj.(*types.Var)
	if !ok {
		f.bad(id, "%s is not a variable", id.Name)
	}
	return v
}

func (f *fn) varName(id *ast.Ident) string {
	v := f.varOf(id)
	nm, ok := f.names[v]
	if !ok {
		f.bad(id, "%s is not a parameter or local variable of the translated function (package-level variables are not supported)", id.Name)
	}
	return nm
}

// constant value of e as a Coq term, or "" if e is not constant
func (f *fn) constant(e ast.Expr) string {
	tv := f.tv(e)
	if tv.Value == nil {
		return ""
	}
	switch tv.Value.Kind() {
	case constant.Bool:
		if constant.BoolVal(tv.Value) {
			return "true"
		}
		return "false"
	case constant.Int, constant.Float:
		iv := constant.ToInt(tv.Value)
		if iv.Kind() != constant.Int {
			f.bad(e, "non-integer constant %s", tv.Value)
		}
		v, ok := new(big.Int).SetString(iv.ExactString(), 10)
		if !ok {
			f.bad(e, "cannot read constant %s", iv.ExactString())
		}
		if b, isB := tv.Type.Underlying().(*types.Basic); isB && b.Info()&types.IsUntyped == 0 {
			t, isInt := intType(tv.Type)
			if !isInt {
				f.bad(e, "constant of non-integer type %s", tv.Type)
			}
			if v.Cmp(t.min()) < 0 || v.Cmp(t.max()) > 0 {
				f.bad(e, "constant %s overflows %s", v, tv.Type)
			}
		}
		return zlit(v)
	}
	f.bad(e, "unsupported constant %s", tv.Value)
	return ""
}

func (f *fn) constInt(e ast.Expr) (*big.Int, bool) {
	tv := f.tv(e)
	if tv.Value == nil {
		return nil, false
	}
	iv := constant.ToInt(tv.Value)
	if iv.Kind() != constant.Int {
		return nil, false
	}
	v, ok := new(big.Int).SetString(iv.ExactString(), 10)
	return v, ok
}

// index expression as a Coq nat
func (f *fn) natIndex(e ast.Expr) string {
	if v, ok := f.constInt(e); ok {
		if v.Sign() < 0 || v.BitLen() > 20 {
			f.bad(e, "constant index %s out of the supported range", v)
		}
		return v.String() + "%nat"
	}
	f.ity(e)
	return "(Z.to_nat " + f.expr(e) + ")"
}

func stripParens(s string) string {
	if len(s) < 2 || s[0] != '(' || s[len(s)-1] != ')' {
		return s
	}
	depth := 0
	for i := 0; i < len(s); i++ {
		switch s[i] {
		case '(':
			depth++
		case ')':
			depth--
			if depth == 0 && i != len(s)-1 {
				return s
			}
		}
	}
	if strings.HasPrefix(s, "(-") { // keep negative literals parenthesised
		return s
	}
	return s[1 : len(s)-1]
}

func (f *fn) key(pkg *types.Package, recv, name string) string {
	if pkg != f.p.pkg {
		return "?" // only calls inside the package (imports are stubbed)
	}
	return f.p.dir + "|" + recv + "|" + name
}

func (f *fn) exprs(es []ast.Expr) []string {
	var r []string
	for _, e := range es {
		r = append(r, f.expr(e))
	}
	return r
}

// expr translates a pure expression (integer, bool or byte sequence) into a parenthesised Coq term.
func (f *fn) expr(e ast.Expr) string {
	if _, isFn := e.(*ast.FuncLit); isFn {
		f.bad(e, "function literal")
	}
	if c := f.constant(e); c != "" {
		return c
	}
	switch e := e.(type) {
	case *ast.ParenExpr:
		return f.expr(e.X)
	case *ast.Ident:
		if e.Name == "nil" {
			f.bad(e, "nil")
		}
		v := f.varOf(e)
		if _, isView := f.views[v]; isView {
			f.bad(e, "the unsafe pointer %s may only be indexed", e.Name)
		}
		return f.varName(e)
	case *ast.BinaryExpr:
		return f.binary(e)
	case *ast.UnaryExpr:
		x := f.expr(e.X)
		switch e.Op {
		case token.ADD:
			f.ity(e)
			return x
		case token.SUB:
			return norm(f.ity(e), "(- "+x+")")
		case token.XOR:
			t := f.ity(e)
			if t.signed {
				return "(Z.lnot " + x + ")"
			}
			return norm(t, "(Z.lnot "+x+")")
		case token.NOT:
			return "(negb " + x + ")"
		}
		f.bad(e, "unary operator %s", e.Op)
	case *ast.CallExpr:
		return f.call(e)
	case *ast.IndexExpr:
		if id, ok := e.X.(*ast.Ident); ok {
			if vw, isView := f.views[f.varOf(id)]; isView {
				c, isConst := f.constInt(e.Index)
				if !isConst || c.Sign() < 0 || c.Int64() >= vw.n {
					f.bad(e, "index into an unsafe array view must be a constant below %d", vw.n)
				}
				bytes := int64(vw.elem.w / 8)
				off := vw.off
				if c.Int64() != 0 {
					off = fmt.Sprintf("(%s + %d)", vw.off, c.Int64()*bytes)
				}
				f.cond("0 <= %s /\\ %s + %d <= len(%s)   [unsafe load of %s at byte offset %s: little-endian (amd64)]",
					vw.off, vw.off, vw.n*bytes, vw.base, vw.elem.goName(), off)
				sg := "false"
				if vw.elem.signed {
					sg = "true"
				}
				return fmt.Sprintf("(le_load %s %d %s %s)", sg, vw.elem.w, vw.base, off)
			}
		}
		_, n, ok := seqType(f.tv(e.X).Type)
		if !ok {
			f.bad(e, "indexing a value of type %s (only arrays and slices of integers)", f.tv(e.X).Type)
		}
		base := f.expr(e.X)
		idx := f.natIndex(e.Index)
		if c, isConst := f.constInt(e.Index); isConst && n < 0 {
			f.cond("%s < len(%s)", c, f.src(e.X))
		} else if !isConst {
			f.cond("0 <= %s < len(%s)", f.src(e.Index), f.src(e.X))
		}
		return "(nth " + idx + " " + base + " 0)"
	case *ast.SliceExpr:
		if e.Slice3 {
			f.bad(e, "three-index slice")
		}
		if _, _, ok := seqType(f.tv(e.X).Type); !ok {
			f.bad(e, "slicing a value of type %s", f.tv(e.X).Type)
		}
		if id, ok := e.X.(*ast.Ident); ok && f.written[f.varOf(id)] {
			f.bad(e, "slice of %s, whose elements are assigned in this function (aliasing is not modelled)", id.Name)
		}
		base := f.expr(e.X)
		switch {
		case e.Low == nil && e.High == nil:
			return base
		case e.High == nil:
			f.cond("0 <= %s <= len(%s)", f.src(e.Low), f.src(e.X))
			return "(skipn " + f.natIndex(e.Low) + " " + base + ")"
		case e.Low == nil:
			f.cond("0 <= %s <= len(%s)", f.src(e.High), f.src(e.X))
			return "(firstn " + f.natIndex(e.High) + " " + base + ")"
		default:
			f.cond("0 <= %s <= %s <= len(%s)", f.src(e.Low), f.src(e.High), f.src(e.X))
			return "(firstn (" + f.natIndex(e.High) + " - " + f.natIndex(e.Low) + ")%nat (skipn " + f.natIndex(e.Low) + " " + base + "))"
		}
	case *ast.CompositeLit:
		if _, _, ok := seqType(f.tv(e).Type); !ok {
			f.bad(e, "composite literal of type %s (only arrays and slices of integers)", f.tv(e).Type)
		}
		var items []string
		for _, x := range e.Elts {
			if _, isKV := x.(*ast.KeyValueExpr); isKV {
				f.bad(x, "keyed composite literal")
			}
			items = append(items, stripParens(f.expr(x)))
		}
		if _, n, _ := seqType(f.tv(e).Type); n >= 0 && int(n) != len(items) {
			f.bad(e, "array literal with %d of %d elements", len(items), n)
		}
		return "[" + strings.Join(items, "; ") + "]"
	}
	f.bad(e, "unsupported expression %T", e)
	return ""
}

func (f *fn) src(e ast.Expr) string {
	var b strings.Builder
	var w func(e ast.Expr)
	w = func(e ast.Expr) {
		switch e := e.(type) {
		case *ast.Ident:
			b.WriteString(e.Name)
		case *ast.BasicLit:
			b.WriteString(e.Value)
		case *ast.ParenExpr:
			b.WriteString("(")
			w(e.X)
			b.WriteString(")")
		case *ast.BinaryExpr:
			w(e.X)
			b.WriteString(e.Op.String())
			w(e.Y)
		case *ast.UnaryExpr:
			b.WriteString(e.Op.String())
			w(e.X)
		case *ast.IndexExpr:
			w(e.X)
			b.WriteString("[")
			w(e.Index)
			b.WriteString("]")
		case *ast.SelectorExpr:
			w(e.X)
			b.WriteString("." + e.Sel.Name)
		case *ast.CallExpr:
			w(e.Fun)
			b.WriteString("(")
			for i, a := range e.Args {
				if i > 0 {
					b.WriteString(",")
				}
				w(a)
			}
			b.WriteString(")")
		case *ast.SliceExpr:
			w(e.X)
			b.WriteString("[")
			if e.Low != nil {
				w(e.Low)
			}
			b.WriteString(":")
			if e.High != nil {
				w(e.High)
			}
			b.WriteString("]")
		default:
			b.WriteString("...")
		}
	}
	w(e)
	return b.String()
}

func (f *fn) binary(e *ast.BinaryExpr) string {
	switch e.Op {
	case token.LAND:
		return "(" + f.expr(e.X) + " && " + f.expr(e.Y) + ")"
	case token.LOR:
		return "(" + f.expr(e.X) + " || " + f.expr(e.Y) + ")"
	case token.EQL, token.NEQ, token.LSS, token.LEQ, token.GTR, token.GEQ:
		if isBool(f.tv(e.X).Type) && (e.Op == token.EQL || e.Op == token.NEQ) {
			x, y := f.expr(e.X), f.expr(e.Y)
			if e.Op == token.EQL {
				return "(Bool.eqb " + x + " " + y + ")"
			}
			return "(xorb " + x + " " + y + ")"
		}
		f.ity(e.X)
		f.ity(e.Y)
		x, y := f.expr(e.X), f.expr(e.Y)
		switch e.Op {
		case token.EQL:
			return "(" + x + " =? " + y + ")"
		case token.NEQ:
			return "(negb (" + x + " =? " + y + "))"
		case token.LSS:
			return "(" + x + " <? " + y + ")"
		case token.LEQ:
			return "(" + x + " <=? " + y + ")"
		case token.GTR:
			return "(" + x + " >? " + y + ")"
		default:
			return "(" + x + " >=? " + y + ")"
		}
	}
	t := f.ity(e)
	return f.arith(e, e.Op, t, f.expr(e.X), e.Y)
}

// arith: x op y on integer type t (x already translated; y an expression)
func (f *fn) arith(at ast.Node, op token.Token, t ity, x string, ye ast.Expr) string {
	y := f.expr(ye)
	switch op {
	case token.ADD:
		return norm(t, "("+x+" + "+y+")")
	case token.SUB:
		return norm(t, "("+x+" - "+y+")")
	case token.MUL:
		return norm(t, "("+x+" * "+y+")")
	case token.QUO, token.REM:
		c, isConst := f.constInt(ye)
		if isConst && c.Sign() == 0 {
			f.bad(at, "division by the constant zero")
		}
		if !isConst {
			f.cond("%s <> 0", f.src(ye))
		}
		if op == token.REM {
			return "(Z.rem " + x + " " + y + ")"
		}
		q := "(Z.quot " + x + " " + y + ")" // Go's / truncates towards zero
		if t.signed && !(isConst && c.Cmp(big.NewInt(-1)) != 0) {
			return norm(t, q) // minInt / -1 wraps
		}
		return q
	case token.AND:
		return "(Z.land " + x + " " + y + ")"
	case token.OR:
		return "(Z.lor " + x + " " + y + ")"
	case token.XOR:
		return "(Z.lxor " + x + " " + y + ")"
	case token.AND_NOT:
		return "(Z.ldiff " + x + " " + y + ")"
	case token.SHL, token.SHR:
		if c, isConst := f.constInt(ye); isConst {
			if c.Sign() < 0 {
				f.bad(at, "negative shift count")
			}
			if c.BitLen() > 16 {
				f.bad(at, "shift count %s is too large", c)
			}
		} else if st := f.ity(ye); st.signed {
			f.cond("0 <= %s   [shift count]", f.src(ye))
		}
		if op == token.SHL {
			// x * 2^y reduced to the operand type: zero as soon as y >= width, as in Go
			return norm(t, "(Z.shiftl "+x+" "+y+")")
		}
		// floor (x / 2^y) on the canonical representative: logical for unsigned x, arithmetic for signed x,
		// 0 resp. -1 as soon as y >= width, as in Go
		return "(Z.shiftr " + x + " " + y + ")"
	}
	f.bad(at, "operator %s", op)
	return ""
}

func (f *fn) call(e *ast.CallExpr) string {
	info := f.p.info
	// conversion
	if ftv, ok := info.Types[e.Fun]; ok && ftv.IsType() {
		if len(e.Args) != 1 {
			f.bad(e, "conversion with %d arguments", len(e.Args))
		}
		to, ok := intType(ftv.Type)
		if !ok {
			f.bad(e, "conversion to %s (only integer types)", ftv.Type)
		}
		from := f.ity(e.Args[0])
		x := f.expr(e.Args[0])
		if widens(from, to) {
			return x
		}
		return norm(to, x)
	}
	fun := e.Fun
	for {
		p, ok := fun.(*ast.ParenExpr)
		if !ok {
			break
		}
		fun = p.X
	}
	switch fx := fun.(type) {
	case *ast.Ident:
		switch obj := info.Uses[fx].(type) {
		case *types.Builtin:
			switch obj.Name() {
			case "len":
				if _, _, ok := seqType(f.tv(e.Args[0]).Type); !ok {
					f.bad(e, "len of %s", f.tv(e.Args[0]).Type)
				}
				return "(Z.of_nat (List.length " + f.expr(e.Args[0]) + "))"
			case "make":
				if len(e.Args) != 2 {
					f.bad(e, "make with a capacity")
				}
				if _, _, ok := seqType(f.tv(e).Type); !ok {
					f.bad(e, "make of %s", f.tv(e).Type)
				}
				if _, isConst := f.constInt(e.Args[1]); !isConst {
					f.cond("0 <= %s   [make]", f.src(e.Args[1]))
				}
				return "(repeat 0 " + f.natIndex(e.Args[1]) + ")"
			}
			f.bad(e, "built-in %s", obj.Name())
		case *types.Func:
			coq, ok := f.tr.done[f.key(obj.Pkg(), "", obj.Name())]
			if !ok {
				f.bad(e, "call of %s, which is not a translated function (add it to the table before its caller)", obj.Name())
			}
			return "(" + coq + " " + strings.Join(f.exprs(e.Args), " ") + ")"
		}
	case *ast.SelectorExpr:
		sel, ok := info.Selections[fx]
		if !ok || sel.Kind() != types.MethodVal {
			f.bad(e, "call of %s (only translated functions and methods with value receivers)", f.src(fx))
		}
		m := sel.Obj().(*types.Func)
		recv := m.Type().(*types.Signature).Recv().Type()
		named, ok := recv.(*types.Named)
		if !ok {
			f.bad(e, "method with receiver type %s", recv)
		}
		coq, ok := f.tr.done[f.key(m.Pkg(), named.Obj().Name(), m.Name())]
		if !ok {
			f.bad(e, "call of method %s.%s, which is not translated (add it to the table before its caller)", named.Obj().Name(), m.Name())
		}
		args := append([]string{f.expr(fx.X)}, f.exprs(e.Args)...)
		return "(" + coq + " " + strings.Join(args, " ") + ")"
	}
	f.bad(e, "unsupported call %s", f.src(e.Fun))
	return ""
}

// ---- statements ------------------------------------------------------------------------------------

func hasReturn(n ast.Node) bool {
	found := false
	ast.Inspect(n, func(x ast.Node) bool {
		if _, ok := x.(*ast.ReturnStmt); ok {
			found = true
		}
		return !found
	})
	return found
}

func (f *fn) terminates(list []ast.Stmt) bool {
	if len(list) == 0 {
		return false
	}
	switch s := list[len(list)-1].(type) {
	case *ast.ReturnStmt:
		return true
	case *ast.BlockStmt:
		return f.terminates(s.List)
	case *ast.IfStmt:
		if s.Else == nil || !f.terminates(s.Body.List) {
			return false
		}
		return f.terminates([]ast.Stmt{s.Else})
	case *ast.SwitchStmt:
		hasDefault := false
		for i, c := range s.Body.List {
			cc := c.(*ast.CaseClause)
			if cc.List == nil {
				hasDefault = true
			}
			if !f.terminates(f.chain(s, i)) {
				return false
			}
		}
		return hasDefault
	}
	return false
}

// chain: the statements executed when clause i of a switch is entered (fallthrough tails appended)
func (f *fn) chain(s *ast.SwitchStmt, i int) []ast.Stmt {
	var r []ast.Stmt
	for ; i < len(s.Body.List); i++ {
		body := s.Body.List[i].(*ast.CaseClause).Body
		if n := len(body); n > 0 {
			if b, ok := body[n-1].(*ast.BranchStmt); ok && b.Tok == token.FALLTHROUGH {
				r = append(r, body[:n-1]...)
				continue
			}
		}
		r = append(r, body...)
		break
	}
	return r
}

// assigned: variables declared outside n that are assigned inside n, in declaration order
func (f *fn) assigned(n ast.Node) []*types.Var {
	set := map[*types.Var]bool{}
	add := func(e ast.Expr) {
		for {
			switch x := e.(type) {
			case *ast.ParenExpr:
				e = x.X
				continue
			case *ast.IndexExpr:
				e = x.X
				continue
			case *ast.SliceExpr:
				e = x.X
				continue
			}
			break
		}
		if id, ok := e.(*ast.Ident); ok && id.Name != "_" {
			if v, ok := f.p.info.Uses[id].(*types.Var); ok {
				set[v] = true
			}
		}
	}
	ast.Inspect(n, func(x ast.Node) bool {
		switch s := x.(type) {
		case *ast.AssignStmt:
			for _, l := range s.Lhs {
				add(l)
			}
		case *ast.IncDecStmt:
			add(s.X)
		case *ast.ExprStmt:
			if c, ok := s.X.(*ast.CallExpr); ok {
				if id, ok := c.Fun.(*ast.Ident); ok && id.Name == "copy" && len(c.Args) == 2 {
					add(c.Args[0])
				}
			}
		}
		return true
	})
	var r []*types.Var
	for v := range set {
		if v.Pos() >= n.Pos() && v.Pos() < n.End() {
			continue
		}
		if _, ok := f.names[v]; !ok {
			f.bad(n, "assignment to %s, which is not a local variable of the translated function", v.Name())
		}
		r = append(r, v)
	}
	sort.Slice(r, func(i, j int) bool { return r[i].Pos() < r[j].Pos() })
	return r
}

func (f *fn) tuple(vs []*types.Var) string {
	if len(vs) == 0 {
		return "tt"
	}
	var ns []string
	for _, v := range vs {
		ns = append(ns, f.names[v])
	}
	if len(ns) == 1 {
		return ns[0]
	}
	return "(" + strings.Join(ns, ", ") + ")"
}

func (f *fn) tupleType(vs []*types.Var) string {
	if len(vs) == 0 {
		return "unit"
	}
	var ts []string
	for _, v := range vs {
		t, _ := coqType(v.Type())
		ts = append(ts, t)
	}
	return strings.Join(ts, " * ")
}

func bindTuple(ind, pat string, n int, body string, rest string) string {
	// body: lines (terminated by \n) computing the tuple
	q := "'"
	if n == 1 {
		q = ""
	}
	return ind + "let " + q + pat + " :=\n" + strings.TrimRight(body, "\n") + " in\n" + rest
}

type cont func(ind string) string

func (f *fn) zero(t types.Type, at ast.Node) string {
	if _, ok := intType(t); ok {
		return "0"
	}
	if isBool(t) {
		return "false"
	}
	if _, n, ok := seqType(t); ok && n >= 0 {
		return fmt.Sprintf("(repeat 0 %d%%nat)", n)
	}
	f.bad(at, "zero value of type %s", t)
	return ""
}

func (f *fn) checkLocalType(t types.Type, at ast.Node) {
	if _, ok := coqType(t); !ok {
		f.bad(at, "variable of type %s (only integers, bool, arrays and slices of integers)", t)
	}
}

// element assignment / variable assignment of one already evaluated value
func (f *fn) store(lhs ast.Expr, val string, ind string) string {
	switch l := lhs.(type) {
	case *ast.ParenExpr:
		return f.store(l.X, val, ind)
	case *ast.Ident:
		if l.Name == "_" {
			return ""
		}
		v := f.varOf(l)
		nm := f.declare(v, l)
		f.checkLocalType(v.Type(), l)
		return ind + "let " + nm + " := " + stripParens(val) + " in\n"
	case *ast.IndexExpr:
		id, ok := l.X.(*ast.Ident)
		if !ok {
			f.bad(lhs, "assignment to an element of something that is not a variable")
		}
		v := f.varOf(id)
		_, n, ok := seqType(v.Type())
		if !ok {
			f.bad(lhs, "element assignment on %s", v.Type())
		}
		if n < 0 && !f.fresh[v] {
			f.bad(lhs, "element assignment through slice %s, which was not created in this function by make or a literal (aliasing is not modelled)", id.Name)
		}
		nm := f.varName(id)
		if c, isConst := f.constInt(l.Index); isConst && (n < 0 && !f.fresh[v]) {
			f.cond("%s < len(%s)", c, id.Name)
		} else if isConst && n < 0 {
			f.cond("%s < len(%s)   [%s was created in this function]", c, id.Name, id.Name)
		} else if !isConst {
			f.cond("0 <= %s < len(%s)", f.src(l.Index), id.Name)
		}
		return ind + "let " + nm + " := upd " + nm + " " + f.natIndex(l.Index) + " " + val + " in\n"
	}
	f.bad(lhs, "unsupported assignment target")
	return ""
}

func atom(s string) string {
	if strings.ContainsAny(s, " ") && !(strings.HasPrefix(s, "(") && stripParens(s) != s) && !strings.HasPrefix(s, "[") {
		return "(" + s + ")"
	}
	return s
}

var assignOps = map[token.Token]token.Token{
	token.ADD_ASSIGN: token.ADD, token.SUB_ASSIGN: token.SUB, token.MUL_ASSIGN: token.MUL, token.QUO_ASSIGN: token.QUO,
	token.REM_ASSIGN: token.REM, token.AND_ASSIGN: token.AND, token.OR_ASSIGN: token.OR, token.XOR_ASSIGN: token.XOR,
	token.SHL_ASSIGN: token.SHL, token.SHR_ASSIGN: token.SHR, token.AND_NOT_ASSIGN: token.AND_NOT,
}

// unsafe view: (*[N]T)(unsafe.Pointer(&base[idx]))
func (f *fn) unsafeView(e ast.Expr) (base ast.Expr, idx ast.Expr, elem ity, n int64, ok bool) {
	c, isCall := e.(*ast.CallExpr)
	if !isCall || len(c.Args) != 1 {
		return
	}
	ftv, has := f.p.info.Types[c.Fun]
	if !has || !ftv.IsType() {
		return
	}
	pt, isPtr := ftv.Type.Underlying().(*types.Pointer)
	if !isPtr {
		return
	}
	arr, isArr := pt.Elem().Underlying().(*types.Array)
	if !isArr {
		return
	}
	el, isInt := intType(arr.Elem())
	if !isInt {
		return
	}
	inner, isCall := c.Args[0].(*ast.CallExpr)
	if !isCall || len(inner.Args) != 1 {
		return
	}
	itv, has := f.p.info.Types[inner.Fun]
	if !has || !itv.IsType() {
		return
	}
	if b, isB := itv.Type.Underlying().(*types.Basic); !isB || b.Kind() != types.UnsafePointer {
		return
	}
	u, isU := inner.Args[0].(*ast.UnaryExpr)
	if !isU || u.Op != token.AND {
		return
	}
	ix, isIx := u.X.(*ast.IndexExpr)
	if !isIx {
		return
	}
	bel, _, isSeq := seqType(f.tv(ix.X).Type)
	if !isSeq || bel.w != 8 {
		f.bad(e, "unsafe pointer cast of something that is not the address of a byte in a byte slice")
	}
	return ix.X, ix.Index, el, arr.Len(), true
}

func (f *fn) stmts(list []ast.Stmt, ind string, k cont) string {
	if len(list) == 0 {
		return k(ind)
	}
	rest := func(ind string) string { return f.stmts(list[1:], ind, k) }
	switch s := list[0].(type) {
	case *ast.EmptyStmt:
		return rest(ind)
	case *ast.BlockStmt:
		return f.compound(s, ind, rest, func(ind string, k2 cont) string { return f.stmts(s.List, ind, k2) })
	case *ast.ReturnStmt:
		if len(s.Results) == 0 {
			f.bad(s, "return without values (named results are not supported)")
		}
		var rs []string
		for _, r := range s.Results {
			rs = append(rs, stripParens(f.expr(r)))
		}
		if len(rs) == 1 {
			return ind + rs[0] + "\n"
		}
		return ind + "(" + strings.Join(rs, ", ") + ")\n"
	case *ast.DeclStmt:
		gd, ok := s.Decl.(*ast.GenDecl)
		if !ok || gd.Tok != token.VAR {
			if ok && gd.Tok == token.CONST {
				return rest(ind) // constants are folded where they are used
			}
			f.bad(s, "unsupported declaration")
		}
		out := ""
		for _, sp := range gd.Specs {
			vs := sp.(*ast.ValueSpec)
			if len(vs.Values) != 0 && len(vs.Values) != len(vs.Names) {
				f.bad(s, "var declaration initialised by a multi-valued call")
			}
			var vals []string
			for i, id := range vs.Names {
				obj := f.p.info.Defs[id]
				if id.Name == "_" {
					vals = append(vals, "")
					continue
				}
				f.checkLocalType(obj.Type(), id)
				if len(vs.Values) == 0 {
					vals = append(vals, f.zero(obj.Type(), id))
				} else {
					f.noteFresh(obj, vs.Values[i])
					vals = append(vals, f.expr(vs.Values[i]))
				}
			}
			for i, id := range vs.Names {
				if id.Name == "_" {
					continue
				}
				out += ind + "let " + f.declare(f.p.info.Defs[id], id) + " := " + stripParens(vals[i]) + " in\n"
			}
		}
		return out + rest(ind)
	case *ast.IncDecStmt:
		t := f.ity(s.X)
		op := "+"
		if s.Tok == token.DEC {
			op = "-"
		}
		cur := f.expr(s.X)
		return f.store(s.X, norm(t, "("+cur+" "+op+" 1)"), ind) + rest(ind)
	case *ast.AssignStmt:
		return f.assign(s, ind) + rest(ind)
	case *ast.ExprStmt:
		c, ok := s.X.(*ast.CallExpr)
		if ok {
			if id, isId := c.Fun.(*ast.Ident); isId {
				if b, isB := f.p.info.Uses[id].(*types.Builtin); isB && b.Name() == "copy" {
					return f.copyStmt(c, ind) + rest(ind)
				}
			}
		}
		f.bad(s, "expression statement (only copy(dst[i:], src) is supported)")
	case *ast.IfStmt:
		return f.compound(s, ind, rest, func(ind string, k2 cont) string { return f.ifStmt(s, ind, k2) })
	case *ast.SwitchStmt:
		return f.compound(s, ind, rest, func(ind string, k2 cont) string { return f.switchStmt(s, ind, k2) })
	case *ast.ForStmt:
		return f.forStmt(s, ind) + rest(ind)
	}
	f.bad(list[0], "unsupported statement %T", list[0])
	return ""
}

// compound: a statement with inner control flow.  Without a return inside, it is bound as the tuple of the
// outer variables it assigns; with a return inside, the continuation is placed in every branch that falls through.
func (f *fn) compound(n ast.Node, ind string, rest cont, gen func(ind string, k cont) string) string {
	if hasReturn(n) {
		return gen(ind, rest)
	}
	mod := f.assigned(n)
	tup := f.tuple(mod)
	body := gen(ind+"  ", func(ind string) string { return ind + tup + "\n" })
	if len(mod) == 0 {
		return ind + "(* a statement that assigns no variable of the function (no effect) is omitted here *)\n" + rest(ind)
	}
	return bindTuple(ind, tup, len(mod), body, rest(ind))
}

func (f *fn) noteFresh(obj types.Object, rhs ast.Expr) {
	if _, n, ok := seqType(obj.Type()); !ok || n >= 0 {
		return
	}
	for {
		p, ok := rhs.(*ast.ParenExpr)
		if !ok {
			break
		}
		rhs = p.X
	}
	switch r := rhs.(type) {
	case *ast.CompositeLit:
		f.fresh[obj] = true
		return
	case *ast.CallExpr:
		if id, ok := r.Fun.(*ast.Ident); ok {
			if b, isB := f.p.info.Uses[id].(*types.Builtin); isB && b.Name() == "make" {
				f.fresh[obj] = true
				return
			}
		}
	}
	if f.written[obj] {
		f.bad(rhs, "slice %s is element-assigned but not created by make or a literal (aliasing is not modelled)", obj.Name())
	}
	if id, ok := rhs.(*ast.Ident); ok {
		if v, isVar := f.p.info.Uses[id].(*types.Var); isVar && f.written[v] {
			f.bad(rhs, "alias of %s, whose elements are assigned (aliasing is not modelled)", id.Name)
		}
	}
}

func (f *fn) assign(s *ast.AssignStmt, ind string) string {
	if op, isOp := assignOps[s.Tok]; isOp {
		if len(s.Lhs) != 1 || len(s.Rhs) != 1 {
			f.bad(s, "malformed assignment operation")
		}
		t := f.ity(s.Lhs[0])
		cur := f.expr(s.Lhs[0])
		return f.store(s.Lhs[0], f.arith(s, op, t, cur, s.Rhs[0]), ind)
	}
	if s.Tok != token.ASSIGN && s.Tok != token.DEFINE {
		f.bad(s, "assignment operator %s", s.Tok)
	}
	// x, y := f(...)
	if len(s.Rhs) == 1 && len(s.Lhs) > 1 {
		call, ok := s.Rhs[0].(*ast.CallExpr)
		if !ok {
			f.bad(s, "multi-value assignment from something that is not a call")
		}
		val := f.expr(call)
		var pats []string
		post := ""
		for _, l := range s.Lhs {
			id, isId := l.(*ast.Ident)
			if isId && id.Name == "_" {
				pats = append(pats, "_")
				continue
			}
			if isId {
				v := f.varOf(id)
				f.checkLocalType(v.Type(), id)
				pats = append(pats, f.declare(v, id))
				continue
			}
			t := f.tmp("r")
			pats = append(pats, t)
			post += f.store(l, t, ind)
		}
		return ind + "let '(" + strings.Join(pats, ", ") + ") := " + stripParens(val) + " in\n" + post
	}
	if len(s.Lhs) != len(s.Rhs) {
		f.bad(s, "assignment count mismatch")
	}
	if len(s.Lhs) == 1 {
		// unsafe view?
		if id, isId := s.Lhs[0].(*ast.Ident); isId && s.Tok == token.DEFINE {
			if base, idx, elem, n, ok := f.unsafeView(s.Rhs[0]); ok {
				obj := f.p.info.Defs[id]
				if obj == nil {
					f.bad(s, "unsafe pointer assigned to an existing variable")
				}
				off := f.tmp(id.Name + "_off")
				f.ity(idx)
				f.views[obj] = &view{base: f.expr(base), off: off, elem: elem, n: n}
				return ind + "let " + off + " := " + stripParens(f.expr(idx)) + " in\n"
			}
		}
		if id, isId := s.Lhs[0].(*ast.Ident); isId && id.Name != "_" {
			f.noteFresh(f.varOf(id), s.Rhs[0])
		}
		return f.store(s.Lhs[0], f.expr(s.Rhs[0]), ind)
	}
	// parallel assignment: all right-hand sides (and, per the Go specification, the index operands on the
	// left) are evaluated first
	out := ""
	var tmps []string
	for i, r := range s.Rhs {
		if id, isId := s.Lhs[i].(*ast.Ident); isId && id.Name != "_" {
			f.noteFresh(f.varOf(id), r)
		}
		if ix, isIx := s.Lhs[i].(*ast.IndexExpr); isIx {
			if _, isConst := f.constInt(ix.Index); !isConst {
				f.bad(s, "parallel assignment to an element with a non-constant index")
			}
		}
		t := f.tmp("t")
		tmps = append(tmps, t)
		out += ind + "let " + t + " := " + stripParens(f.expr(r)) + " in\n"
	}
	for i, l := range s.Lhs {
		out += f.store(l, tmps[i], ind)
	}
	return out
}

func (f *fn) copyStmt(c *ast.CallExpr, ind string) string {
	if len(c.Args) != 2 {
		f.bad(c, "copy with %d arguments", len(c.Args))
	}
	dst := c.Args[0]
	off := "0%nat"
	if sl, ok := dst.(*ast.SliceExpr); ok {
		if sl.High != nil || sl.Slice3 {
			f.bad(c, "copy into a slice expression with an upper bound")
		}
		if sl.Low != nil {
			off = f.natIndex(sl.Low)
			if c, isConst := f.constInt(sl.Low); !(isConst && n0(f, sl.X) >= c.Int64()) {
				f.cond("0 <= %s <= len(%s)", f.src(sl.Low), f.src(sl.X))
			}
		}
		dst = sl.X
	}
	id, ok := dst.(*ast.Ident)
	if !ok {
		f.bad(c, "copy into something that is not a variable")
	}
	v := f.varOf(id)
	el, n, ok := seqType(v.Type())
	if !ok || el.w != 8 {
		f.bad(c, "copy into %s", v.Type())
	}
	if n < 0 && !f.fresh[v] {
		f.bad(c, "copy into slice %s, which was not created in this function by make or a literal (aliasing is not modelled)", id.Name)
	}
	if sel, _, ok := seqType(f.tv(c.Args[1]).Type); !ok || sel.w != 8 {
		f.bad(c, "copy from %s", f.tv(c.Args[1]).Type)
	}
	nm := f.varName(id)
	return ind + "let " + nm + " := copy_at " + nm + " " + off + " " + f.expr(c.Args[1]) + " in\n"
}

func (f *fn) ifStmt(s *ast.IfStmt, ind string, k cont) string {
	pre := ""
	if s.Init != nil {
		// the init statement's variables are scoped to the if: names are unique per object, so a plain let is enough
		pre = f.stmts([]ast.Stmt{s.Init}, ind, func(string) string { return "" })
	}
	if !isBool(f.tv(s.Cond).Type) {
		f.bad(s.Cond, "condition is not a boolean")
	}
	c := stripParens(f.expr(s.Cond))
	out := pre + ind + "if " + c + " then\n"
	out += f.stmts(s.Body.List, ind+"  ", k)
	out += ind + "else\n"
	switch e := s.Else.(type) {
	case nil:
		out += k(ind + "  ")
	case *ast.BlockStmt:
		out += f.stmts(e.List, ind+"  ", k)
	case *ast.IfStmt:
		out += f.ifStmt(e, ind+"  ", k)
	default:
		f.bad(s.Else, "unsupported else branch")
	}
	return out
}

func (f *fn) switchStmt(s *ast.SwitchStmt, ind string, k cont) string {
	out := ""
	if s.Init != nil {
		out += f.stmts([]ast.Stmt{s.Init}, ind, func(string) string { return "" })
	}
	tag := ""
	if s.Tag != nil {
		f.ity(s.Tag)
		tag = f.tmp("sw")
		out += ind + "let " + tag + " := " + stripParens(f.expr(s.Tag)) + " in\n"
	}
	def := -1
	for i, c := range s.Body.List {
		cc := c.(*ast.CaseClause)
		if cc.List == nil {
			def = i
		}
		for j, st := range cc.Body {
			if b, ok := st.(*ast.BranchStmt); ok && b.Tok == token.FALLTHROUGH && j == len(cc.Body)-1 {
				continue
			}
			ast.Inspect(st, func(x ast.Node) bool {
				if _, isInner := x.(*ast.SwitchStmt); isInner {
					return false // checked when the inner switch is translated
				}
				if b, ok := x.(*ast.BranchStmt); ok {
					f.bad(b, "%s inside a switch", b.Tok)
				}
				return true
			})
		}
	}
	cur := ind
	for i, c := range s.Body.List {
		cc := c.(*ast.CaseClause)
		if cc.List == nil {
			continue
		}
		var tests []string
		for _, ce := range cc.List {
			if tag != "" {
				f.ity(ce)
				tests = append(tests, "("+tag+" =? "+f.expr(ce)+")")
			} else {
				if !isBool(f.tv(ce).Type) {
					f.bad(ce, "case expression is not a boolean")
				}
				tests = append(tests, f.expr(ce))
			}
		}
		test := strings.Join(tests, " || ")
		if len(tests) == 1 {
			test = stripParens(test)
		}
		var labels []string
		for _, ce := range cc.List {
			labels = append(labels, f.src(ce))
		}
		out += cur + "if " + test + " then   (* " + comment("case "+strings.Join(labels, ", ")) + " *)\n"
		out += f.stmts(f.chain(s, i), cur+"  ", k)
		out += cur + "else\n"
	}
	if def >= 0 {
		out += f.stmts(f.chain(s, def), cur+"  ", k)
	} else {
		out += k(cur + "  ")
	}
	return out
}

// for i := a; i < b; i++ { body }: a Fixpoint over the number of iterations that threads the assigned variables
func (f *fn) forStmt(s *ast.ForStmt, ind string) string {
	if hasReturn(s) {
		f.bad(s, "return inside a loop")
	}
	ast.Inspect(s.Body, func(x ast.Node) bool {
		switch b := x.(type) {
		case *ast.BranchStmt:
			if b.Tok != token.FALLTHROUGH {
				f.bad(b, "%s inside a loop", b.Tok)
			}
		case *ast.LabeledStmt:
			f.bad(b, "label inside a loop")
		}
		return true
	})
	init, ok := s.Init.(*ast.AssignStmt)
	if !ok || init.Tok != token.DEFINE || len(init.Lhs) != 1 || len(init.Rhs) != 1 {
		f.bad(s, "loop is not of the form `for i := a; i < b; i++`")
	}
	iv, ok := init.Lhs[0].(*ast.Ident)
	if !ok {
		f.bad(s, "loop is not of the form `for i := a; i < b; i++`")
	}
	iobj, _ := f.p.info.Defs[iv].(*types.Var)
	if iobj == nil {
		f.bad(s, "loop variable is not declared by the loop")
	}
	if _, isInt := intType(iobj.Type()); !isInt {
		f.bad(s, "loop variable of type %s", iobj.Type())
	}
	condE, ok := s.Cond.(*ast.BinaryExpr)
	if !ok || condE.Op != token.LSS {
		f.bad(s, "loop condition is not of the form `i < b`")
	}
	if ci, isId := condE.X.(*ast.Ident); !isId || f.p.info.Uses[ci] != types.Object(iobj) {
		f.bad(s, "loop condition is not of the form `i < b`")
	}
	post, ok := s.Post.(*ast.IncDecStmt)
	if !ok || post.Tok != token.INC {
		f.bad(s, "loop post statement is not `i++`")
	}
	if pi, isId := post.X.(*ast.Ident); !isId || f.p.info.Uses[pi] != types.Object(iobj) {
		f.bad(s, "loop post statement is not `i++`")
	}
	start := f.expr(init.Rhs[0])
	bound := f.expr(condE.Y)
	iname := f.declare(iobj, iv)

	mod := f.assigned(s.Body)
	modSet := map[types.Object]bool{}
	for _, v := range mod {
		modSet[v] = true
	}
	if len(mod) == 0 {
		f.bad(s, "loop body assigns no variable of the function")
	}
	ast.Inspect(s.Body, func(x ast.Node) bool {
		switch a := x.(type) {
		case *ast.AssignStmt:
			for _, l := range a.Lhs {
				if id, isId := l.(*ast.Ident); isId && f.p.info.Uses[id] == types.Object(iobj) {
					f.bad(a, "loop variable assigned in the body")
				}
			}
		case *ast.IncDecStmt:
			if id, isId := a.X.(*ast.Ident); isId && f.p.info.Uses[id] == types.Object(iobj) {
				f.bad(a, "loop variable assigned in the body")
			}
		}
		return true
	})
	ast.Inspect(condE.Y, func(x ast.Node) bool {
		if id, isId := x.(*ast.Ident); isId {
			if modSet[f.p.info.Uses[id]] {
				f.bad(s, "loop bound depends on %s, which the body assigns", id.Name)
			}
			if f.p.info.Uses[id] == types.Object(iobj) {
				f.bad(s, "loop bound depends on the loop variable")
			}
		}
		if _, isCall := x.(*ast.CallExpr); isCall {
			// calls in the bound are re-evaluated by Go on every iteration; they are pure here, so once is enough
		}
		return true
	})
	// free variables of the body: read-only parameters of the loop function
	freeSet := map[*types.Var]bool{}
	ast.Inspect(s.Body, func(x ast.Node) bool {
		if id, isId := x.(*ast.Ident); isId {
			if v, isVar := f.p.info.Uses[id].(*types.Var); isVar && v != iobj && !modSet[v] {
				if v.Pos() >= s.Pos() && v.Pos() < s.End() {
					return true
				}
				if _, isView := f.views[v]; isView {
					f.bad(id, "unsafe pointer used inside a loop it was not created in")
				}
				if _, known := f.names[v]; known {
					freeSet[v] = true
				}
			}
		}
		return true
	})
	var free []*types.Var
	for v := range freeSet {
		free = append(free, v)
	}
	sort.Slice(free, func(i, j int) bool { return free[i].Pos() < free[j].Pos() })

	f.nloop++
	lname := fmt.Sprintf("%s_loop%d", f.coqName, f.nloop)
	fuel := "fuel_"
	var params, args []string
	for _, v := range free {
		t, _ := coqType(v.Type())
		params = append(params, "("+f.names[v]+" : "+t+")")
		args = append(args, f.names[v])
	}
	for _, v := range mod {
		t, _ := coqType(v.Type())
		params = append(params, "("+f.names[v]+" : "+t+")")
		args = append(args, f.names[v])
	}
	pos := f.p.fset.Position(s.Pos())
	saved := f.conds
	f.conds = nil
	body := f.stmts(s.Body.List, "      ", func(ind string) string {
		// i + 1 cannot overflow: i < b <= max of the type
		return ind + lname + " " + fuel + " (" + iname + " + 1) " + strings.Join(args, " ") + "\n"
	})
	loopConds := f.conds
	f.conds = saved
	for _, c := range loopConds {
		f.cond("in every iteration %s <= %s < %s of the loop: %s", f.src(init.Rhs[0]), iv.Name, f.src(condE.Y), c)
	}
	aux := "(* " + comment(fmt.Sprintf("%s  for %s := %s; %s < %s; %s++ { ... }   %s = remaining iterations; returns (%s)",
		filepath.Base(pos.Filename), iv.Name, f.src(init.Rhs[0]), iv.Name, f.src(condE.Y), iv.Name, fuel, strings.Join(namesOf(f, mod), ", "))) + " *)\n"
	aux += "Fixpoint " + lname + " (" + fuel + " : nat) (" + iname + " : Z) " + strings.Join(params, " ") + " {struct " + fuel + "} : " + f.tupleType(mod) + " :=\n"
	aux += "  match " + fuel + " with\n  | O => " + f.tuple(mod) + "\n  | S " + fuel + " =>\n" + strings.TrimRight(body, "\n") + "\n  end.\n"
	f.aux = append(f.aux, aux)

	count := "(Z.to_nat (" + bound + " - " + start + "))"
	if start == "0" {
		count = "(Z.to_nat " + bound + ")"
	}
	q := "'"
	if len(mod) == 1 {
		q = ""
	}
	return ind + "let " + q + f.tuple(mod) + " := " + lname + " " + count + " " + atom(start) + " " + strings.Join(args, " ") + " in\n"
}

// array length of e's type, or -1
func n0(f *fn, e ast.Expr) int64 {
	if _, n, ok := seqType(f.tv(e).Type); ok {
		return n
	}
	return -1
}

func namesOf(f *fn, vs []*types.Var) []string {
	var r []string
	for _, v := range vs {
		r = append(r, f.names[v])
	}
	return r
}

// ---- functions -------------------------------------------------------------------------------------

func findFunc(p *pkgInfo, recv, name string) *ast.FuncDecl {
	for _, file := range p.files {
		for _, d := range file.Decls {
			fd, ok := d.(*ast.FuncDecl)
			if !ok || fd.Name.Name != name || fd.Body == nil {
				continue
			}
			r := ""
			if fd.Recv != nil && len(fd.Recv.List) == 1 {
				switch t := fd.Recv.List[0].Type.(type) {
				case *ast.Ident:
					r = t.Name
				case *ast.StarExpr:
					if id, ok := t.X.(*ast.Ident); ok {
						r = "*" + id.Name
					}
				}
			}
			if r == recv {
				return fd
			}
		}
	}
	return nil
}

func (tr *translator) translate(p *pkgInfo, t target) {
	fd := findFunc(p, t.recv, t.name)
	if fd == nil {
		fail("%s: function %s%s not found", p.dir, map[bool]string{true: "(" + t.recv + ").", false: ""}[t.recv != ""], t.name)
	}
	coq := t.coq
	if coq == "" {
		coq = t.name
		if t.recv != "" {
			coq = t.recv + "_" + t.name
		}
	}
	if tr.coqs[coq] || reserved[coq] {
		fail("name clash for %s in module GC: give it an explicit name in the table", coq)
	}
	f := &fn{tr: tr, p: p, decl: fd, coqName: coq, names: map[types.Object]string{}, used: map[string]bool{"fuel_": true},
		views: map[types.Object]*view{}, written: map[types.Object]bool{}, fresh: map[types.Object]bool{}}
	defer func() {
		if r := recover(); r != nil {
			if u, ok := r.(unsupported); ok {
				fail("%s:%d:%d: in %s: outside the supported subset: %s", u.pos.Filename, u.pos.Line, u.pos.Column, t.name, u.msg)
			}
			panic(r)
		}
	}()
	// which variables are element-assigned (for the aliasing checks)
	ast.Inspect(fd.Body, func(x ast.Node) bool {
		mark := func(e ast.Expr) {
			if ix, ok := e.(*ast.IndexExpr); ok {
				if id, ok := ix.X.(*ast.Ident); ok {
					if v, ok := p.info.Uses[id].(*types.Var); ok {
						f.written[v] = true
					}
				}
			}
		}
		switch s := x.(type) {
		case *ast.AssignStmt:
			for _, l := range s.Lhs {
				mark(l)
			}
		case *ast.IncDecStmt:
			mark(s.X)
		case *ast.GoStmt, *ast.DeferStmt, *ast.SelectStmt, *ast.SendStmt, *ast.RangeStmt, *ast.TypeSwitchStmt, *ast.LabeledStmt, *ast.FuncLit:
			f.bad(x, "unsupported construct %T", x)
		}
		return true
	})
	var params []string
	var pre []string
	addParam := func(id *ast.Ident) {
		obj := p.info.Defs[id]
		ct, ok := coqType(obj.Type())
		if !ok {
			f.bad(id, "parameter of type %s (only integers, bool, arrays and slices of integers)", obj.Type())
		}
		nm := f.declare(obj, id)
		params = append(params, "("+nm+" : "+ct+")")
		if it, isInt := intType(obj.Type()); isInt {
			pre = append(pre, fmt.Sprintf("%s <= %s <= %s", it.min(), nm, it.max()))
		} else if el, n, isSeq := seqType(obj.Type()); isSeq {
			c := fmt.Sprintf("every element of %s in [%s, %s]", nm, el.min(), el.max())
			if n >= 0 {
				c += fmt.Sprintf(", length %s = %d", nm, n)
			} else {
				c += fmt.Sprintf(", length %s <= %s", nm, ity{true, 64}.max())
				if f.written[obj] {
					f.bad(id, "elements of slice parameter %s are assigned (aliasing is not modelled)", id.Name)
				}
			}
			pre = append(pre, c)
		}
	}
	if fd.Recv != nil {
		for _, fl := range fd.Recv.List {
			if len(fl.Names) != 1 {
				f.bad(fl, "unnamed receiver")
			}
			addParam(fl.Names[0])
		}
	}
	for _, fl := range fd.Type.Params.List {
		if len(fl.Names) == 0 {
			f.bad(fl, "unnamed parameter")
		}
		for _, id := range fl.Names {
			addParam(id)
		}
	}
	if fd.Type.Results == nil || len(fd.Type.Results.List) == 0 {
		f.bad(fd, "function without result")
	}
	var rts []string
	for _, fl := range fd.Type.Results.List {
		if len(fl.Names) != 0 {
			f.bad(fl, "named results")
		}
		tvr, ok := p.info.Types[fl.Type]
		if !ok {
			f.bad(fl, "result type unknown")
		}
		ct, ok := coqType(tvr.Type)
		if !ok {
			f.bad(fl, "result of type %s", tvr.Type)
		}
		rts = append(rts, ct)
	}
	body := f.stmts(fd.Body.List, "  ", func(string) string {
		f.bad(fd.Body, "control reaches the end of the function without a return")
		return ""
	})
	pos := p.fset.Position(fd.Pos())
	rel := filepath.ToSlash(filepath.Join(p.dir, filepath.Base(pos.Filename)))
	sig := "func " + fd.Name.Name
	if src, err := os.ReadFile(pos.Filename); err == nil {
		a, b := p.fset.Position(fd.Pos()).Offset, p.fset.Position(fd.Body.Lbrace).Offset
		if a >= 0 && b <= len(src) && a < b {
			sig = comment(strings.Join(strings.Fields(string(src[a:b])), " "))
		}
	}
	// no line numbers in the output: an edit that only moves code leaves the generated file byte-identical
	fmt.Fprintf(&tr.out, "\n(* ---- %s  %s ---- *)\n", rel, sig)
	for _, a := range f.aux {
		tr.out.WriteString(a)
	}
	fmt.Fprintf(&tr.out, "Definition %s %s : %s :=\n%s.\n", coq, strings.Join(params, " "), strings.Join(rts, " * "), strings.TrimRight(body, "\n"))
	if len(pre) > 0 {
		fmt.Fprintf(&tr.out, "(* arguments are Go values: %s *)\n", strings.Join(pre, "; "))
	}
	if len(f.conds) > 0 {
		tr.out.WriteString("(* side conditions, each for the executions that evaluate the expression (Go panics where one fails; the\n   definition above then computes with default values):\n")
		for _, c := range f.conds {
			tr.out.WriteString("     " + comment(c) + "\n")
		}
		tr.out.WriteString("*)\n")
	}
	tr.done[p.dir+"|"+t.recv+"|"+t.name] = coq
	tr.coqs[coq] = true
}

const prelude = `(* GENERATED by tools/go2coq from the repository source -- do not edit.  Regenerated on every run.
   One Gallina definition per translated Go function, inside module GC; the hand-written models are
   proved equal to these in Cxx/GenEquiv.v.  Conventions: a Go integer is the canonical representative of
   the machine value in Z (intW: [-2^(W-1), 2^(W-1)); uintW: [0, 2^W); int/uint are 64 bits), wrap-around
   is explicit ([signed W] / [wrap W] of Lib/Base.v); byte slices and arrays are [list Z]; out-of-range
   indexing (a panic in Go) yields 0 / the unchanged list: see the side conditions under each definition. *)
From GocqlV Require Import Lib.Base.

Module GC.

(* little-endian value of a byte list: what reading memory through a wider integer pointer gives on amd64 *)
Fixpoint le_val (bs : list Z) : Z :=
  match bs with
  | [] => 0
  | b :: rest => b + 256 * le_val rest
  end.

(* reading an intW (sg = true) / uintW (sg = false) through an unsafe pointer to data[off] on a little-endian machine *)
Definition le_load (sg : bool) (w : Z) (data : list Z) (off : Z) : Z :=
  let v := le_val (firstn (Z.to_nat (w / 8)) (skipn (Z.to_nat off) data)) in
  if sg then signed w v else wrap w v.

(* copy(dst[off:], src): min(len(dst)-off, len(src)) elements are copied *)
Definition copy_at (dst : list Z) (off : nat) (src : list Z) : list Z :=
  let n := Nat.min (List.length dst - off) (List.length src) in
  firstn off dst ++ firstn n src ++ skipn (off + n) dst.
`

func main() {
	repo := "/repo"
	outPath := ""
	if len(os.Args) > 1 {
		repo = os.Args[1]
	}
	if len(os.Args) > 2 {
		outPath = os.Args[2]
	}
	tr := &translator{done: map[string]string{}, coqs: map[string]bool{}}
	tr.out.WriteString(prelude)
	pkgs := map[string]*pkgInfo{}
	for _, t := range targets {
		p, ok := pkgs[t.dir]
		if !ok {
			var err error
			p, err = load(repo, t.dir)
			if err != nil {
				fail("load %s: %v", t.dir, err)
			}
			pkgs[t.dir] = p
		}
		tr.translate(p, t)
	}
	tr.out.WriteString("\nEnd GC.\n")
	res := tr.out.String()
	if outPath == "" {
		fmt.Print(res)
		return
	}
	if old, err := os.ReadFile(outPath); err == nil && string(old) == res {
		return
	}
	if err := os.WriteFile(outPath, []byte(res), 0o644); err != nil {
		fail("%v", err)
	}
}
