#!/bin/bash
# commit_fix.sh Cxx finding-id  -- stages exactly the finding's patch (work/fixes/<id>.diff) in /repo and commits it as one "fix:" commit,
# then substitutes the commit id for PENDING in tools/props/Cxx.findings.json
set -e
PID=$1; FID=$2
cd /repo
git apply --cached /verif/work/fixes/$FID.diff
git commit -qm "$(cat /verif/work/fixes/$FID.msg)"
h=$(git rev-parse --short HEAD)
# --cached only stages: bring the working tree copies of the patched files to the committed state
git checkout -- $(git show --name-only --format= HEAD)
python3 - $PID $FID $h <<'PY'
import json,sys,glob
pid,fid,h=sys.argv[1:4]
for p in glob.glob('/verif/tools/props/C*.findings.json'):
    L=json.load(open(p)); ch=False
    for e in L:
        if e['id']==fid and 'PENDING' in e.get('status',''):
            e['status']=e['status'].replace('PENDING',h); ch=True
    if ch: json.dump(L,open(p,'w'),indent=1)
PY
mkdir -p /verif/fixes && cp /verif/work/fixes/$FID.diff /verif/work/fixes/$FID.msg /verif/fixes/ 2>/dev/null || true
echo "$FID -> $h"
