#!/usr/bin/env python3
"""check.py -- the one entry point behind every MANIFEST.json command.

  python3 tools/check.py Cxx --tier quick|thorough     run the check for property Cxx
  python3 tools/check.py Cxx --replay FILE             re-run one recorded case
  python3 tools/check.py --build-harness-all           (setup) build every harness program

Steps for a property (see DESIGN.md section 2.2):
  1. regenerate coq/theories/Gen/Consts.v from /repo (tools/constgen) and (re)build the Coq files the
     property depends on (full .vo build, incremental), under a lock so concurrent checks do not collide;
  2. obligation audit: every `Theorem` of Cxx/Props.v must be compiled and `Print Assumptions` must be
     closed (or within the allowed standard-library axioms); grep gate for Admitted/Axiom/... ;
  3. build the harness program for Cxx against /repo's working tree with -tags verif and run it:
     it produces correspondence cases (input + implementation output, as Coq terms) and runs the
     property monitors on the implementation's own outputs;
  4. compile the case shards with coqc: the model is evaluated by vm_compute on every case and the
     list of mismatching case indices is printed;
  5. classify: monitor violations are filtered through known_findings.json; a correspondence mismatch
     or a broken proof triggers the failing-input search; VIOLATION lines are printed accordingly;
  6. evidence/Cxx.json is rewritten.
Exit status: 0 = held on everything explored; 1 = violation (line `VIOLATION property=Cxx replay=...`).
"""
import fcntl
import glob
import hashlib
import json
import os
import re
import subprocess
import sys
import time

V = os.path.dirname(os.path.dirname(os.path.abspath(__file__)))
REPO = os.environ.get("VERIF_REPO", "/repo")
COQ = os.path.join(V, "coq")
TH = os.path.join(COQ, "theories")
WORK = os.path.join(V, "work")
ENV = dict(os.environ, GOFLAGS="-mod=mod", GOPROXY="off", GOSUMDB="off", GOTOOLCHAIN="local", CGO_ENABLED="0",
           GOCACHE=os.environ.get("GOCACHE", os.path.join(os.path.expanduser("~"), ".cache", "go-build")))
ALLOWED_AXIOMS = {
    "functional_extensionality_dep", "proof_irrelevance", "classic", "JMeq_eq", "eq_rect_eq",
    "FunctionalExtensionality.functional_extensionality_dep", "Eqdep.Eq_rect_eq.eq_rect_eq",
    "Classical_Prop.classic", "ProofIrrelevance.proof_irrelevance", "JMeq.JMeq_eq",
}
FORBIDDEN = re.compile(r"\b(Admitted|admit|Axiom|Axioms|Parameter|Parameters|Conjecture|Conjectures|Admit Obligations|"
                       r"Unset Guard Checking|Unset Positivity Checking|Unset Universe Checking|bypass_check|type-in-type|"
                       r"impredicative-set|native_compute)\b")


def sh(cmd, cwd=None, timeout=1800, env=None, stdin=None):
    """run a command, return (rc, output)"""
    try:
        p = subprocess.run(cmd, cwd=cwd, env=env or ENV, stdout=subprocess.PIPE, stderr=subprocess.STDOUT,
                           timeout=timeout, shell=isinstance(cmd, str), input=stdin)
        return p.returncode, p.stdout.decode("utf-8", "replace")
    except subprocess.TimeoutExpired as e:
        return 124, (e.stdout or b"").decode("utf-8", "replace") + "\nTIMEOUT after %ss" % timeout


def load_prop(pid):
    with open(os.path.join(V, "tools", "props", pid + ".json")) as f:
        return json.load(f)


def all_props():
    return sorted(os.path.basename(p)[:-5] for p in glob.glob(os.path.join(V, "tools", "props", "C*.json")))


class Lock:
    def __init__(self, name, shared=False):
        os.makedirs(WORK, exist_ok=True)
        self.path = os.path.join(WORK, name)
        self.shared = shared

    def __enter__(self):
        self.f = open(self.path, "a")
        fcntl.flock(self.f, fcntl.LOCK_SH if self.shared else fcntl.LOCK_EX)
        return self

    def __exit__(self, *a):
        fcntl.flock(self.f, fcntl.LOCK_UN)
        self.f.close()


# ---------------------------------------------------------------------------------------------
# step 1: constants + Coq build
def coq_build(cfg, log):
    """returns (ok, message).  Builds exactly the .vo targets the property needs."""
    with Lock("coq.lock"):
        rc, out = sh(["make", "-s", "-C", V, "consts", "coqproject", "REPO=" + REPO], timeout=600)
        log.append(out)
        if rc != 0:
            return False, "constgen/coqproject failed:\n" + out[-3000:]
        targets = []
        for d in cfg["coq_dirs"]:
            for f in sorted(glob.glob(os.path.join(TH, d, "*.v"))):
                targets.append(os.path.relpath(f, COQ)[:-2] + ".vo")
        rc, out = sh(["make", "-f", "Makefile.coq", "-k", "-j16"] + targets, cwd=COQ, timeout=3000)
        log.append(out)
        if rc != 0:
            return False, "coq build failed:\n" + out[-4000:]
    return True, ""


def strip_comments(src):
    out, depth, i = [], 0, 0
    while i < len(src):
        if src.startswith("(*", i):
            depth += 1
            i += 2
        elif src.startswith("*)", i) and depth > 0:
            depth -= 1
            i += 2
        else:
            if depth == 0:
                out.append(src[i])
            i += 1
    return "".join(out)


# step 2: obligation audit
def audit(cfg, pid, wdir, log):
    """returns dict(obligations, discharged, theorems, axioms, problems)"""
    problems = []
    # grep gate over every file the property depends on
    files = []
    for d in cfg["coq_dirs"]:
        files += sorted(glob.glob(os.path.join(TH, d, "*.v")))
    for f in files:
        src = strip_comments(open(f).read())
        m = FORBIDDEN.search(src)
        if m:
            problems.append("forbidden construct %r in %s" % (m.group(0), os.path.relpath(f, V)))
    props_v = os.path.join(TH, pid, "Props.v")
    src = strip_comments(open(props_v).read())
    thms = re.findall(r"^\s*Theorem\s+([A-Za-z0-9_']+)", src, re.M)
    if not thms:
        problems.append("no Theorem in %s" % props_v)
    audit_v = os.path.join(wdir, "Audit.v")
    with open(audit_v, "w") as f:
        f.write("From GocqlV Require Import %s.Props.\n" % pid)
        for t in thms:
            f.write('Goal True. idtac "@@THEOREM %s". exact I. Qed.\nCheck %s.Props.%s.\nPrint Assumptions %s.Props.%s.\n' % (t, pid, t, pid, t))
    rc, out = sh(["coqc", "-Q", TH, "GocqlV", audit_v], cwd=wdir, timeout=600)
    log.append(out)
    discharged, axioms, statements = 0, {}, {}
    if rc != 0:
        problems.append("audit file did not compile: " + out[-1500:])
    else:
        blocks = out.split("@@THEOREM ")[1:]
        for b in blocks:
            name, _, rest = b.partition("\n")
            name = name.strip()
            stmt, _, assum = rest.partition("Closed under the global context")
            if _:
                axioms[name] = []
                discharged += 1
                statements[name] = " ".join(stmt.split())[:400]
            else:
                m = re.search(r"Axioms:\s*(.*)", rest, re.S)
                ax = re.findall(r"^([A-Za-z0-9_.']+)\s*:", m.group(1) if m else "", re.M)
                axioms[name] = ax
                bad = [a for a in ax if a not in ALLOWED_AXIOMS and a.split(".")[-1] not in ALLOWED_AXIOMS]
                if bad or not ax:
                    problems.append("theorem %s depends on %s" % (name, bad or "unparsed assumptions"))
                else:
                    discharged += 1
                statements[name] = " ".join(rest.split("Axioms:")[0].split())[:400]
    return dict(obligations=len(thms), discharged=discharged, theorems=thms, axioms=axioms, problems=problems,
                statements=statements)


# step 3: harness
def harness_dir():
    return os.path.join(V, "harness")


def build_harness(cfg, pid, log):
    with Lock("go.lock"):
        hd = harness_dir()
        # go.sum: the replaced module's sums (needed offline)
        try:
            src = open(os.path.join(REPO, "go.sum")).read()
            extra = ""
            p = os.path.join(hd, "go.sum.extra")
            if os.path.exists(p):
                extra = open(p).read()
            cur = open(os.path.join(hd, "go.sum")).read() if os.path.exists(os.path.join(hd, "go.sum")) else ""
            if cur != src + extra:
                open(os.path.join(hd, "go.sum"), "w").write(src + extra)
        except OSError:
            pass
        os.makedirs(os.path.join(WORK, "bin"), exist_ok=True)
        exe = os.path.join(WORK, "bin", pid.lower())
        modargs = []
        if os.path.realpath(REPO) != "/repo":
            # a scratch copy of the repository (VERIF_REPO): same module, different replace target
            md = os.path.join(WORK, "gomod-" + hashlib.sha1(REPO.encode()).hexdigest()[:10])
            os.makedirs(md, exist_ok=True)
            gm = open(os.path.join(hd, "go.mod")).read().replace("=> /repo", "=> " + os.path.realpath(REPO))
            open(os.path.join(md, "go.mod"), "w").write(gm)
            open(os.path.join(md, "go.sum"), "w").write(open(os.path.join(hd, "go.sum")).read())
            modargs = ["-modfile=" + os.path.join(md, "go.mod")]
            exe += "-scratch"
        rc, out = sh(["go", "build"] + modargs + ["-tags", "verif", "-o", exe, "./cmd/" + pid.lower()], cwd=hd, timeout=900)
        log.append(out)
        if rc != 0:
            return None, out
    return exe, ""


def run_harness(exe, pid, wdir, seed, tier, extra_args, log, timeout):
    for f in glob.glob(os.path.join(wdir, "Cases_*.v")) + glob.glob(os.path.join(wdir, "Cases_*.out")):
        os.remove(f)
    for f in ("impl.json", "cases.txt"):
        if os.path.exists(os.path.join(wdir, f)):
            os.remove(os.path.join(wdir, f))
    rc, out = sh([exe, "-out", wdir, "-seed", str(seed), "-tier", tier] + extra_args, cwd=wdir, timeout=timeout)
    log.append(out)
    if rc != 0 or not os.path.exists(os.path.join(wdir, "impl.json")):
        return None, "harness exited %d:\n%s" % (rc, out[-3000:])
    return json.load(open(os.path.join(wdir, "impl.json"))), ""


# step 4: model evaluation inside Coq
def run_cases(wdir, log, timeout):
    """returns (mismatch_indices, error)"""
    shards = sorted(glob.glob(os.path.join(wdir, "Cases_*.v")))
    procs = []
    mism, errs = [], []
    maxpar = 12
    pending = list(shards)
    running = []
    t_end = time.time() + timeout
    while pending or running:
        while pending and len(running) < maxpar:
            f = pending.pop(0)
            p = subprocess.Popen(["coqc", "-Q", TH, "GocqlV", f], cwd=wdir, env=ENV, stdout=subprocess.PIPE, stderr=subprocess.STDOUT)
            running.append((f, p))
        still = []
        for f, p in running:
            if p.poll() is None:
                if time.time() > t_end:
                    p.kill()
                    errs.append("timeout evaluating %s" % os.path.basename(f))
                else:
                    still.append((f, p))
                continue
            out = p.stdout.read().decode("utf-8", "replace")
            flat = " ".join(out.split())
            m = re.search(r"M = \[(.*?)\] : list N", flat)
            if p.returncode != 0 or not m:
                errs.append("%s: %s" % (os.path.basename(f), out[-1500:]))
            else:
                body = m.group(1).strip()
                if body:
                    mism += [int(x.replace("%N", "").strip()) for x in body.split(";")]
        running = still
        if running:
            time.sleep(0.05)
    for ext in ("vo", "vok", "vos", "glob"):
        for f in glob.glob(os.path.join(wdir, "Cases_*." + ext)) + glob.glob(os.path.join(wdir, ".Cases_*.aux")):
            try:
                os.remove(f)
            except OSError:
                pass
    return sorted(mism), errs


def case_term(wdir, idx):
    try:
        for line in open(os.path.join(wdir, "cases.txt")):
            i, _, t = line.rstrip("\n").partition("\t")
            if int(i) == idx:
                return t
    except OSError:
        pass
    return None


def load_findings(pid):
    p = os.path.join(V, "known_findings.json")
    if not os.path.exists(p):
        return {}
    d = json.load(open(p))
    return {e["id"]: e for e in d.get("findings", []) if e.get("property") == pid and e.get("status") == "open"}


def write_replay(pid, seed, n, data):
    os.makedirs(os.path.join(V, "replays"), exist_ok=True)
    path = os.path.join(V, "replays", "%s-%s-%d.json" % (pid, seed, n))
    with open(path, "w") as f:
        json.dump(data, f, indent=1)
    return path


def main():
    args = sys.argv[1:]
    if args and args[0] == "--build-harness-all":
        bad = 0
        for pid in all_props():
            exe, err = build_harness(load_prop(pid), pid, [])
            if not exe:
                print("harness build failed for %s:\n%s" % (pid, err[-2000:]))
                bad = 1
        sys.exit(bad)
    if not args:
        print(__doc__)
        sys.exit(2)
    pid = args[0]
    tier = os.environ.get("VERIF_TIER", "quick")
    replay = None
    i = 1
    while i < len(args):
        if args[i] == "--tier":
            tier = args[i + 1]
            i += 2
        elif args[i] == "--replay":
            replay = args[i + 1]
            i += 2
        else:
            i += 1
    if tier not in ("quick", "thorough"):
        tier = "quick"
    try:
        seed = int(os.environ.get("VERIF_SEED", "1"))
    except ValueError:
        seed = 1
    t0 = time.time()
    cfg = load_prop(pid)
    wdir = os.path.join(WORK, pid)
    os.makedirs(wdir, exist_ok=True)
    log = []
    violations = []     # (replay_data, suffix)
    known_seen = {}
    notes = []

    only = -1
    if replay:
        rd = json.load(open(replay))
        seed, tier = rd.get("seed", seed), rd.get("tier", tier)
        only = rd.get("case", -1) if rd.get("case") is not None else -1

    # 1. build
    ok, msg = coq_build(cfg, log)
    proof_broken = None
    au = dict(obligations=0, discharged=0, theorems=[], axioms={}, problems=[], statements={})
    if not ok:
        proof_broken = msg
        # count what is there
        try:
            src = strip_comments(open(os.path.join(TH, pid, "Props.v")).read())
            au["theorems"] = re.findall(r"^\s*Theorem\s+([A-Za-z0-9_']+)", src, re.M)
            au["obligations"] = len(au["theorems"])
        except OSError:
            pass
    else:
        with Lock("coq.lock", shared=True):
            au = audit(cfg, pid, wdir, log)
        if any("inconsistent assumptions" in x for x in au["problems"]):
            ok, msg = coq_build(cfg, log)
            with Lock("coq.lock", shared=True):
                au = audit(cfg, pid, wdir, log)
        if au["problems"]:
            proof_broken = "; ".join(au["problems"])

    # 3. harness
    exe, err = build_harness(cfg, pid, log)
    impl = None
    mism, cerrs = [], []
    harness_broken = None
    if not exe:
        harness_broken = "harness does not build against the current tree:\n" + err[-3000:]
    else:
        extra = []
        if only >= 0:
            extra = ["-only", str(only)]
        impl, err = run_harness(exe, pid, wdir, seed, tier, extra, log, cfg.get("harness_timeout", {}).get(tier, 900))
        if impl is None:
            harness_broken = err
        elif proof_broken is None or os.path.exists(os.path.join(TH, pid, "Corr.vo")):
            # shared lock: no concurrent check may rebuild .vo files while the shards are being evaluated
            with Lock("coq.lock", shared=True):
                mism, cerrs = run_cases(wdir, log, cfg.get("cases_timeout", {}).get(tier, 1200))
            if any("inconsistent assumptions" in e for e in cerrs):
                # a concurrent rebuild slipped in between build and evaluation: rebuild and evaluate once more
                ok2, _ = coq_build(cfg, log)
                if ok2:
                    with Lock("coq.lock", shared=True):
                        mism, cerrs = run_cases(wdir, log, cfg.get("cases_timeout", {}).get(tier, 1200))

    # thorough tier: independent re-check of the compiled theorems with coqchk (axiom summary recorded)
    coqchk_info = None
    if tier == "thorough" and not replay and proof_broken is None:
        with Lock("coq.lock", shared=True):
            rc, out = sh(["coqchk", "-silent", "-o", "-Q", "theories", "GocqlV", "GocqlV.%s.Props" % pid], cwd=COQ,
                         timeout=cfg.get("coqchk_timeout", 2400))
        log.append(out)
        m = re.search(r"\* Axioms:(.*?)\* Constants/Inductives relying on type-in-type:(.*?)\* Constants/Inductives relying on unsafe \(co\)fixpoints:(.*?)\* Inductives whose positivity is assumed:(.*)", out, re.S)
        if rc == 0 and m:
            vals = [" ".join(x.split()) for x in m.groups()]
            coqchk_info = dict(ok=True, axioms=vals[0], type_in_type=vals[1], unsafe_fixpoints=vals[2], assumed_positivity=vals[3])
            ax = [a for a in re.findall(r"[A-Za-z0-9_.']+", vals[0]) if a != "none"]
            bad = [a for a in ax if a.split(".")[-1] not in ALLOWED_AXIOMS and a not in ALLOWED_AXIOMS]
            if bad or any(v != "<none>" for v in vals[1:]):
                proof_broken = "coqchk reports: axioms=%s type_in_type=%s unsafe_fix=%s positivity=%s" % tuple(vals)
        elif rc == 124:
            coqchk_info = dict(ok=None, note="coqchk timed out; not counted")
        else:
            coqchk_info = dict(ok=False, note=out[-800:])
            proof_broken = "coqchk failed: " + out[-800:]

    findings = load_findings(pid)
    nrep = 0
    suppressed = []
    if not replay:
        for f in glob.glob(os.path.join(V, "replays", pid + "-*.json")):
            os.remove(f)

    per_kind = {}

    def add_violation(data, suffix=""):
        nonlocal nrep
        k = data.get("monitor") or data.get("kind")
        per_kind[k] = per_kind.get(k, 0) + 1
        if per_kind[k] > 2 or nrep >= 10:     # one or two replays per kind of failure are enough
            suppressed.append(k)
            return
        data.update(property=pid, seed=seed, tier=tier)
        path = write_replay(pid, seed, nrep, data)
        nrep += 1
        violations.append((path, suffix))

    # 5a. monitor violations on the implementation's outputs
    monitor_cases = set()
    if impl:
        for v in impl.get("violations", []):
            if replay and only >= 0 and v.get("case") != only:
                continue
            fid = v.get("finding") or ""
            if fid and fid in findings:
                known_seen.setdefault(fid, []).append(v)
                continue
            monitor_cases.add(v.get("case"))
            add_violation(dict(kind="monitor", monitor=v.get("kind"), case=v.get("case"), detail=v.get("detail"),
                               input=v.get("input"), case_term=case_term(wdir, v.get("case", -1))))

    # 5b. correspondence mismatches / broken proof / broken harness -> failing-input search
    need_search = []
    for idx in mism:
        if idx in monitor_cases:
            continue  # already reported with a concrete failing input
        need_search.append(("correspondence", "model and implementation differ on case %d" % idx,
                            dict(kind="correspondence", case=idx, case_term=case_term(wdir, idx),
                                 correspondence="%s.Corr.check" % pid)))
    for e in cerrs:
        need_search.append(("correspondence", "case shard did not evaluate", dict(kind="correspondence-error", detail=e)))
    if proof_broken:
        need_search.append(("proof", proof_broken, dict(kind="proof", detail=proof_broken[-3000:],
                                                        theorems=au.get("theorems"))))
    if harness_broken:
        need_search.append(("harness", harness_broken, dict(kind="harness", detail=harness_broken[-3000:])))

    if need_search and not replay:
        found = False
        if exe and not violations:
            sdir = os.path.join(wdir, "search")
            os.makedirs(sdir, exist_ok=True)
            simpl, err = run_harness(exe, pid, sdir, seed + 7919, tier, ["-search"], log, cfg.get("search_timeout", 900))
            if simpl:
                for v in simpl.get("violations", []):
                    fid = v.get("finding") or ""
                    if fid and fid in findings:
                        continue
                    found = True
                    add_violation(dict(kind="monitor", monitor=v.get("kind"), case=v.get("case"), detail=v.get("detail"),
                                       input=v.get("input"), search=True, seed_search=seed + 7919,
                                       case_term=case_term(sdir, v.get("case", -1)), triggered_by=[n[1][:500] for n in need_search]))
                    break
        if not found and not violations:
            for kind, msgtxt, data in need_search[:5]:
                data["message"] = msgtxt[-3000:]
                add_violation(data, " no-failing-input-found")
        elif not found:
            notes.append("correspondence/proof problems accompany the reported violations: " +
                         "; ".join(n[1][:200] for n in need_search[:5]))
    elif need_search and replay:
        for kind, msgtxt, data in need_search[:5]:
            data["message"] = msgtxt[-3000:]
            add_violation(data, " no-failing-input-found")

    # 6. evidence
    wall = time.time() - t0
    for fid, vs in sorted(known_seen.items()):
        print("KNOWN-FINDING: property=%s %s -- %s (%d case(s) this run)" % (pid, fid, findings[fid].get("description", ""), len(vs)))
    cov = dict(
        obligations=au["obligations"], discharged=au["discharged"],
        checker_cmd="make -f Makefile.coq (coqc 8.16.1, full .vo build) + coqc Audit.v (Print Assumptions) + coqc Cases_*.v (vm_compute)" + (
            " + coqchk -silent -o GocqlV.%s.Props" % pid if tier == "thorough" else ""),
        trusted_base=cfg.get("trusted_base", []) + ["axioms reported by Print Assumptions: %s" % (
            sorted({a for l in au["axioms"].values() for a in l}) or "none (all theorems closed under the global context)")],
        theorems=au["theorems"], theorem_statements=au.get("statements", {}),
        evaluations=(impl or {}).get("evaluations", 0),
        distinct_nontrivial=(impl or {}).get("distinct_nontrivial", 0),
        rule=(impl or {}).get("rule", ""),
        samples=(impl or {}).get("samples", []) or [{"theorem": t} for t in au["theorems"][:5]],
        traces_validated_against_impl=(impl or {}).get("evaluations", 0) - len(mism) if impl else 0,
        generator_distribution=(impl or {}).get("kinds", {}),
        correspondence_mismatches=len(mism),
        known_findings_seen={k: len(v) for k, v in known_seen.items()},
        extra=(impl or {}).get("extra", {}),
        exhaustive=bool((impl or {}).get("extra", {}).get("exhaustive", False)),
        notes=notes, further_violations_not_listed=len(suppressed), coqchk=coqchk_info,
    )
    ev = dict(property_id=pid, tier=tier, seed=seed, level="proof", coverage=cov,
              assumptions=cfg.get("assumptions", []), wall_s=round(wall, 2), violations=len(violations))
    os.makedirs(os.path.join(V, "evidence"), exist_ok=True)
    if not replay:
        with open(os.path.join(V, "evidence", pid + ".json"), "w") as f:
            json.dump(ev, f, indent=1, sort_keys=True)
    with open(os.path.join(wdir, "check.log"), "w") as f:
        f.write("\n".join(log))
    for path, suffix in violations:
        print("VIOLATION property=%s replay=%s%s" % (pid, path, suffix))
    if violations:
        sys.exit(1)
    print("OK property=%s tier=%s seed=%d obligations=%d discharged=%d cases=%d mismatches=0 wall=%.1fs" % (
        pid, tier, seed, au["obligations"], au["discharged"], cov["evaluations"], wall))
    sys.exit(0)


if __name__ == "__main__":
    main()
