#!/usr/bin/env python3
"""mkmutant.py Cxx tag [variant hint...]  -- creates a scratch worktree /tmp/mut/Cxx-tag of /repo and writes TASK.md
(the property text only + the mutant instructions) into it.  Prints the worktree path."""
import json, os, subprocess, sys
pid, tag = sys.argv[1], sys.argv[2]
variant = " ".join(sys.argv[3:])
wt = "/tmp/mut/%s-%s" % (pid, tag)
os.makedirs("/tmp/mut", exist_ok=True)
if not os.path.exists(wt):
    subprocess.check_call(["git", "-C", "/repo", "worktree", "add", "--detach", wt, "HEAD"], stdout=subprocess.DEVNULL)
props = {json.loads(l)["id"]: json.loads(l) for l in open("/verif/properties.jsonl")}
p = props[pid]
text = "Title: %s\n\nStatement: %s\n\nIt must hold: %s" % (p["title"], p["statement"], p["quantifier"]["text"])
tmpl = open("/verif/work/prompts/mutant_template.txt").read()
import glob
prev = []
for mp in sorted(glob.glob("/verif/seeded/%s-*/meta.json" % pid)):
    prev.append("- " + json.load(open(mp))["needs_to_manifest"])
tmpl = tmpl.replace("{PREV}", "\n" + "\n".join(prev) if prev else "(none)")
open(os.path.join(wt, "TASK.md"), "w").write(tmpl.replace("{WT}", wt).replace("{PROP}", text).replace("{VARIANT}", variant))
print(wt)
