#!/usr/bin/env python3
"""Regenerates MANIFEST.json from tools/props/*.json (claimed) and tools/not_applicable.json."""
import glob, json, os
V = os.path.dirname(os.path.dirname(os.path.abspath(__file__)))
ids = [json.loads(l)["id"] for l in open(os.path.join(V, "properties.jsonl"))]
props = {os.path.basename(p)[:-5]: json.load(open(p)) for p in glob.glob(os.path.join(V, "tools", "props", "C*.json"))}
ready = set(open(os.path.join(V, "tools", "ready.txt")).read().split())   # properties the orchestrator has accepted
props = {k: v for k, v in props.items() if k in ready}
na_path = os.path.join(V, "tools", "not_applicable.json")
na = json.load(open(na_path)) if os.path.exists(na_path) else {}
hooks = json.load(open(os.path.join(V, "tools", "hooks.json")))
checks = []
for pid in ids:
    if pid not in props:
        continue
    c = props[pid]
    checks.append({
        "property_id": pid,
        "quick_cmd": "python3 tools/check.py %s --tier quick" % pid,
        "thorough_cmd": "python3 tools/check.py %s --tier thorough" % pid,
        "evidence_file": "evidence/%s.json" % pid,
        "replay_cmd_template": "python3 tools/check.py %s --replay {path}" % pid,
        "engine": "coq-model+correspondence",
        "level_claimed": {"category": "proof", "text": c["level_text"], "design_ref": c.get("design_ref", "DESIGN.md")},
        "level_note": c["level_note"],
        "technique": c["technique"],
    })
m = {
    "version": 1,
    "setup_cmd": "make -C /verif setup",
    "hooks": hooks,
    "engines": [{"name": "coq-model+correspondence", "path": "tools/check.py",
                 "serves_properties": [c["property_id"] for c in checks],
                 "kind_free_text": "Coq 8.16 theorems over hand-written executable Gallina models (coq/theories/Cxx), constants regenerated from /repo by tools/constgen, models evaluated with vm_compute on cases produced by Go harness programs (harness/cmd/cxx) that run the real implementation"}],
    "checks": checks,
    "notes": "See DESIGN.md. Every check rebuilds the Coq development incrementally (full .vo), audits Print Assumptions for each theorem of Cxx/Props.v, rebuilds the harness from /repo's working tree with -tags verif, and compares model and implementation on generated cases.",
    "not_applicable": [{"property_id": pid, "reason": na.get(pid, "no check has been built for this property yet in this development; it is not claimed")} for pid in ids if pid not in props],
}
json.dump(m, open(os.path.join(V, "MANIFEST.json"), "w"), indent=1)
print("claimed:", [c["property_id"] for c in checks])
