#!/bin/bash
# commit_prop.sh Cxx [Cyy ...] -- commits the finished property's files in /verif and its add-only shim(s) in /repo (separate small commit),
# records the /repo commit in tools/hooks.json, regenerates MANIFEST.json and known_findings.json.
set -e
cd /verif
for PID in "$@"; do
  low=$(echo $PID | tr A-Z a-z)
  files=$(cd /repo && git ls-files --others --exclude-standard | grep -i "verif" | grep -i "$low" || true)
  if [ -n "$files" ]; then
    (cd /repo && git add $files && git commit -qm "verif: add-only shim for $PID (build tag verif)" && git rev-parse --short HEAD) > /tmp/commit_$PID.txt
    h=$(tail -1 /tmp/commit_$PID.txt)
    python3 - "$h" <<'PY'
import json,sys
p='/verif/tools/hooks.json'; d=json.load(open(p))
if sys.argv[1] not in d['source_commits']: d['source_commits'].append(sys.argv[1])
json.dump(d,open(p,'w'),indent=1)
PY
    echo "/repo commit $h for $PID: $files"
  fi
done
python3 tools/mkfindings.py
for P in "$@"; do grep -qw $P tools/ready.txt || echo -n " $P" >> tools/ready.txt; done; python3 tools/mkmanifest.py
for PID in "$@"; do
  low=$(echo $PID | tr A-Z a-z)
  git add coq/theories/$PID harness/cmd/$low tools/props/$PID.json evidence/$PID.json 2>/dev/null || true
  [ -f tools/props/$PID.findings.json ] && git add tools/props/$PID.findings.json
done
git add MANIFEST.json known_findings.json tools/hooks.json harness/go.mod harness/go.sum.extra 2>/dev/null || true
git commit -qm "Add $*: model, theorems, correspondence harness, plugin config" && echo "verif committed"
