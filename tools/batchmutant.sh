#!/bin/bash
# batchmutant.sh "C07 a" "C10 b" ... : confirm + try each, compact summary in work/mut_<id>.log
ALL=("$@"); for m in "${ALL[@]}"; do set -- $m; P=$1; T=$2
  ( echo "##### $P-$T"; /verif/tools/confirmmutant.sh $P $T 2>&1 | grep -v '^ok\|^$' | cut -c1-260 | tail -9
    /verif/tools/trymutant.sh $P /tmp/mut/$P-$T/patch.diff 2>&1 | grep -v '^ "\(input\|property\|seed\|tier\)"' | cut -c1-330 | tail -12 ) > /verif/work/mut_$P-$T.log 2>&1 &
done; wait
for m in "${ALL[@]}"; do set -- $m; cat /verif/work/mut_$1-$2.log; done
