// constgen: regenerates coq/theories/Gen/Consts.v from /repo's current source.
// It type-checks package gocql and the internal packages with go/types (imports are stubbed: only
// constant expressions are needed), prints every package-level integer/string constant as a Coq
// definition, and evaluates a short list of composite literals / initialisers the models need.
package main

import (
	"fmt"
	"go/ast"
	"go/build"
	"go/constant"
	"go/parser"
	"go/token"
	"go/types"
	"os"
	"path/filepath"
	"sort"
	"strconv"
	"strings"
	"time"
)

type fakeImporter struct{ pkgs map[string]*types.Package }

func (f *fakeImporter) Import(path string) (*types.Package, error) {
	if p, ok := f.pkgs[path]; ok {
		return p, nil
	}
	name := filepath.Base(path)
	if strings.HasSuffix(path, ".v0") {
		name = strings.TrimSuffix(name, ".v0")
	}
	if i := strings.LastIndex(name, "-"); i >= 0 {
		name = name[i+1:]
	}
	p := types.NewPackage(path, name)
	p.MarkComplete()
	f.pkgs[path] = p
	return p, nil
}

var reserved = map[string]bool{"Set": true, "Type": true, "Prop": true, "SProp": true, "end": true, "in": true,
	"as": true, "at": true, "fun": true, "forall": true, "exists": true, "let": true, "match": true, "with": true,
	"if": true, "then": true, "else": true, "return": true, "where": true, "fix": true, "cofix": true, "for": true,
	"using": true, "list": true, "nat": true, "bool": true, "true": true, "false": true, "Some": true, "None": true,
	"nil": true, "cons": true, "bytes": true, "length": true, "map": true, "app": true, "Z": true, "N": true,
	"version": true, "variant": true, "clock": true, "node": true, "timestamp": true}

func coqName(prefix, n string) string {
	n = prefix + n
	if reserved[n] {
		n += "_"
	}
	return n
}

func coqString(s string) string {
	var b strings.Builder
	b.WriteString("[")
	for i := 0; i < len(s); i++ {
		if i > 0 {
			b.WriteString("; ")
		}
		b.WriteString(strconv.Itoa(int(s[i])))
	}
	b.WriteString("]")
	return b.String()
}

type pkgInfo struct {
	fset  *token.FileSet
	files []*ast.File
	pkg   *types.Package
	info  *types.Info
}

func load(dir string) (*pkgInfo, error) {
	ctx := build.Default
	ctx.CgoEnabled = false
	bp, err := ctx.ImportDir(dir, 0)
	if err != nil {
		return nil, err
	}
	fset := token.NewFileSet()
	var files []*ast.File
	for _, f := range bp.GoFiles {
		if strings.HasPrefix(f, "verif_") {
			continue // the verification hooks/shims themselves are not part of the product
		}
		af, err := parser.ParseFile(fset, filepath.Join(dir, f), nil, 0)
		if err != nil {
			return nil, err
		}
		files = append(files, af)
	}
	conf := types.Config{Importer: &fakeImporter{pkgs: map[string]*types.Package{}}, Error: func(error) {}, FakeImportC: true}
	info := &types.Info{Types: map[ast.Expr]types.TypeAndValue{}}
	pkg, _ := conf.Check(bp.ImportPath, fset, files, info)
	if pkg == nil {
		return nil, fmt.Errorf("type check of %s produced no package", dir)
	}
	return &pkgInfo{fset, files, pkg, info}, nil
}

func emitConsts(out *strings.Builder, p *pkgInfo, prefix string) int {
	scope := p.pkg.Scope()
	names := scope.Names()
	sort.Strings(names)
	n := 0
	for _, name := range names {
		c, ok := scope.Lookup(name).(*types.Const)
		if !ok || name == "_" {
			continue
		}
		v := c.Val()
		switch v.Kind() {
		case constant.Int:
			fmt.Fprintf(out, "Definition %s : Z := (%s)%%Z.\n", coqName(prefix, name), v.ExactString())
			n++
		case constant.String:
			fmt.Fprintf(out, "Definition %s : list Z := %s%%Z.\n", coqName(prefix, name), coqString(constant.StringVal(v)))
			n++
		case constant.Float:
			if iv := constant.ToInt(v); iv.Kind() == constant.Int {
				fmt.Fprintf(out, "Definition %s : Z := (%s)%%Z.\n", coqName(prefix, name), iv.ExactString())
				n++
			}
		}
	}
	return n
}

// findVar returns the initialiser expression of package-level var `name`.
func findVar(p *pkgInfo, name string) ast.Expr {
	for _, f := range p.files {
		for _, d := range f.Decls {
			gd, ok := d.(*ast.GenDecl)
			if !ok || gd.Tok != token.VAR {
				continue
			}
			for _, s := range gd.Specs {
				vs := s.(*ast.ValueSpec)
				for i, id := range vs.Names {
					if id.Name == name && i < len(vs.Values) {
						return vs.Values[i]
					}
				}
			}
		}
	}
	return nil
}

// findLocalVar returns the initialiser of `var name = ...` / `name := ...` inside function fn (method or func).
func findLocalVar(p *pkgInfo, fn, name string) ast.Expr {
	var res ast.Expr
	for _, f := range p.files {
		for _, d := range f.Decls {
			fd, ok := d.(*ast.FuncDecl)
			if !ok || fd.Name.Name != fn || fd.Body == nil {
				continue
			}
			ast.Inspect(fd.Body, func(n ast.Node) bool {
				switch x := n.(type) {
				case *ast.ValueSpec:
					for i, id := range x.Names {
						if id.Name == name && i < len(x.Values) {
							res = x.Values[i]
						}
					}
				case *ast.AssignStmt:
					for i, l := range x.Lhs {
						if id, ok := l.(*ast.Ident); ok && id.Name == name && i < len(x.Rhs) && x.Tok == token.DEFINE {
							res = x.Rhs[i]
						}
					}
				}
				return true
			})
		}
	}
	return res
}

func intList(p *pkgInfo, e ast.Expr) ([]string, error) {
	cl, ok := e.(*ast.CompositeLit)
	if !ok {
		return nil, fmt.Errorf("not a composite literal")
	}
	var r []string
	for _, el := range cl.Elts {
		tv, ok := p.info.Types[el]
		if !ok || tv.Value == nil || tv.Value.Kind() != constant.Int {
			return nil, fmt.Errorf("non-constant element")
		}
		r = append(r, tv.Value.ExactString())
	}
	return r, nil
}

func strList(p *pkgInfo, e ast.Expr) ([]string, error) {
	cl, ok := e.(*ast.CompositeLit)
	if !ok {
		return nil, fmt.Errorf("not a composite literal")
	}
	var r []string
	for _, el := range cl.Elts {
		tv, ok := p.info.Types[el]
		if !ok || tv.Value == nil || tv.Value.Kind() != constant.String {
			return nil, fmt.Errorf("non-constant element")
		}
		r = append(r, constant.StringVal(tv.Value))
	}
	return r, nil
}

func fail(format string, a ...interface{}) {
	fmt.Fprintf(os.Stderr, "constgen: "+format+"\n", a...)
	os.Exit(2)
}

func main() {
	repo := "/repo"
	outPath := ""
	if len(os.Args) > 1 {
		repo = os.Args[1]
	}
	if len(os.Args) > 2 {
		outPath = os.Args[2]
	}
	var out strings.Builder
	out.WriteString("(* GENERATED by tools/constgen from the repository source -- do not edit.  Regenerated on every run. *)\n")
	out.WriteString("From Coq Require Import ZArith List.\nImport ListNotations.\nOpen Scope Z_scope.\n\n(* all names live in module K: refer to them as K.opQuery, K.timeBase, ... *)\nModule K.\n\n")

	main, err := load(repo)
	if err != nil {
		fail("load gocql: %v", err)
	}
	out.WriteString("(* package gocql: package-level constants *)\n")
	if n := emitConsts(&out, main, ""); n < 100 {
		fail("only %d constants found in package gocql", n)
	}
	for _, sub := range []string{"streams", "murmur", "lru"} {
		p, err := load(filepath.Join(repo, "internal", sub))
		if err != nil {
			fail("load internal/%s: %v", sub, err)
		}
		fmt.Fprintf(&out, "\n(* package internal/%s *)\n", sub)
		emitConsts(&out, p, sub+"_")
	}

	out.WriteString("\n(* composite literals and initialisers *)\n")
	for _, nm := range []string{"minNode", "maxNode"} {
		e := findVar(main, nm)
		if e == nil {
			fail("var %s not found", nm)
		}
		l, err := intList(main, e)
		if err != nil {
			fail("%s: %v", nm, err)
		}
		fmt.Fprintf(&out, "Definition %s : list Z := [%s]%%Z.\n", nm, strings.Join(l, "; "))
	}
	{
		e := findLocalVar(main, "String", "offsets")
		if e == nil {
			fail("offsets table in UUID.String not found")
		}
		l, err := intList(main, e)
		if err != nil {
			fail("offsets: %v", err)
		}
		fmt.Fprintf(&out, "Definition uuid_offsets : list Z := [%s]%%Z.\n", strings.Join(l, "; "))
	}
	{
		e := findVar(main, "defaultApprovedAuthenticators")
		if e == nil {
			fail("defaultApprovedAuthenticators not found")
		}
		l, err := strList(main, e)
		if err != nil {
			fail("defaultApprovedAuthenticators: %v", err)
		}
		var ss []string
		for _, s := range l {
			ss = append(ss, coqString(s))
		}
		fmt.Fprintf(&out, "Definition defaultApprovedAuthenticators : list (list Z) := [%s]%%Z.\n", strings.Join(ss, ";\n  "))
	}
	{
		// var timeBase = time.Date(y, time.Month, d, h, m, s, ns, time.UTC).Unix()
		e := findVar(main, "timeBase")
		ok := false
		if ce, isCall := e.(*ast.CallExpr); isCall {
			if sel, isSel := ce.Fun.(*ast.SelectorExpr); isSel && sel.Sel.Name == "Unix" {
				if dc, isCall2 := sel.X.(*ast.CallExpr); isCall2 && len(dc.Args) == 8 {
					months := map[string]time.Month{"January": 1, "February": 2, "March": 3, "April": 4, "May": 5, "June": 6,
						"July": 7, "August": 8, "September": 9, "October": 10, "November": 11, "December": 12}
					vals := make([]int, 8)
					good := true
					for i, a := range dc.Args[:7] {
						if i == 1 {
							if s, isSel := a.(*ast.SelectorExpr); isSel {
								vals[i] = int(months[s.Sel.Name])
								continue
							}
						}
						if bl, isLit := a.(*ast.BasicLit); isLit {
							v, err := strconv.Atoi(bl.Value)
							if err != nil {
								good = false
							}
							vals[i] = v
						} else {
							good = false
						}
					}
					if s, isSel := dc.Args[7].(*ast.SelectorExpr); !isSel || s.Sel.Name != "UTC" {
						good = false
					}
					if good && vals[1] != 0 {
						tb := time.Date(vals[0], time.Month(vals[1]), vals[2], vals[3], vals[4], vals[5], vals[6], time.UTC).Unix()
						fmt.Fprintf(&out, "Definition timeBase : Z := (%d)%%Z.\n", tb)
						ok = true
					}
				}
			}
		}
		if !ok {
			fail("timeBase initialiser has an unexpected shape")
		}
	}
	out.WriteString("\nEnd K.\n")
	res := out.String()
	if outPath == "" {
		fmt.Print(res)
		return
	}
	if old, err := os.ReadFile(outPath); err == nil && string(old) == res {
		return
	}
	if err := os.WriteFile(outPath, []byte(res), 0o644); err != nil {
		fail("%v", err)
	}
}
