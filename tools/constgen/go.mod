module constgen

go 1.23
