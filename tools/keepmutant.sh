#!/bin/bash
# keepmutant.sh Cxx tag "needs" "result"  -- after I have confirmed build/tests/demo myself: store /tmp/mut/Cxx-tag as /verif/seeded/Cxx-tag/ and remove the worktree
PID=$1; TAG=$2; NEEDS=$3; RESULT=$4
WT=/tmp/mut/$PID-$TAG; D=/verif/seeded/$PID-$TAG
mkdir -p $D && cp $WT/patch.diff $D/ && cp $WT/MUTANT.md $D/ 2>/dev/null
find $WT -name 'zz_mutant_demo_test.go' | while read f; do rel=${f#$WT/}; mkdir -p $D/demo/$(dirname $rel); cp $f $D/demo/$rel; done
python3 - "$PID" "$TAG" "$NEEDS" "$RESULT" <<'PY'
import json,sys
pid,tag,needs,result=sys.argv[1:5]
json.dump({"property":pid,"id":pid+"-"+tag,"breaks":pid,"needs_to_manifest":needs,"what_i_ran":result},open("/verif/seeded/%s-%s/meta.json"%(pid,tag),"w"),indent=1)
PY
git -C /repo worktree remove --force $WT && echo removed $WT
